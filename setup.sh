#!/bin/sh
# Build the factgen driver (offline) and warm the dependency cache by generating facts once.
set -e
cd "$(dirname "$0")"
export CARGO_NET_OFFLINE=true
(cd factgen && cargo +nightly build --offline)
python3 -m vlib.gen ws
python3 -m vlib.gen lib-full
python3 -c "from vlib import controls; controls.run()"
