"""A small path-enumerating abstract interpreter over THIR bodies.

Purpose: decide *form-independent* rules.  A rule states an abstract input case (what some calls return: `Ok(..)` / `Err(..)` /
`Some(..)` / `None` / true / false), runs the function, and asserts on the abstract result and on the trace of calls made — so it no
longer matters whether the source says `x.ok_or(e).map(f)`, `match x { Some(v) => Ok(f(v)), None => Err(e) }`, an early-return
guard, or a private helper that contains either: local functions and closures are inlined, Option/Result/bool combinators of std
are interpreted, `?` is interpreted, `if`/`match` on unknown values fork the path.

Values (tuples):
  ("lit", v) ("unit",) ("tuple", (v..)) ("adt", path, variant, ((field, v)..)) ("sym", label)
  ("term", fn, (args..))      result of an uninterpreted call
  ("field", base, name)  ("payload", base, variant, field)  ("closure", def, env)  ("fn", path)  ("await", v)

Exploration: the function is re-run once per decision script (DFS over the choices met at undecided branches).
"""
from . import thir as T

OPTION = ("std::option::Option", "core::option::Option")
RESULT = ("std::result::Result", "core::result::Result")


class Undecided(Exception):
    pass


class _Return(Exception):
    def __init__(self, value):
        self.value = value


class _Break(Exception):
    def __init__(self, value):
        self.value = value


class _IterEnd(Exception):
    pass


class _Infeasible(Exception):
    """the choices made on this path contradict each other (e.g. every arm of an exhaustive match was skipped)"""


class _Abort(Exception):
    """path ends in a panic / diverging call"""
    def __init__(self, why):
        self.why = why


def some(v):
    return ("adt", OPTION[0], "Some", (("0", v),))


NONE = ("adt", OPTION[0], "None", ())


def ok(v):
    return ("adt", RESULT[0], "Ok", (("0", v),))


def err(v):
    return ("adt", RESULT[0], "Err", (("0", v),))


def lit(v):
    return ("lit", v)


def is_adt(v, names, variant=None):
    return isinstance(v, tuple) and v[0] == "adt" and v[1].endswith(tuple(n.split("::", 1)[1] for n in names)) and (variant is None or v[2] == variant)


def is_opt(v):
    return is_adt(v, OPTION)


def is_res(v):
    return is_adt(v, RESULT)


def payload0(v):
    return v[3][0][1] if v[3] else ("unit",)


def fields_of(v):
    return dict(v[3]) if isinstance(v, tuple) and v[0] == "adt" else {}


def vstr(v, depth=0):
    """Canonical compact text of a value (for rules and messages)."""
    if depth > 14:
        return "…"
    if not isinstance(v, tuple):
        return str(v)
    k = v[0]
    d = depth + 1
    if k == "lit":
        return repr(v[1]) if isinstance(v[1], str) else str(v[1]).lower() if isinstance(v[1], bool) else str(v[1])
    if k == "unit":
        return "()"
    if k == "tuple":
        return "(" + ", ".join(vstr(x, d) for x in v[1]) + ")"
    if k == "adt":
        name = T.short(v[1], 1)
        head = v[2] if name in ("Option", "Result") or name == v[2] else "%s::%s" % (name, v[2])
        if not v[3]:
            return head
        if all(f.isdigit() for f, _ in v[3]):
            return "%s(%s)" % (head, ", ".join(vstr(x, d) for _, x in v[3]))
        return "%s{%s}" % (head, ", ".join("%s: %s" % (f, vstr(x, d)) for f, x in v[3]))
    if k == "sym":
        return "«%s»" % v[1]
    if k == "term":
        return "%s%s(%s)" % (T.short(v[1], 2), ("#%d" % v[3]) if len(v) > 3 else "", ", ".join(vstr(x, d) for x in v[2]))
    if k == "field":
        return "%s.%s" % (vstr(v[1], d), v[2])
    if k == "payload":
        return "%s→%s.%s" % (vstr(v[1], d), v[2], v[3])
    if k == "closure":
        return "closure<%s>" % T.short(v[1], 2)
    if k == "fn":
        return "fn<%s>" % T.short(v[1], 2)
    if k == "await":
        return "%s.await" % vstr(v[1], d)
    if k == "const":
        return T.short(v[1], 2)
    if k == "bin":
        return "(%s %s %s)" % (vstr(v[2], d), v[1], vstr(v[3], d))
    if k == "not":
        return "!%s" % vstr(v[1], d)
    if k == "upd":
        return "%s{%s: %s}" % (vstr(v[1], d), v[2], vstr(v[3], d))
    if k in ("cvec", "cset", "citer"):
        return "%s[%s]" % (k[1:], ", ".join(vstr(x, d) for x in v[1]))
    if k == "cmap":
        return "map{%s}" % ", ".join("%s: %s" % (vstr(a, d), vstr(b, d)) for a, b in v[1])
    return str(v)


def walk_value(v):
    """Pre-order over all sub-values."""
    stack = [v]
    while stack:
        x = stack.pop()
        if not isinstance(x, tuple):
            continue
        yield x
        k = x[0]
        if k in ("tuple",):
            stack.extend(x[1])
        elif k == "adt":
            stack.extend(val for _, val in x[3])
        elif k == "term":
            stack.extend(x[2])
        elif k in ("field", "payload", "await", "not"):
            stack.append(x[1])
        elif k == "bin":
            stack.extend([x[2], x[3]])
        elif k == "upd":
            stack.extend([x[1], x[3]])
        elif k in ("cvec", "cset", "citer"):
            stack.extend(x[1])
        elif k == "cmap":
            for kk, vv in x[1]:
                stack.extend([kk, vv])


def mentions(v, pred):
    return any(pred(x) for x in walk_value(v))


class PathResult:
    def __init__(self, end, ret, trace, assume, env, decisions):
        self.end = end          # "return" | "fallthrough" | "iter-end" | "abort"
        self.ret = ret
        self.trace = trace      # [("call", fn, args, sp) | ("assign", name, value, sp) | ("iter-end", {..}, loop sp) | ("loop-enter", loop sp) | ("await", v, sp) | ("abort", why)]
        self.assume = assume    # {vstr(value): variant-or-bool}
        self.env = env
        self.decisions = decisions

    def calls(self, *suffixes):
        return [e for e in self.trace if e[0] == "call" and (not suffixes or e[1].endswith(suffixes) or T.short(e[1], 2).endswith(suffixes))]

    def after_loop_with(self, *suffixes):
        """Did this path leave (break out of) a loop in which a call matching one of the suffixes was made?"""
        seen = False
        for e in self.trace:
            if e[0] == "call" and (e[1].endswith(suffixes) or T.short(e[1], 2).endswith(suffixes)):
                seen = True
            if e[0] == "loop-exit" and seen:
                return True
        return False

    def early_loop_exit(self):
        """Did the path break out of a loop while its iterator still had an element (a `break` / `return` inside a `for` body)?"""
        last = None
        for e in self.trace:
            if e[0] == "next":
                last = e[2]
            elif e[0] == "loop-exit" and last == "Some":
                return True
        return self.end == "return" and last == "Some"

    def assumed_bool(self, text):
        """What the path assumed about a boolean value (given by its canonical text, e.g. «loop:flag»): True / False / None — whether
        the source tested it (`if x`, `!x`), compared it, or matched it against the literal patterns `true` / `false`."""
        v = self.assume.get(text)
        if isinstance(v, bool):
            return v
        for lit, pol in (("true", True), ("false", False)):
            w = self.assume.get("eq:%s:%s" % (text, lit))
            if isinstance(w, bool):
                return pol if w else (not pol)
        return None

    def assigns(self, name=None):
        return [e for e in self.trace if e[0] == "assign" and (name is None or e[1] == name)]

    def __repr__(self):
        return "<%s ret=%s calls=%s>" % (self.end, vstr(self.ret) if self.ret is not None else None, [T.short(c[1], 2) for c in self.calls()])


class Interp:
    def __init__(self, fx, hook=None, inline=None, no_inline=(), max_paths=600, max_depth=8, havoc_loops=True, crates=None):
        """hook(fn_path, args, node, interp) -> value | None (None = not handled)."""
        self.fx = fx
        self.hook = hook
        self.inline_pred = inline
        self.no_inline = tuple(no_inline)
        self.max_paths = max_paths
        self.max_depth = max_depth
        self.havoc_loops = havoc_loops
        self.crates = crates
        self.model_iterators = True
        self._bodies = {}
        self._ctors = {}
        for it in fx.item_list:
            if it["kind"] == "Struct":
                self._ctors[it["qdef"]] = (it["qdef"], it["qdef"].split("::")[-1])
            elif it["kind"] == "Enum":
                for v in it.get("variants", []):
                    self._ctors[it["qdef"] + "::" + v["name"]] = (it["qdef"], v["name"])

    def body_of(self, t):
        k = t.get("def")
        if k not in self._bodies:
            self._bodies[k] = T.user_body(t)
        return self._bodies[k]

    # -- exploration driver ------------------------------------------------------------------------
    def explore(self, def_path, args=None, env=None):
        t = self.fx.thir.get(def_path)
        if t is None:
            raise Undecided("no THIR for %s" % def_path)
        return self.explore_body(t, args, env)

    def explore_body(self, t, args=None, env0=None):
        results = []
        scripts = [[]]
        seen = set()
        while scripts:
            script = scripts.pop()
            key = tuple(script)
            if key in seen:
                continue
            seen.add(key)
            if len(results) >= self.max_paths:
                raise Undecided("more than %d paths in %s" % (self.max_paths, t.get("def")))
            self._script = list(script)
            self._pos = 0
            self._taken = []
            self._alts = []
            self.trace = []
            self.assume = {}
            self._sym = 0
            self._occ = {}
            env = dict(env0 or {})
            self._bind_params(t, args, env)
            end, ret = "fallthrough", None
            try:
                ret = self.ev(self.body_of(t), env, 0)
            except _Return as r:
                end, ret = "return", r.value
            except _IterEnd:
                end = "iter-end"
            except _Break as b:
                end, ret = "fallthrough", b.value
            except _Abort as a:
                end = "abort"
                self.trace.append(("abort", a.why))
            except _Infeasible:
                end = None
            if end is not None:
                results.append(PathResult(end, ret, self.trace, dict(self.assume), env, list(self._taken)))
            # schedule alternatives discovered on this run
            for (pos, n) in self._alts:
                for alt in range(1, n):
                    scripts.append(self._taken[:pos] + [alt])
        return results

    def _bind_params(self, t, args, env):
        params = [p for p in t.get("params", []) if p.get("pat") is not None]
        for i, p in enumerate(params):
            if args is not None and i < len(args) and args[i] is not None:
                v = args[i]
            else:
                v = ("sym", "param:%s" % T.pat_str(p["pat"]))
            self.bind(p["pat"], v, env, force=True)

    def choose(self, n, label=""):
        """Pick one of n alternatives (0 first); remembers that the others exist."""
        if self._pos < len(self._script):
            c = self._script[self._pos]
        else:
            c = 0
            self._alts.append((self._pos, n))
        self._pos += 1
        self._taken.append(c)
        return c

    def fresh(self, label):
        self._sym += 1
        return ("sym", "%s#%d" % (label, self._sym))

    # -- evaluation -------------------------------------------------------------------------------
    def ev(self, e, env, depth):
        if e is None:
            return ("unit",)
        if depth > 220:
            raise Undecided("expression nesting too deep")
        k = e.get("k")
        d = depth + 1
        if k == "Block":
            for s in e.get("stmts", []):
                self.ev(s, env, d)
            if e.get("expr") is not None:
                return self.ev(e["expr"], env, d)
            return ("unit",)
        if k == "LetStmt":
            if e.get("init") is None:
                return ("unit",)
            v = self.ev(e["init"], env, d)
            if e.get("else") is not None:
                r = self.match_pat(e["pat"], v, env)
                if r == "maybe":
                    r = self.choose(2, "let-else") == 0
                    if r:
                        self.assume_pat(e["pat"], v, True)
                        self.bind(e["pat"], v, env, force=True)
                    else:
                        self.assume_pat(e["pat"], v, False)
                if r is True:
                    self.bind(e["pat"], v, env, force=True)
                    return ("unit",)
                if r is False:
                    self.ev(e["else"], env, d)
                    raise _Abort("let-else block fell through")
                return ("unit",)
            self.bind(e["pat"], v, env, force=True)
            return ("unit",)
        if k in ("Borrow", "Deref", "Coerce", "Cast", "RawBorrow", "Use", "NeverToAny", "PlaceTypeAscription", "ValueTypeAscription", "Scope"):
            return self.ev(e.get("arg") or e.get("value") or e.get("expr"), env, d)
        if k == "Try":
            return self.ev_try(e, env, d)
        if k == "Await":
            v = self.ev(e["arg"], env, d)
            self.trace.append(("await", v, e.get("sp")))
            return self._await_value(v, e)
        if k == "Var":
            return env.get(e["name"], ("sym", "var:%s" % e["name"]))
        if k == "Lit":
            return ("lit", e.get("v"))
        if k in ("Const", "Static"):
            # a trait's associated const carries the Self type it is taken from (the trait's default body is not its value)
            return ("const", e["def"], e["self_ty"]) if e.get("self_ty") else ("const", e["def"])
        if k == "Zst":
            return ("fn", e.get("fn")) if e.get("fn") else ("unit",)
        if k == "Field":
            base = self.ev(e["lhs"], env, d)
            return self.project(base, e["name"])
        if k == "Tuple":
            return ("tuple", tuple(self.ev(x, env, d) for x in e["fields"]))
        if k == "Array":
            return ("term", "array", tuple(self.ev(x, env, d) for x in e["fields"]))
        if k == "Adt":
            fs = tuple((f["name"], self.ev(f["expr"], env, d)) for f in e.get("fields", []))
            base = e.get("base")
            return ("adt", e["adt"], e["variant"], fs)
        if k == "Closure":
            return ("closure", e["def"], dict(env))
        if k == "Assign":
            v = self.ev(e["rhs"], env, d)
            lhs = T.peel(e["lhs"])
            if lhs.get("k") == "Var":
                env[lhs["name"]] = v
                self.trace.append(("assign", lhs["name"], v, e.get("sp")))
            else:
                self.trace.append(("assign", T.expr_str(lhs), v, e.get("sp")))
                self.store_path(lhs, v, env)
            return ("unit",)
        if k == "AssignOp":
            lhs = T.peel(e["lhs"])
            cur = self.ev(e["lhs"], env, d)
            v = ("bin", e["op"], cur, self.ev(e["rhs"], env, d))
            if lhs.get("k") == "Var":
                env[lhs["name"]] = v
                self.trace.append(("assign", lhs["name"], v, e.get("sp")))
            else:
                self.store_path(lhs, v, env)
            return ("unit",)
        if k == "If":
            c = self.truth(self.ev_cond(e["cond"], env, d))
            if c:
                return self.ev(e["then"], env, d)
            if e.get("else") is not None:
                return self.ev(e["else"], env, d)
            return ("unit",)
        if k == "Let":      # `if let PAT = EXPR` condition
            v = self.ev(e["expr"], env, d)
            r = self.match_pat(e["pat"], v, env)
            if r == "maybe":
                r = self.choose(2, "if-let") == 0
                self.assume_pat(e["pat"], v, r)
            if r:
                self.bind(e["pat"], v, env, force=True)
            return ("lit", bool(r))
        if k == "Match":
            return self.ev_match(e, env, d)
        if k == "Return":
            raise _Return(self.ev(e["value"], env, d) if e.get("value") is not None else ("unit",))
        if k == "Break":
            raise _Break(self.ev(e["value"], env, d) if e.get("value") is not None else ("unit",))
        if k == "Continue":
            raise _IterEnd()
        if k == "Loop":
            return self.ev_loop(e, env, d)
        if k == "Macro":
            return ("unit",)
        if k == "Call":
            return self.ev_call(e, env, d)
        if k == "Logical":
            a = self.truth(self.ev(e["lhs"], env, d))
            if e["op"] == "And":
                return ("lit", False) if not a else ("lit", self.truth(self.ev(e["rhs"], env, d)))
            return ("lit", True) if a else ("lit", self.truth(self.ev(e["rhs"], env, d)))
        if k == "Unary":
            v = self.ev(e["arg"], env, d)
            if e.get("op") == "Not":
                if v[0] == "lit" and isinstance(v[1], bool):
                    return ("lit", not v[1])
                return ("not", v)
            return ("term", "unary:" + str(e.get("op")), (v,))
        if k == "Binary":
            a, b = self.ev(e["lhs"], env, d), self.ev(e["rhs"], env, d)
            if a[0] == "lit" and b[0] == "lit" and e["op"] in ("Eq", "Ne"):
                return ("lit", (a[1] == b[1]) == (e["op"] == "Eq"))
            return ("bin", e["op"], a, b)
        if k == "Index":
            return ("term", "index", (self.ev(e["lhs"], env, d), self.ev(e["index"], env, d)))
        if k == "Yield":
            return ("unit",)
        return ("sym", "expr:%s" % (k or "?"))

    def ev_cond(self, e, env, depth):
        return self.ev(e, env, depth)

    def truth(self, v):
        """Decide a condition value; forks if unknown (remembering the choice for equal conditions)."""
        if v[0] == "lit" and isinstance(v[1], bool):
            return v[1]
        neg = False
        while v[0] == "not":
            v, neg = v[1], not neg
        key = vstr(v)
        if key in self.assume:
            r = bool(self.assume[key])
        else:
            forced = self._eq_forced(v)
            r = forced if forced is not None else (self.choose(2, key) == 0)
            self.assume[key] = r
            if r:
                self._eq_note(v)
        return r != neg

    def _eq_parts(self, v):
        """(subject-text, literal) for `x == literal` comparisons."""
        if v[0] == "term" and T.short(v[1], 2) in ("PartialEq::eq", "impls::eq", "cmp::eq") and len(v[2]) == 2:
            a, b = v[2]
            if b[0] == "lit" and a[0] != "lit":
                return vstr(a), b[1]
            if a[0] == "lit" and b[0] != "lit":
                return vstr(b), a[1]
        if v[0] == "bin" and v[1] == "Eq":
            a, b = v[2], v[3]
            if b[0] == "lit" and a[0] != "lit":
                return vstr(a), b[1]
            if a[0] == "lit" and b[0] != "lit":
                return vstr(b), a[1]
        return None

    def _eq_forced(self, v):
        """A value already assumed equal to one literal is not equal to a different one."""
        p = self._eq_parts(v)
        if p is None:
            return None
        known = self.assume.get("is:" + p[0])
        if known is not None and known != p[1]:
            return False
        return None

    def _eq_note(self, v):
        p = self._eq_parts(v)
        if p is not None:
            self.assume.setdefault("is:" + p[0], p[1])

    # -- projections / patterns -----------------------------------------------------------------
    def store_path(self, lhs, v, env):
        """`x.f = v`, `(*x).f.g = v`, `*x = v` for a tracked variable x: functional update of x's abstract value."""
        path, x = [], lhs
        for _ in range(8):
            x = T.peel(x) if isinstance(x, dict) else x
            if not isinstance(x, dict):
                return
            if x.get("k") == "Field":
                path.append(x["name"])
                x = x["lhs"]
            elif x.get("k") in ("Deref", "Borrow", "Scope", "Use") and x.get("arg") is not None:
                x = x["arg"]
            elif x.get("k") == "Var":
                break
            else:
                return
        if not isinstance(x, dict) or x.get("k") != "Var" or x["name"] not in env:
            return
        path.reverse()
        env[x["name"]] = self.set_path(env[x["name"]], path, v)

    def set_path(self, base, path, v):
        if not path:
            return v
        f = path[0]
        inner = self.set_path(self.project(base, f), path[1:], v)
        if base[0] == "adt" and f in dict(base[3]):
            return ("adt", base[1], base[2], tuple((n, inner if n == f else x) for n, x in base[3]))
        if base[0] == "upd" and base[2] == f:
            return ("upd", base[1], f, inner)
        return ("upd", base, f, inner)

    def project(self, base, name):
        if base[0] == "upd":
            return base[3] if base[2] == name else self.project(base[1], name)
        if base[0] == "adt":
            fs = dict(base[3])
            if name in fs:
                return fs[name]
        if base[0] == "tuple" and name.isdigit() and int(name) < len(base[1]):
            return base[1][int(name)]
        return ("field", base, name)

    def variant_of(self, v):
        """Known variant of an enum value, or None."""
        if v[0] == "adt":
            return v[2]
        return self.assume.get("variant:" + vstr(v))

    def match_pat(self, p, v, env):
        """True / False / "maybe" (needs an assumption about a symbolic value)."""
        if p is None:
            return True
        k = p.get("k")
        if k in ("Wild", "Missing"):
            return True
        if k == "Bind":
            return self.match_pat(p["sub"], v, env) if p.get("sub") else True
        if k == "Deref":
            return self.match_pat(p["sub"], v, env)
        if k == "Or":
            rs = [self.match_pat(x, v, env) for x in p["pats"]]
            if any(r is True for r in rs):
                return True
            if any(r == "maybe" for r in rs):
                return "maybe"
            return False
        if k == "Variant":
            kv = self.variant_of(v)
            if kv is None:
                neg = self.assume.get("notvariant:" + vstr(v), set())
                if p["variant"] in neg:
                    return False
                return "maybe"
            if kv != p["variant"]:
                return False
            res = True
            for s in p.get("sub") or []:
                r = self.match_pat(s["pat"], self.payload(v, p["variant"], s["field"]), env)
                if r is False:
                    return False
                if r == "maybe":
                    res = "maybe"
            return res
        if k == "Leaf":
            res = True
            for s in p.get("sub") or []:
                r = self.match_pat(s["pat"], self.project(v, s["field"]), env)
                if r is False:
                    return False
                if r == "maybe":
                    res = "maybe"
            return res
        if k == "Const":
            pv = T.const_pat_value(p)
            if p.get("cdef"):
                pv = None
            if v[0] == "lit" and pv is not None:
                return v[1] == pv or str(v[1]) == str(pv)
            if v[0] == "lit" and isinstance(v[1], bool):
                s = T.pat_str(p)
                if s in ("true", "false", "1", "0"):
                    return (s in ("true", "1")) == v[1]
            key = "eq:%s:%s" % (vstr(v), T.pat_str(p))
            if key in self.assume:
                return self.assume[key]
            return "maybe"
        if k in ("Range", "Slice"):
            key = "pat:%s:%s" % (vstr(v), T.pat_str(p))
            if key in self.assume:
                return self.assume[key]
            return "maybe"
        return "maybe"

    def assume_pat(self, p, v, holds):
        """Record what taking (or not taking) pattern p for value v means."""
        k = p.get("k")
        if k == "Deref" or (k == "Bind" and p.get("sub")):
            return self.assume_pat(p["sub"], v, holds)
        if k == "Variant":
            if holds:
                if self.variant_of(v) is None:
                    self.assume["variant:" + vstr(v)] = p["variant"]
                for s in p.get("sub") or []:
                    self.assume_pat(s["pat"], self.payload(v, p["variant"], s["field"]), True)
            else:
                if self.variant_of(v) is None and not any(self.match_pat(s["pat"], self.payload(v, p["variant"], s["field"]), {}) != True for s in (p.get("sub") or [])):
                    self.assume.setdefault("notvariant:" + vstr(v), set()).add(p["variant"])
            return
        if k == "Leaf":
            subs = p.get("sub") or []
            if holds:
                for s in subs:
                    self.assume_pat(s["pat"], self.project(v, s["field"]), True)
            else:
                unknown = [s for s in subs if self.match_pat(s["pat"], self.project(v, s["field"]), {}) == "maybe"]
                if len(unknown) == 1:
                    self.assume_pat(unknown[0]["pat"], self.project(v, unknown[0]["field"]), False)
            return
        if k == "Or":
            if not holds:
                for x in p["pats"]:
                    self.assume_pat(x, v, False)
            else:
                cand = [x for x in p["pats"] if self.match_pat(x, v, {}) != False]
                if len(cand) == 1:
                    self.assume_pat(cand[0], v, True)
                elif cand:
                    # `A(..) | B(..)`: the value is one of these variants
                    def var_of(x):
                        while x.get("k") in ("Deref", "Bind") and x.get("sub"):
                            x = x["sub"]
                        return x.get("variant") if x.get("k") == "Variant" else None
                    names = [var_of(x) for x in cand]
                    if all(names) and self.variant_of(v) is None:
                        self.assume["variantin:" + vstr(v)] = tuple(sorted(set(names)))
            return
        if k == "Const":
            self.assume["eq:%s:%s" % (vstr(v), T.pat_str(p))] = holds
            return
        if k in ("Range", "Slice"):
            self.assume["pat:%s:%s" % (vstr(v), T.pat_str(p))] = holds

    def payload(self, v, variant, field):
        if v[0] == "adt":
            return dict(v[3]).get(field, ("sym", "missing-field"))
        return ("payload", v, variant, field)

    def bind(self, p, v, env, force=False):
        if p is None:
            return
        k = p.get("k")
        if k == "Bind":
            env[p["name"]] = v
            if p.get("sub"):
                self.bind(p["sub"], v, env, force)
        elif k == "Deref":
            self.bind(p["sub"], v, env, force)
        elif k == "Variant":
            for s in p.get("sub") or []:
                self.bind(s["pat"], self.payload(v, p["variant"], s["field"]), env, force)
        elif k == "Leaf":
            for s in p.get("sub") or []:
                self.bind(s["pat"], self.project(v, s["field"]), env, force)
        elif k == "Or":
            for x in p["pats"]:
                if self.match_pat(x, v, env) is True:
                    self.bind(x, v, env, force)
                    return
            if p["pats"]:
                self.bind(p["pats"][0], v, env, force)

    def ev_match(self, e, env, depth):
        v = self.ev(e["scrut"], env, depth)
        for a in e["arms"]:
            r = self.match_pat(a["pat"], v, env)
            if r is False:
                continue
            if r == "maybe":
                take = self.choose(2, "arm:%s" % T.pat_str(a["pat"])) == 0
                self.assume_pat(a["pat"], v, take)
                if not take:
                    continue
            env2 = env
            self.bind(a["pat"], v, env2, force=True)
            if a.get("guard") is not None:
                if not self.truth(self.ev(a["guard"], env2, depth + 1)):
                    continue
            return self.ev(a["body"], env2, depth + 1)
        raise _Infeasible()

    def ev_loop(self, e, env, depth):
        self.trace.append(("loop-enter", e.get("sp")))
        if self.havoc_loops:
            for n in assigned_vars(e["body"]) + self.mut_passed_vars(e["body"]) + (mutated_collections(e["body"]) if getattr(self, "havoc_collections", False) else []):
                if n in env:
                    env[n] = ("sym", "loop:%s" % n)
        try:
            self.ev(e["body"], env, depth)
        except _Break as b:
            self.trace.append(("loop-exit", b.value, e.get("sp")))
            return b.value
        except _IterEnd:
            pass
        self.trace.append(("iter-end", {n: env.get(n) for n in assigned_vars(e["body"]) + self.mut_passed_vars(e["body"]) if n in env}, e.get("sp")))
        raise _IterEnd()

    def mut_passed_vars(self, body):
        """Variables handed as `&mut` to a workspace function that will be run inline (it may store through the reference)."""
        out = []
        for n in T.walk(body):
            if n.get("k") != "Call" or not n.get("fn"):
                continue
            t = self.fx.thir.get(n["fn"])
            if t is None or not self._may_inline(n["fn"], t):
                continue
            for i, a in enumerate(n.get("args", []) or []):
                if self._is_mut_borrow(a) and self._stores_through(n["fn"], i, 0):
                    v = self._place_var(a)
                    if v is not None and v not in out:
                        out.append(v)
        return out

    def _stores_through(self, fn, i, depth):
        """Does workspace function `fn` assign through its i-th parameter (`p.f = ..`, `*p = ..`, mem::replace/swap/take on it), itself
        or by handing it on to another workspace function that does?  (Calls into other crates cannot be seen into: a `&mut NsReader`
        that is only passed to quick-xml is not loop state of ours.)"""
        key = (fn, i)
        cache = self.__dict__.setdefault("_st_cache", {})
        if key in cache:
            return cache[key]
        cache[key] = False
        t = self.fx.thir.get(fn)
        if t is None or depth > 3:
            return False
        params = [p for p in t.get("params", []) if p.get("pat") is not None]
        if i >= len(params) or (params[i].get("pat") or {}).get("k") != "Bind":
            return False
        pn = params[i]["pat"]["name"]

        def base_var(x):
            for _ in range(8):
                x = T.peel(x) if isinstance(x, dict) else x
                if not isinstance(x, dict):
                    return None
                if x.get("k") == "Var":
                    return x["name"]
                if x.get("k") == "Field":
                    x = x["lhs"]
                elif x.get("k") in ("Deref", "Borrow", "Scope", "Use") and x.get("arg") is not None:
                    x = x["arg"]
                else:
                    return None
            return None
        res = False
        nodes = list(T.walk(self.body_of(t)))
        # closures inside the function capture the parameter by name: a store in one of them is a store through it
        for cn, ct in self.fx.thir.items():
            if cn.startswith(fn + "::{closure"):
                nodes += list(T.walk(self.body_of(ct)))
        for n in nodes:
            k = n.get("k")
            if k in ("Assign", "AssignOp") and base_var(n["lhs"]) == pn:
                res = True
                break
            if k == "Call" and n.get("fn"):
                s2 = T.short(n["fn"], 2)
                args = n.get("args", []) or []
                if s2 in ("mem::replace", "mem::swap", "mem::take") and any(self._place_var(a) == pn for a in args):
                    res = True
                    break
                if n["fn"] in self.fx.thir:
                    for j, a in enumerate(args):
                        if self._place_var(a) == pn and self._stores_through(n["fn"], j, depth + 1):
                            res = True
                            break
                    if res:
                        break
        cache[key] = res
        return res

    def ev_try(self, e, env, depth):
        v = self.ev(e["arg"], env, depth)
        aty = (T.peel(e["arg"]).get("ty") or e["arg"].get("ty") or "")
        return self.try_value(v, aty)

    def try_value(self, v, aty=""):
        if is_opt(v) or is_res(v):
            if v[2] in ("Some", "Ok"):
                return payload0(v)
            if v[2] == "None":
                raise _Return(NONE)
            raise _Return(err(("term", "From::from", (payload0(v),))))
        is_option = "option::Option<" in aty and not aty.startswith(("std::result", "core::result"))
        kv = self.variant_of(v)
        good, bad = ("Some", "None") if is_option else ("Ok", "Err")
        if kv is None:
            c = self.choose(2, "?:" + vstr(v)[:60])
            kv = good if c == 0 else bad
            self.assume["variant:" + vstr(v)] = kv
        if kv == good:
            return self.payload(v, good, "0")
        if is_option:
            raise _Return(NONE)
        raise _Return(err(("term", "From::from", (self.payload(v, "Err", "0"),))))

    def _await_value(self, v, e):
        """Awaiting an `async` block / the future of a local `async fn` runs its body (inlined); anything else stays symbolic."""
        if v[0] == "closure":
            d = v[1]
            t = self.fx.thir.get(d)
            # `#[instrument] async fn`: the outer coroutine only wraps the user's one (its first nested closure) in a span
            for _ in range(2):
                if t is not None and "__tracing_instrument_future" in T.expr_str(T.norm(t["body"]))[:4000] and (d + "::{closure#0}") in self.fx.thir:
                    d = d + "::{closure#0}"
                    t = self.fx.thir[d]
            if t is not None and self._may_inline(d, t) and getattr(self, "_inline_depth", 0) < self.max_depth:
                self._inline_depth = getattr(self, "_inline_depth", 0) + 1
                try:
                    return self.run_inline(t, [], dict(v[2]), 0, closure=True)
                finally:
                    self._inline_depth -= 1
        return ("await", v)

    # -- calls ------------------------------------------------------------------------------------
    @staticmethod
    def _place_var(a):
        """Name of the variable an argument expression designates (`&mut x`, `&mut *x`, `x`), or None."""
        x = a
        for _ in range(6):
            if not isinstance(x, dict):
                return None
            if x.get("k") == "Var":
                return x["name"]
            if x.get("k") in ("Borrow", "Deref", "Coerce", "Cast", "Use", "Scope", "RawBorrow") and x.get("arg") is not None:
                x = x["arg"]
            else:
                return None
        return None

    def ev_call(self, e, env, depth):
        fn = e.get("fn")
        s2 = T.short(fn, 2) if fn else ""
        if s2 in ("mem::replace", "mem::swap", "mem::take") and e.get("args"):
            # writes through a `&mut` to a variable we track: model the store
            names = [self._place_var(a) for a in e["args"]]
            if s2 == "mem::replace" and names[0] is not None and names[0] in env:
                new = self.ev(e["args"][1], env, depth + 1)
                old = env[names[0]]
                env[names[0]] = new
                self.trace.append(("assign", names[0], new, e.get("sp")))
                return old
            if s2 == "mem::swap" and names[0] in env and names[1] in env and None not in names:
                env[names[0]], env[names[1]] = env[names[1]], env[names[0]]
                self.trace.append(("assign", names[0], env[names[0]], e.get("sp")))
                self.trace.append(("assign", names[1], env[names[1]], e.get("sp")))
                return ("unit",)
            if s2 == "mem::take" and names[0] is not None and names[0] in env:
                old = env[names[0]]
                env[names[0]] = ("term", "Default::default", ())
                self.trace.append(("assign", names[0], env[names[0]], e.get("sp")))
                return old
        args = [self.ev(a, env, depth + 1) for a in e.get("args", [])]
        if fn is None:
            f = self.ev(e.get("fun"), env, depth + 1)
            return self.apply(f, args, e, depth)
        byref = [self._place_var(a) if self._is_mut_borrow(a) else None for a in e.get("args", [])]
        self._last_inline = None
        r = self.call_named(fn, args, e, depth)
        li = self._last_inline
        if li is not None and li[0] == fn and any(byref):
            # the callee was run inline: what it stored through a `&mut` parameter is now the value of the caller's variable
            for i, name in enumerate(byref):
                if name is None or name not in env or i >= len(li[1]):
                    continue
                pn = li[1][i]
                if pn is not None and pn in li[2] and li[2][pn] is not args[i] and li[2][pn] != args[i]:
                    env[name] = li[2][pn]
                    self.trace.append(("assign", name, li[2][pn], e.get("sp")))
        self._last_inline = None
        return r

    @staticmethod
    def _is_mut_borrow(a):
        x = a
        for _ in range(5):
            if not isinstance(x, dict):
                return False
            if x.get("k") == "Borrow" and x.get("mut"):
                return True
            if x.get("k") in ("Deref", "Coerce", "Cast", "Use", "Scope", "Borrow") and x.get("arg") is not None:
                x = x["arg"]
            else:
                return False
        return False

    def apply(self, f, args, node, depth):
        if f[0] == "closure":
            t = self.fx.thir.get(f[1])
            if t is not None and depth < 200:
                cenv = dict(f[2])
                if getattr(self, "havoc_mut_captures", False):
                    # a closure handed to an iterator adaptor runs once per element: what it has written to a captured variable in
                    # earlier calls (directly or through a `&mut` it passes on) is unknown when this call starts
                    body = self.body_of(t)
                    for n in assigned_vars(body) + self.mut_passed_vars(body):
                        if n in cenv:
                            cenv[n] = ("sym", "captured:%s" % n)
                return self.run_inline(t, args, cenv, depth, closure=True)
        if f[0] == "fn" and f[1]:
            return self.call_named(f[1], args, node, depth)
        self.trace.append(("call", "<indirect>", tuple([f] + list(args)), node.get("sp")))
        return ("term", "<indirect>", tuple([f] + list(args)))

    def call_named(self, fn, args, node, depth):
        if self.hook is not None:
            r = self.hook(fn, args, node, self)
            if r is not None:
                return r
        s2 = T.short(fn, 2)
        m = getattr(self, "std_" + s2.replace("::", "_").replace("<", "_").replace(">", "_"), None) if s2.startswith(("Option::", "Result::", "bool::", "ControlFlow::")) else None
        if m is not None:
            r = m(args, node, depth)
            if r is not None:
                return r
        if s2 in IDENTITY and args:
            return args[0]
        if s2 in ("PartialEq::eq", "PartialEq::ne") and len(args) == 2:
            # two known field-less enum values (`op == FilterOp::Delete` with op a constant of the call site): equal iff same variant
            a, b = args
            if a[0] == "adt" and b[0] == "adt" and a[1] == b[1] and not a[3] and not b[3] and not is_opt(a) and not is_res(a):
                r = a[2] == b[2]
                return ("lit", r if s2.endswith("eq") else not r)
        if s2 == "Iterator::next" and args:
            # std::iter::from_fn(f): each `next` is a call of f
            x = args[0]
            while isinstance(x, tuple) and x[0] == "term" and (T.short(x[1], 2) in IDENTITY or T.short(x[1], 2) in ITER_IDENTITY) and x[2]:
                x = x[2][0]
            if isinstance(x, tuple) and x[0] == "term" and T.short(x[1], 2) in ("iter::from_fn", "sources::from_fn", "from_fn::from_fn") and x[2]:
                return self.apply(x[2][0], [], node, depth)
        im = {"Iterator::find": self.iter_find, "Iterator::find_map": self.iter_find_map, "Iterator::any": self.iter_any, "Iterator::all": self.iter_all,
              "Iterator::next": self.iter_next}.get(s2)
        if im is not None and self.model_iterators:
            return im(args, node, depth)
        ct = self._ctors.get(T.strip_generics(fn)) or self._ctors.get(fn)
        if ct is not None:
            return ("adt", ct[0], ct[1], tuple((str(i), a) for i, a in enumerate(args)))
        if s2 in ("Option::Some",) or (T.short(fn, 1) == "Some" and "prelude" in fn and len(args) == 1):
            return some(args[0])
        if T.short(fn, 1) in ("Ok", "Err") and "prelude" in fn and len(args) == 1:
            return ok(args[0]) if T.short(fn, 1) == "Ok" else err(args[0])
        if s2 in ("Result::Ok",):
            return ok(args[0])
        if s2 in ("Result::Err",):
            return err(args[0])
        if s2 in ("FnOnce::call_once", "FnMut::call_mut", "Fn::call") and args:
            inner = args[1][1] if len(args) > 1 and args[1][0] == "tuple" else args[1:]
            return self.apply(args[0], list(inner), node, depth)
        if s2 == "panic::catch_unwind" and args:
            # Ok(what the closure returns) or Err(payload) if it panicked: both outcomes explored; what runs inside is bracketed in the trace
            f = args[0]
            if f[0] == "adt" and str(f[1]).endswith("AssertUnwindSafe") and f[3]:
                f = dict(f[3]).get("0", f)
            elif f[0] == "term" and T.short(f[1], 1) == "AssertUnwindSafe" and f[2]:
                f = f[2][0]
            if self.choose(2, "unwind") == 1:
                self.trace.append(("unwind", node.get("sp")))
                return err(("sym", "PANIC"))
            self.trace.append(("catch-enter", node.get("sp")))
            r = self.apply(f, [], node, depth)
            self.trace.append(("catch-exit", node.get("sp")))
            return ok(r)
        if s2 in ("mem::drop", "std::mem::drop", "hint::must_use"):
            return args[0] if s2.endswith("must_use") and args else ("unit",)
        if s2 in PANICS or fn.endswith(PANIC_FNS):
            raise _Abort("panic: %s" % s2)
        t = self.fx.thir.get(fn)
        if t is not None and self._may_inline(fn, t) and depth // 4 < self.max_depth * 6:
            self._inline_depth = getattr(self, "_inline_depth", 0) + 1
            try:
                if self._inline_depth <= self.max_depth:
                    self.trace.append(("enter", fn, tuple(args), node.get("sp")))
                    cenv = {}
                    r = self.run_inline(t, args, cenv, depth)
                    pnames = [(p["pat"]["name"] if (p.get("pat") or {}).get("k") == "Bind" else None)
                              for p in t.get("params", []) if p.get("pat") is not None]
                    self._last_inline = (fn, pnames, cenv)
                    return r
            finally:
                self._inline_depth -= 1
        self.trace.append(("call", fn, tuple(args), node.get("sp")))
        if self._effectful(node):
            # a call through `&mut` (a reader, an iterator, a connection) yields a new value every time it is made
            key = (fn, vstr(("tuple", tuple(args))))
            n = self._occ.get(key, 0)
            self._occ[key] = n + 1
            if n:
                return ("term", fn, tuple(args), n)
        return ("term", fn, tuple(args))

    def _effectful(self, node):
        for a in node.get("args", []) or []:
            x = a
            for _ in range(4):
                if not isinstance(x, dict):
                    break
                if x.get("k") == "Borrow" and x.get("mut"):
                    return True
                if (x.get("ty") or "").startswith("&mut "):
                    return True
                if x.get("k") in ("Deref", "Coerce", "Cast", "Borrow", "Use", "Scope") and x.get("arg") is not None:
                    x = x["arg"]
                else:
                    break
        return False

    def _may_inline(self, fn, t):
        if any(fn.endswith(x) or x in fn for x in self.no_inline):
            return False
        if self.inline_pred is not None:
            return bool(self.inline_pred(fn, t))
        if self.crates is not None and t.get("crate") not in self.crates:
            return False
        return t.get("kind") in (None, "Fn", "AssocFn", "Closure", "fn") or True

    def run_inline(self, t, args, env, depth, closure=False):
        params = [p for p in t.get("params", []) if p.get("pat") is not None]
        if closure and len(params) < len(t.get("params", [])):
            pass
        for i, p in enumerate(params):
            v = args[i] if i < len(args) else ("sym", "param:%s" % T.pat_str(p["pat"]))
            self.bind(p["pat"], v, env, force=True)
        body = self.body_of(t)
        if t.get("async") or (isinstance(body, dict) and body.get("k") == "Closure" and "coroutine" in str(t.get("ty", ""))):
            pass
        try:
            return self.ev(body, env, depth + 4)
        except _Return as r:
            return r.value

    # -- std models: Option / Result / bool ---------------------------------------------------------
    def _known(self, v, opt):
        """Make the variant of an Option/Result value known (forking if necessary); returns (variant, payload)."""
        if is_opt(v) or is_res(v):
            return v[2], (payload0(v) if v[3] else None)
        kv = self.variant_of(v)
        names = ("Some", "None") if opt else ("Ok", "Err")
        if kv is None:
            kv = names[self.choose(2, "variant:" + vstr(v)[:60])]
            self.assume["variant:" + vstr(v)] = kv
        return kv, (self.payload(v, kv, "0") if kv != "None" else None)

    def _call_fn(self, f, args, node, depth):
        return self.apply(f, args, node, depth)

    def std_Option_map(self, a, n, d):
        k, p = self._known(a[0], True)
        return some(self._call_fn(a[1], [p], n, d)) if k == "Some" else NONE

    def std_Option_and_then(self, a, n, d):
        k, p = self._known(a[0], True)
        return self._call_fn(a[1], [p], n, d) if k == "Some" else NONE

    def std_Option_ok_or(self, a, n, d):
        k, p = self._known(a[0], True)
        return ok(p) if k == "Some" else err(a[1])

    def std_Option_ok_or_else(self, a, n, d):
        k, p = self._known(a[0], True)
        return ok(p) if k == "Some" else err(self._call_fn(a[1], [], n, d))

    def std_Option_unwrap_or(self, a, n, d):
        k, p = self._known(a[0], True)
        return p if k == "Some" else a[1]

    def std_Option_unwrap_or_else(self, a, n, d):
        k, p = self._known(a[0], True)
        return p if k == "Some" else self._call_fn(a[1], [], n, d)

    def std_Option_unwrap_or_default(self, a, n, d):
        k, p = self._known(a[0], True)
        return p if k == "Some" else ("term", "Default::default", ())

    def std_Option_map_or(self, a, n, d):
        k, p = self._known(a[0], True)
        return self._call_fn(a[2], [p], n, d) if k == "Some" else a[1]

    def std_Option_map_or_else(self, a, n, d):
        k, p = self._known(a[0], True)
        return self._call_fn(a[2], [p], n, d) if k == "Some" else self._call_fn(a[1], [], n, d)

    def std_Option_is_some(self, a, n, d):
        return ("lit", self._known(a[0], True)[0] == "Some")

    def std_Option_is_some_and(self, a, n, d):
        k, p = self._known(a[0], True)
        return ("lit", False) if k == "None" else ("lit", self.truth(self._call_fn(a[1], [p], n, d)))

    def std_Option_is_none_or(self, a, n, d):
        k, p = self._known(a[0], True)
        return ("lit", True) if k == "None" else ("lit", self.truth(self._call_fn(a[1], [p], n, d)))

    def std_Result_is_ok_and(self, a, n, d):
        k, p = self._known(a[0], False)
        return ("lit", False) if k == "Err" else ("lit", self.truth(self._call_fn(a[1], [p], n, d)))

    def std_Result_is_err_and(self, a, n, d):
        k, p = self._known(a[0], False)
        return ("lit", False) if k == "Ok" else ("lit", self.truth(self._call_fn(a[1], [p], n, d)))

    def std_Option_is_none(self, a, n, d):
        return ("lit", self._known(a[0], True)[0] == "None")

    def std_Option_or(self, a, n, d):
        k, p = self._known(a[0], True)
        return a[0] if k == "Some" else a[1]

    def std_Option_or_else(self, a, n, d):
        k, p = self._known(a[0], True)
        return some(p) if k == "Some" else self._call_fn(a[1], [], n, d)

    def std_Option_filter(self, a, n, d):
        k, p = self._known(a[0], True)
        if k == "None":
            return NONE
        return some(p) if self.truth(self._call_fn(a[1], [p], n, d)) else NONE

    def std_Option_unwrap(self, a, n, d):
        k, p = self._known(a[0], True)
        if k == "None":
            raise _Abort("unwrap on None")
        return p

    std_Option_expect = std_Option_unwrap

    def std_Option_transpose(self, a, n, d):
        k, p = self._known(a[0], True)
        if k == "None":
            return ok(NONE)
        k2, p2 = self._known(p, False)
        return ok(some(p2)) if k2 == "Ok" else err(p2)

    def std_Option_zip(self, a, n, d):
        k, p = self._known(a[0], True)
        k2, p2 = self._known(a[1], True)
        return some(("tuple", (p, p2))) if k == "Some" and k2 == "Some" else NONE

    def std_Option_unzip(self, a, n, d):
        k, p = self._known(a[0], True)
        if k == "None":
            return ("tuple", (NONE, NONE))
        return ("tuple", (some(self.project(p, "0")), some(self.project(p, "1"))))

    def std_Option_take(self, a, n, d):
        return a[0]

    def std_Result_map(self, a, n, d):
        k, p = self._known(a[0], False)
        return ok(self._call_fn(a[1], [p], n, d)) if k == "Ok" else err(p)

    def std_Result_map_err(self, a, n, d):
        k, p = self._known(a[0], False)
        return ok(p) if k == "Ok" else err(self._call_fn(a[1], [p], n, d))

    def std_Result_and_then(self, a, n, d):
        k, p = self._known(a[0], False)
        return self._call_fn(a[1], [p], n, d) if k == "Ok" else err(p)

    def std_Result_or_else(self, a, n, d):
        k, p = self._known(a[0], False)
        return ok(p) if k == "Ok" else self._call_fn(a[1], [p], n, d)

    def std_Result_ok(self, a, n, d):
        k, p = self._known(a[0], False)
        return some(p) if k == "Ok" else NONE

    def std_Result_err(self, a, n, d):
        k, p = self._known(a[0], False)
        return some(p) if k == "Err" else NONE

    def std_Result_is_ok(self, a, n, d):
        return ("lit", self._known(a[0], False)[0] == "Ok")

    def std_Result_is_err(self, a, n, d):
        return ("lit", self._known(a[0], False)[0] == "Err")

    def std_Result_unwrap_or(self, a, n, d):
        k, p = self._known(a[0], False)
        return p if k == "Ok" else a[1]

    def std_Result_unwrap_or_else(self, a, n, d):
        k, p = self._known(a[0], False)
        return p if k == "Ok" else self._call_fn(a[1], [p], n, d)

    def std_Result_unwrap_or_default(self, a, n, d):
        k, p = self._known(a[0], False)
        return p if k == "Ok" else ("term", "Default::default", ())

    def std_Result_map_or(self, a, n, d):
        k, p = self._known(a[0], False)
        return self._call_fn(a[2], [p], n, d) if k == "Ok" else a[1]

    def std_Result_map_or_else(self, a, n, d):
        k, p = self._known(a[0], False)
        return self._call_fn(a[2], [p], n, d) if k == "Ok" else self._call_fn(a[1], [p], n, d)

    def std_Result_unwrap(self, a, n, d):
        k, p = self._known(a[0], False)
        if k == "Err":
            raise _Abort("unwrap on Err")
        return p

    std_Result_expect = std_Result_unwrap

    def std_Result_transpose(self, a, n, d):
        k, p = self._known(a[0], False)
        if k == "Err":
            return some(err(p))
        k2, p2 = self._known(p, True)
        return some(ok(p2)) if k2 == "Some" else NONE

    # -- iterator models: a closure given to find/any/all/filter/... is evaluated on a symbolic element ---------------
    def elem_of(self, it, n, d):
        if it[0] == "term":
            f = T.short(it[1], 2)
            a = it[2]
            if f in ("Iterator::map",) and len(a) == 2:
                return self._call_fn(a[1], [self.elem_of(a[0], n, d)], n, d)
            if f in ("Iterator::filter_map",) and len(a) == 2:
                v = self._call_fn(a[1], [self.elem_of(a[0], n, d)], n, d)
                k, p = self._known(v, True)
                if k != "Some":
                    raise _Infeasible()
                return p
            if f in ("Iterator::filter",) and len(a) == 2:
                e = self.elem_of(a[0], n, d)
                if not self.truth(self._call_fn(a[1], [e], n, d)):
                    raise _Infeasible()
                return e
            if f in ("Iterator::flatten",) and len(a) == 1:
                return self.elem_of(self.elem_of(a[0], n, d), n, d)
            if f in ("Iterator::flat_map",) and len(a) == 2:
                return self.elem_of(self._call_fn(a[1], [self.elem_of(a[0], n, d)], n, d), n, d)
            if f in ITER_IDENTITY and a:
                return self.elem_of(a[0], n, d)
        return ("term", "elem", (it,))

    def iter_find(self, a, n, d):
        if self.choose(2, "find") == 0:
            e = self.elem_of(a[0], n, d)
            if not self.truth(self._call_fn(a[1], [e], n, d)):
                raise _Infeasible()
            return some(e)
        return NONE

    def iter_find_map(self, a, n, d):
        if self.choose(2, "find_map") == 0:
            v = self._call_fn(a[1], [self.elem_of(a[0], n, d)], n, d)
            k, p = self._known(v, True)
            if k != "Some":
                raise _Infeasible()
            return some(p)
        return NONE

    def iter_any(self, a, n, d):
        if self.choose(2, "any") == 0:
            if not self.truth(self._call_fn(a[1], [self.elem_of(a[0], n, d)], n, d)):
                raise _Infeasible()
            return ("lit", True)
        return ("lit", False)

    def iter_all(self, a, n, d):
        if self.choose(2, "all") == 0:
            return ("lit", True)
        if self.truth(self._call_fn(a[1], [self.elem_of(a[0], n, d)], n, d)):
            raise _Infeasible()
        return ("lit", False)

    def iter_next(self, a, n, d):
        if self.choose(2, "next") == 0:
            self.trace.append(("next", a[0], "Some"))
            return some(self.elem_of(a[0], n, d))
        self.trace.append(("next", a[0], "None"))
        return NONE

    def std_bool_then(self, a, n, d):
        return some(self._call_fn(a[1], [], n, d)) if self.truth(a[0]) else NONE

    def std_bool_then_some(self, a, n, d):
        return some(a[1]) if self.truth(a[0]) else NONE


IDENTITY = {"Option::as_ref", "Option::as_mut", "Option::as_deref", "Option::as_deref_mut", "Option::cloned", "Option::copied", "Result::as_ref", "Result::as_mut",
            "Clone::clone", "Into::into", "From::from", "Deref::deref", "DerefMut::deref_mut", "Borrow::borrow", "AsRef::as_ref", "ToOwned::to_owned",
            "Result::copied", "Result::cloned", "IntoFuture::into_future", "convert::identity", "Option::as_slice", "Pin::new", "Pin::new_unchecked",
            "Context::context", "Context::with_context"}
ITER_IDENTITY = {"IntoIterator::into_iter", "slice::iter", "Vec::iter", "HashSet::iter", "Deref::deref", "Iterator::by_ref", "Iterator::copied", "Iterator::cloned",
                 "Iterator::rev", "Iterator::peekable", "Iterator::fuse", "DerefMut::deref_mut", "Option::iter", "Iterator::into_iter", "slice::iter_mut"}
PANICS = {"panicking::panic", "panicking::panic_fmt", "panicking::unreachable_display", "panicking::panic_explicit", "rt::begin_panic", "panicking::panic_display"}
PANIC_FNS = ("core::panicking::panic", "core::panicking::panic_fmt", "std::rt::begin_panic", "core::panicking::unreachable_display", "core::panicking::panic_explicit")


COLLECTION_MUTATORS = {"Vec::push", "Vec::extend", "Extend::extend", "Vec::append", "Vec::insert", "Vec::extend_from_slice", "HashMap::insert", "HashSet::insert",
                       "HashSet::extend", "HashMap::extend", "BTreeMap::insert", "BTreeSet::insert", "BTreeSet::extend", "VecDeque::push_back", "VecDeque::extend"}


def mutated_collections(node):
    """Variables that a loop body grows through a std collection method (`acc.extend(..)`, `out.push(..)`): loop-carried state just
    like assigned variables."""
    out = []
    for n in T.walk(node):
        if n.get("k") == "Call" and n.get("fn") and T.short(n["fn"], 2) in COLLECTION_MUTATORS and n.get("args"):
            r = T.peel(n["args"][0])
            if r.get("k") == "Var" and r["name"] not in out:
                out.append(r["name"])
    return out


def assigned_vars(node):
    out = []
    for n in T.walk(node):
        if n.get("k") in ("Assign", "AssignOp"):
            lhs = T.peel(n["lhs"])
            if lhs.get("k") == "Var" and lhs["name"] not in out:
                out.append(lhs["name"])
    return out
