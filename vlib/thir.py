"""THIR tree helpers: walking, canonical rendering of patterns / expressions."""

EXPR_CHILD_KEYS_UNUSED = ("cond", "then", "else", "fun", "arg", "lhs", "rhs", "body", "expr", "scrut",
                   "index", "value", "init", "base")
EXPR_LIST_KEYS = ("args", "stmts", "fields", "upvars")


def short(path, n=2):
    """Last n segments of a path, generics stripped."""
    if path is None:
        return "?"
    p = strip_generics(path)
    segs = [s for s in p.split("::") if s]
    return "::".join(segs[-n:])


def strip_generics(s):
    if s.startswith("<"):
        # <Type as Trait>::item — keep the qualified-self form, strip generics inside
        depth = 0
        for i, ch in enumerate(s):
            if ch == "<":
                depth += 1
            elif ch == ">":
                depth -= 1
                if depth == 0:
                    inner = s[1:i]
                    # split at the top-level " as " only
                    d2, cut = 0, None
                    for j2 in range(len(inner)):
                        ch2 = inner[j2]
                        if ch2 == "<":
                            d2 += 1
                        elif ch2 == ">":
                            d2 -= 1
                        elif d2 == 0 and inner.startswith(" as ", j2):
                            cut = j2
                            break
                    parts = [inner] if cut is None else [inner[:cut], inner[cut + 4:]]
                    return "<" + " as ".join(_strip(p) for p in parts) + ">" + _strip(s[i + 1:])
        return s
    return _strip(s)


def _strip(s):
    out, depth = [], 0
    for ch in s:
        if ch == "<":
            depth += 1
        elif ch == ">":
            depth -= 1
        elif depth == 0:
            out.append(ch)
    return "".join(out).replace("::::", "::")


def children(node):
    """Immediate child nodes (dicts with 'k') of an expression / statement / block / pattern."""
    if not isinstance(node, dict):
        return
    for key, v in node.items():
        if key in ("sp", "ty"):
            continue
        if isinstance(v, dict):
            if "k" in v:
                yield v
            elif key == "pat":
                yield v
        elif isinstance(v, list):
            for x in v:
                if isinstance(x, dict):
                    if "k" in x:
                        yield x
                    else:
                        # arms {pat,guard,body}, adt fields {name,expr}, subpatterns {field,pat}
                        for kk in ("pat", "guard", "body", "expr"):
                            if isinstance(x.get(kk), dict):
                                yield x[kk]


def walk(node):
    """Pre-order walk over every node (expressions and patterns)."""
    stack = [node]
    while stack:
        n = stack.pop()
        if not isinstance(n, dict):
            continue
        yield n
        ch = list(children(n))
        stack.extend(reversed(ch))


def walk_exprs(node, into_patterns=False):
    for n in walk(node):
        if n.get("k") in PAT_KINDS and not into_patterns:
            continue
        yield n


PAT_KINDS = {"Bind", "Variant", "Leaf", "Wild", "Const", "Range", "Slice", "Or", "Guard", "Never", "Missing", "Error"}


def find(node, kind, pred=None):
    return [n for n in walk(node) if n.get("k") == kind and (pred is None or pred(n))]


def calls(node, *suffixes):
    out = []
    for n in walk(node):
        if n.get("k") == "Call" and n.get("fn"):
            if not suffixes or any(n["fn"].endswith(s) for s in suffixes):
                out.append(n)
    return out


def peel(node):
    """Strip blocks with a single tail expression, borrows, derefs, coercions."""
    while isinstance(node, dict):
        k = node.get("k")
        if k == "Block" and not node.get("stmts") and node.get("expr") is not None:
            node = node["expr"]
        elif k in ("Borrow", "Deref", "Coerce", "Cast", "RawBorrow"):
            node = node["arg"]
        else:
            break
    return node


def pat_str(p):
    if p is None:
        return "_"
    k = p.get("k")
    if p.get("cdef") and k != "Bind":
        return short(p["cdef"], 2)
    if k == "Wild":
        return "_"
    if k == "Bind":
        if p.get("sub"):
            return "%s @ %s" % (p["name"], pat_str(p["sub"]))
        return p["name"]
    if k == "Variant":
        name = "%s::%s" % (short(p["adt"], 1), p["variant"])
        subs = p.get("sub") or []
        if not subs:
            return name
        return "%s(%s)" % (name, ", ".join(_sub_str(s) for s in subs))
    if k == "Leaf":
        subs = p.get("sub") or []
        inner = ", ".join(_sub_str(s) for s in subs)
        if p.get("adt"):
            return "%s{%s}" % (short(p["adt"], 1), inner)
        return "(%s)" % inner
    if k == "Deref":
        return pat_str(p["sub"])
    if k == "Const":
        if p.get("cdef"):
            return short(p["cdef"], 2)
        if "bytes" in p:
            return 'b"%s"' % p["bytes"]
        return _decode_valtree(p.get("v", "?"))
    if k == "Or":
        return " | ".join(pat_str(x) for x in p["pats"])
    if k == "Slice":
        pre = p.get("prefix", [])
        if pre and p.get("slice") is None and not p.get("suffix") and all(x.get("k") == "Const" and str(x.get("v", "")).endswith("_u8") for x in pre):
            try:
                return 'b"%s"' % bytes(int(str(x["v"]).split("_")[0]) for x in pre).decode("utf-8", "replace")
            except ValueError:
                pass
        parts = [pat_str(x) for x in pre]
        if p.get("slice") is not None:
            parts.append("..")
        parts += [pat_str(x) for x in p.get("suffix", [])]
        return "[%s]" % ", ".join(parts)
    if k == "Range":
        return "range"
    return k or "?"


def _decode_valtree(v):
    """`Branch([117_u8, 114_u8]): str` -> "ur" (string constants in patterns are printed as valtrees)."""
    import re
    m = re.match(r"^Branch\(\[([0-9_u, ]*)\]\): (str|\[u8\])$", v)
    if not m:
        m2 = re.match(r"^Leaf\((0x[0-9a-f]+)\): (\w+)$", v)
        if m2:
            return str(int(m2.group(1), 16))
        return v
    bs = bytes(int(x.strip().split("_")[0]) for x in m.group(1).split(",") if x.strip())
    return '"%s"' % bs.decode("utf-8", "replace")


def const_pat_value(p):
    """String value of a constant pattern (None if not a string/bytes constant)."""
    if p.get("k") == "Deref":
        p = p["sub"]
    if p.get("k") != "Const":
        return None
    if "bytes" in p:
        return p["bytes"]
    s = _decode_valtree(p.get("v", ""))
    if s.startswith('"') and s.endswith('"'):
        return s[1:-1]
    return None


def _sub_str(s):
    f = s.get("field", "")
    ps = pat_str(s["pat"])
    if f.isdigit():
        return ps
    return "%s: %s" % (f, ps)


def expr_str(e, depth=0):
    """Compact canonical rendering of an expression (resolved names, no spans/types)."""
    if e is None:
        return ""
    if depth > 24:
        return "…"
    k = e.get("k")
    d = depth + 1
    if k == "Block":
        parts = [expr_str(s, d) for s in e.get("stmts", [])]
        if e.get("expr") is not None:
            parts.append(expr_str(e["expr"], d))
        if len(parts) == 1:
            return parts[0]
        return "{ " + "; ".join(parts) + " }"
    if k == "Call":
        if e.get("fn"):
            return "%s(%s)" % (short(e["fn"], 2), ", ".join(expr_str(a, d) for a in e["args"]))
        return "(%s)(%s)" % (expr_str(e.get("fun"), d), ", ".join(expr_str(a, d) for a in e["args"]))
    if k == "Adt":
        name = "%s::%s" % (short(e["adt"], 1), e["variant"]) if short(e["adt"], 1) != e["variant"] else e["variant"]
        fs = e.get("fields", [])
        if not fs:
            return name
        if all(f["name"].isdigit() for f in fs):
            return "%s(%s)" % (name, ", ".join(expr_str(f["expr"], d) for f in fs))
        return "%s{%s}" % (name, ", ".join("%s: %s" % (f["name"], expr_str(f["expr"], d)) for f in fs))
    if k == "Var":
        return e["name"]
    if k == "Lit":
        v = e.get("v")
        if e.get("lk") == "str":
            return '"%s"' % v
        if e.get("lk") == "bytes":
            return 'b"%s"' % v
        return str(v).lower() if isinstance(v, bool) else str(v)
    if k == "Const":
        return short(e["def"], 2)
    if k == "Zst":
        return short(e.get("fn"), 2) if e.get("fn") else "zst"
    if k == "Field":
        return "%s.%s" % (expr_str(e["lhs"], d), e["name"])
    if k in ("Borrow",):
        return "&" + ("mut " if e.get("mut") else "") + expr_str(e["arg"], d)
    if k == "Deref":
        return "*" + expr_str(e["arg"], d)
    if k in ("Coerce", "Cast"):
        return expr_str(e["arg"], d)
    if k == "If":
        s = "if %s { %s }" % (expr_str(e["cond"], d), expr_str(e["then"], d))
        if e.get("else") is not None:
            s += " else { %s }" % expr_str(e["else"], d)
        return s
    if k == "Match":
        return "match %s { %s }" % (expr_str(e["scrut"], d), ", ".join(
            "%s%s => %s" % (pat_str(a["pat"]), (" if " + expr_str(a["guard"], d)) if a.get("guard") else "", expr_str(a["body"], d))
            for a in e["arms"]))
    if k == "Let":
        return "let %s = %s" % (pat_str(e["pat"]), expr_str(e["expr"], d))
    if k == "LetStmt":
        s = "let %s" % pat_str(e["pat"])
        if e.get("init") is not None:
            s += " = %s" % expr_str(e["init"], d)
        if e.get("else") is not None:
            s += " else { %s }" % expr_str(e["else"], d)
        return s
    if k == "Binary":
        return "(%s %s %s)" % (expr_str(e["lhs"], d), e["op"], expr_str(e["rhs"], d))
    if k == "Logical":
        return "(%s %s %s)" % (expr_str(e["lhs"], d), e["op"], expr_str(e["rhs"], d))
    if k == "Unary":
        return "%s(%s)" % (e["op"], expr_str(e["arg"], d))
    if k == "Assign":
        return "%s = %s" % (expr_str(e["lhs"], d), expr_str(e["rhs"], d))
    if k == "AssignOp":
        return "%s %s= %s" % (expr_str(e["lhs"], d), e["op"], expr_str(e["rhs"], d))
    if k == "Return":
        return "return %s" % expr_str(e.get("value"), d)
    if k == "Break":
        return "break %s" % expr_str(e.get("value"), d)
    if k == "Continue":
        return "continue"
    if k == "Loop":
        return "loop { %s }" % expr_str(e["body"], d)
    if k == "Tuple":
        return "(%s)" % ", ".join(expr_str(f, d) for f in e["fields"])
    if k == "Array":
        return "[%s]" % ", ".join(expr_str(f, d) for f in e["fields"])
    if k == "Closure":
        return "closure<%s>" % short(e["def"], 3)
    if k == "Macro":
        return "%s!(%s)" % (e["m"], ", ".join(expr_str(a, d) for a in e.get("args", [])))
    if k == "Index":
        return "%s[%s]" % (expr_str(e["lhs"], d), expr_str(e["index"], d))
    if k == "Yield":
        return "yield(%s)" % expr_str(e["value"], d)
    if k == "Static":
        return short(e["def"], 2)
    if k == "Await":
        return "%s.await" % expr_str(e["arg"], d)
    if k == "Try":
        return "%s?" % expr_str(e["arg"], d)
    return k or "?"


def norm(node):
    """Rewrite desugarings: `.await` -> {"k":"Await","arg":X}; `?` -> {"k":"Try","arg":X};
    single-expression blocks are kept (peel() removes them on demand)."""
    if isinstance(node, list):
        return [norm(x) for x in node]
    if not isinstance(node, dict):
        return node
    if node.get("k") == "Match":
        src = node.get("src", "")
        if src.startswith("AwaitDesugar"):
            scrut = node["scrut"]
            arg = scrut["args"][0] if scrut.get("k") == "Call" and scrut.get("args") else scrut
            return {"k": "Await", "arg": norm(arg), "ty": node.get("ty"), "sp": node.get("sp")}
        if src.startswith("TryDesugar"):
            scrut = node["scrut"]
            arg = scrut["args"][0] if scrut.get("k") == "Call" and scrut.get("args") else scrut
            return {"k": "Try", "arg": norm(arg), "ty": node.get("ty"), "sp": node.get("sp")}
    return {k: (norm(v) if k not in ("sp", "ty") else v) for k, v in node.items()}


def user_body(thir_body):
    """Normalised body with the `#[tracing::instrument]` prologue removed."""
    b = norm(thir_body["body"])
    # instrument wrapper: { if false { fake_return }; { user } }  or  { let span..; let guard..; if ..{}; user }
    cur = b
    for _ in range(6):
        if cur.get("k") != "Block":
            break
        stmts = cur.get("stmts", [])
        if stmts and all(_is_instrument_noise(s) for s in stmts) and cur.get("expr") is not None:
            cur = cur["expr"]
            continue
        if stmts and any(_is_instrument_noise(s) for s in stmts) and (cur.get("sp") or {}).get("m") in ("tracing::instrument", "instrument"):
            # mixed block generated by `#[instrument(ret)]`: keep the statement that runs the user's closure, drop the event plumbing
            cur = dict(cur, stmts=[s for s in stmts if not _is_instrument_noise(s)])
        break
    return cur


def _is_instrument_noise(s):
    sp = s.get("sp") or {}
    if sp.get("m") in ("tracing::instrument", "instrument"):
        # `#[instrument(ret)]` on a sync fn: `let x = (move || body)(); event!(x); x` — the let that runs the user's closure is not noise
        if s.get("k") == "LetStmt" and not pat_str(s.get("pat")).startswith("__tracing") and any(n.get("k") == "Closure" for n in walk(s.get("init") or {})):
            return False
        return True
    if s.get("k") == "Block" and not s.get("stmts") and s.get("expr") is None:
        return True
    if s.get("k") == "If" and expr_str(s.get("cond")) == "false":
        return True
    return False
