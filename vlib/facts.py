"""Fact loading and MIR-level analyses (CFG, dominators, value flow, liveness)."""
import glob
import json
import os
import pickle
from collections import defaultdict


class AnchorLost(Exception):
    """The construct a rule is anchored on cannot be found (fail closed: exit 2)."""


# --------------------------------------------------------------------------------------
# loading
# --------------------------------------------------------------------------------------
class Facts:
    def __init__(self, fact_dir):
        self.dir = fact_dir
        self.mir = {}          # "crate::def" -> Body
        self.thir = {}         # "crate::def" -> dict
        self.items = {}        # "crate::def" -> [item dicts] (impls share no name; keyed by def)
        self.item_list = []
        self.crates = {}
        cache = os.path.join(fact_dir, "facts.pickle")
        if os.path.exists(cache):
            with open(cache, "rb") as f:
                raw = pickle.load(f)
        else:
            raw = []
            for fn in sorted(glob.glob(os.path.join(fact_dir, "*.json"))):
                with open(fn) as f:
                    raw.append(json.load(f))
            try:
                tmp = cache + ".%d" % os.getpid()
                with open(tmp, "wb") as f:
                    pickle.dump(raw, f, protocol=pickle.HIGHEST_PROTOCOL)
                os.replace(tmp, cache)
            except OSError:
                pass
        self.extern_panics = {}
        self.extern_debug = {}
        for d in raw:
            crate = d["crate"]
            for e in d.get("extern_debug", []) or []:
                self.extern_debug[e["adt"]] = e
            if d.get("extern_panics"):
                self.extern_panics[crate if d["kind"] == "Rlib" else crate + "[bin]"] = d["extern_panics"]
            tag = crate if d["kind"] == "Rlib" else crate + "[bin]"
            self.crates[tag] = {"features": d.get("features", []), "bodies": len(d["mir"])}
            for b in d["mir"]:
                name = qual(tag, b["def"])
                self.mir[name] = Body(name, tag, b)
            for t in d["thir"]:
                t["crate"] = tag
                self.thir[qual(tag, t["def"])] = t
            for it in d["items"]:
                it["crate"] = tag
                it["qdef"] = qual(tag, it["def"])
                self.item_list.append(it)
                self.items.setdefault(it["qdef"], []).append(it)

    # -- lookup helpers -----------------------------------------------------------------
    def body(self, name):
        b = self.mir.get(name)
        if b is None:
            raise AnchorLost("MIR body not found: %s" % name)
        return b

    def bodies_matching(self, pred):
        return [b for n, b in sorted(self.mir.items()) if pred(n)]

    def thir_body(self, name):
        t = self.thir.get(name)
        if t is None:
            raise AnchorLost("THIR body not found: %s" % name)
        return t

    def user_coroutine(self, fn_name):
        """Innermost coroutine body of an (instrumented) async fn: the user's code.

        `#[tracing::instrument] async fn f` = f -> f::{closure#0} (wrapper coroutine) ->
        f::{closure#0}::{closure#0} (user body).  Without instrument: f::{closure#0}."""
        cands = [n for n in self.mir if n.startswith(fn_name + "::{closure#")]
        cor = [n for n in cands if self.mir[n].coroutine]
        if not cor:
            raise AnchorLost("no coroutine body under %s" % fn_name)
        # the user body is the coroutine with the most user-visible (non-macro) calls
        best = max(cor, key=lambda n: (len([c for c in self.mir[n].calls() if not c.macro]), -len(n)))
        return self.mir[best]

    def impls_of(self, trait_suffix):
        return [it for it in self.item_list if it["kind"] == "Impl" and it.get("trait", "").endswith(trait_suffix)]

    def fn_item(self, qdef):
        for it in self.items.get(qdef, []):
            if it["kind"] in ("Fn", "AssocFn"):
                return it
        raise AnchorLost("fn item not found: %s" % qdef)


def qual(crate, d):
    """Def paths are crate-qualified by the driver; binaries get a tag to avoid clashing with the lib."""
    if crate.endswith("[bin]"):
        return "[bin]" + d
    return d


# --------------------------------------------------------------------------------------
# MIR body
# --------------------------------------------------------------------------------------
class Call:
    __slots__ = ("bb", "term", "defn", "rdef", "rself", "args", "dest", "target", "sp", "macro", "desugar", "gargs", "rgargs", "trait")

    def __init__(self, bb, term):
        self.bb = bb
        self.term = term
        f = term["func"]
        self.defn = f.get("def")
        self.rdef = f.get("rdef")
        self.rself = f.get("rself")
        self.gargs = f.get("gargs", [])
        self.rgargs = f.get("rgargs", [])
        self.trait = f.get("trait")
        self.args = term["args"]
        self.dest = term["dest"]
        self.target = term.get("t")
        self.sp = term.get("sp") or {}
        self.macro = self.sp.get("m")
        self.desugar = self.sp.get("d")

    @property
    def line(self):
        return self.sp.get("l")

    def loc(self):
        return "%s:%s" % (self.sp.get("f"), self.sp.get("l"))

    def name(self):
        return self.rdef or self.defn or "<indirect>"

    def is_fn(self, *suffixes):
        for n in (self.defn, self.rdef):
            if n:
                for s in suffixes:
                    if n == s or n.endswith("::" + s) or n.endswith(s):
                        return True
        return False

    def __repr__(self):
        return "Call(bb%d %s @%s)" % (self.bb, self.name(), self.line)


def op_local(op):
    """Local index if the operand is a plain local (no projection) copy/move."""
    if op and op.get("c") in ("copy", "move"):
        pl = op["pl"]
        if not pl.get("p"):
            return pl["l"]
    return None


def op_base(op):
    if op and op.get("c") in ("copy", "move"):
        return op["pl"]["l"]
    return None


def place_str(pl):
    return "_%d%s" % (pl["l"], "".join(pl.get("p") or []))


class Body:
    def __init__(self, name, crate, raw):
        self.name = name
        self.crate = crate
        self.raw = raw
        self.blocks = raw["blocks"]
        self.locals = raw["locals"]
        self.coroutine = raw.get("coroutine", False)
        self.n = len(self.blocks)
        self._succ = None
        self._pred = None
        self._dom = None
        self._calls = None
        self._defs = None

    # -- CFG ---------------------------------------------------------------------------
    def term(self, bb):
        return self.blocks[bb]["term"]

    def succs_of(self, bb, unwind=False):
        t = self.blocks[bb]["term"]
        k = t["k"]
        out = []
        if k == "goto":
            out = [t["t"]]
        elif k == "switch":
            out = [x[1] for x in t["targets"]] + [t["otherwise"]]
        elif k in ("drop", "assert", "falseunwind"):
            out = [t["t"]]
        elif k == "call":
            if t.get("t") is not None:
                out = [t["t"]]
        elif k == "yield":
            out = [t["t"]]
        elif k == "falseedge":
            out = [t["t"]]
        elif k == "other":
            out = []
        if unwind and t.get("unwind") is not None:
            out = out + [t["unwind"]]
        if unwind and k == "yield" and t.get("drop") is not None:
            out = out + [t["drop"]]
        return out

    @property
    def succ(self):
        if self._succ is None:
            self._succ = [self.succs_of(i) for i in range(self.n)]
        return self._succ

    @property
    def pred(self):
        if self._pred is None:
            p = [[] for _ in range(self.n)]
            for i, ss in enumerate(self.succ):
                for s in ss:
                    p[s].append(i)
            self._pred = p
        return self._pred

    def reachable(self, start=0, avoid=(), avoid_edges=()):
        """Blocks reachable from `start` along normal edges without entering `avoid`."""
        avoid = set(avoid)
        avoid_edges = set(avoid_edges)
        seen = set()
        if start in avoid:
            return seen
        stack = [start]
        seen.add(start)
        while stack:
            b = stack.pop()
            for s in self.succ[b]:
                if s in avoid or (b, s) in avoid_edges or s in seen:
                    continue
                seen.add(s)
                stack.append(s)
        return seen

    def reachable_from_succs(self, bb, avoid=(), avoid_edges=()):
        out = set()
        for s in self.succ[bb]:
            if s in avoid or (bb, s) in set(avoid_edges):
                continue
            out |= self.reachable(s, avoid, avoid_edges)
        return out

    @property
    def dom(self):
        """Immediate dominators over normal edges (Cooper-Harvey-Kennedy)."""
        if self._dom is None:
            order = []
            seen = set()
            stack = [(0, iter(self.succ[0]))]
            seen.add(0)
            while stack:
                b, it = stack[-1]
                adv = False
                for s in it:
                    if s not in seen:
                        seen.add(s)
                        stack.append((s, iter(self.succ[s])))
                        adv = True
                        break
                if not adv:
                    order.append(b)
                    stack.pop()
            rpo = list(reversed(order))
            idx = {b: i for i, b in enumerate(rpo)}
            idom = {0: 0}
            changed = True
            while changed:
                changed = False
                for b in rpo[1:]:
                    new = None
                    for p in self.pred[b]:
                        if p in idom:
                            if new is None:
                                new = p
                            else:
                                a, c = p, new
                                while a != c:
                                    while idx[a] > idx[c]:
                                        a = idom[a]
                                    while idx[c] > idx[a]:
                                        c = idom[c]
                                new = a
                    if new is not None and idom.get(b) != new:
                        idom[b] = new
                        changed = True
            self._dom = idom
        return self._dom

    def dominates(self, a, b):
        """True if block a dominates block b (b unreachable => vacuously True)."""
        idom = self.dom
        if b not in idom:
            return True
        while True:
            if a == b:
                return True
            if b == 0:
                return False
            b = idom[b]

    def edge_dominates(self, src, dst, b):
        """Every path from entry to b passes through the CFG edge src->dst."""
        if b not in self.dom:
            return True
        r = self.reachable(0, avoid_edges=[(src, dst)])
        return b not in r

    # -- calls -------------------------------------------------------------------------
    def calls(self):
        if self._calls is None:
            self._calls = [Call(i, bl["term"]) for i, bl in enumerate(self.blocks)
                           if bl["term"]["k"] == "call" and not bl.get("cleanup")]
        return self._calls

    def calls_to(self, *suffixes, user_only=False):
        return [c for c in self.calls() if c.is_fn(*suffixes) and not (user_only and c.macro)]

    def yields(self):
        return [(i, bl["term"]) for i, bl in enumerate(self.blocks) if bl["term"]["k"] == "yield"]

    def returns(self):
        return [i for i, bl in enumerate(self.blocks) if bl["term"]["k"] == "return" and not bl.get("cleanup")]

    def local_named(self, name, all=False):
        ls = [i for i, l in enumerate(self.locals) if l.get("name") == name]
        if all:
            return ls
        if not ls:
            raise AnchorLost("no local named %r in %s" % (name, self.name))
        return ls[0]

    def upvar_place(self, name):
        for u in self.raw.get("upvars", []):
            if u["name"] == name:
                return u["place"]
        return None

    def derives_from_var(self, local, name, through_call=None):
        """`local`'s backward slice reaches the user variable `name` (a plain local or a captured upvar)."""
        org, vis = self.backward_slice(local, through_call=through_call or (lambda c: False))
        if any(self.locals[v].get("name") == name for v in vis):
            return True
        up = self.upvar_place(name)
        if up is not None:
            for o in org:
                if o["k"] == "place" and o["pl"]["l"] == up["l"] and (o["pl"].get("p") or [])[:len(up.get("p") or [])] == (up.get("p") or []):
                    return True
        return False

    def local_ty(self, l):
        return self.locals[l]["ty"]

    # -- def / use ---------------------------------------------------------------------
    def defs(self):
        """local -> list of (bb, stmt_index | 'term', kind, payload) where it is (fully) assigned."""
        if self._defs is None:
            d = defaultdict(list)
            for bi, bl in enumerate(self.blocks):
                for si, s in enumerate(bl["stmts"]):
                    if s["k"] == "assign":
                        d[s["pl"]["l"]].append((bi, si, "assign", s))
                t = bl["term"]
                if t["k"] == "call":
                    d[t["dest"]["l"]].append((bi, "term", "call", t))
                elif t["k"] == "yield":
                    d[t["resume_arg"]["l"]].append((bi, "term", "yield", t))
            self._defs = d
        return self._defs

    @staticmethod
    def rv_operands(rv):
        """(operands, places) mentioned by an rvalue."""
        k = rv["k"]
        ops, places = [], []
        if k in ("use", "cast", "unop", "repeat"):
            ops.append(rv["op"])
        elif k == "binop":
            ops += [rv["l"], rv["r"]]
        elif k in ("ref", "rawptr", "discr"):
            places.append(rv["pl"])
        elif k == "agg":
            ops += rv["fields"]
        return ops, places

    def rv_locals(self, rv):
        ops, places = self.rv_operands(rv)
        out = set()
        for o in ops:
            b = op_base(o)
            if b is not None:
                out.add(b)
        for p in places:
            out.add(p["l"])
        return out

    def forward_taint(self, seeds, through_call=None, stop_locals=()):
        """Flow-insensitive forward value flow.

        A local becomes tainted when assigned from an rvalue mentioning a tainted local, or as the
        destination of a call with a tainted argument for which `through_call(call)` is true
        (default: every call).  Returns the set of tainted locals."""
        tainted = set(seeds)
        stop = set(stop_locals)
        changed = True
        calls = {c.bb: c for c in self.calls()}
        while changed:
            changed = False
            for bi, bl in enumerate(self.blocks):
                if bl.get("cleanup"):
                    continue
                for s in bl["stmts"]:
                    if s["k"] == "assign":
                        tgt = s["pl"]["l"]
                        if tgt in tainted or tgt in stop:
                            continue
                        if self.rv_locals(s["rv"]) & tainted:
                            tainted.add(tgt)
                            changed = True
                t = bl["term"]
                if t["k"] == "call":
                    tgt = t["dest"]["l"]
                    if tgt in tainted or tgt in stop:
                        continue
                    c = calls.get(bi)
                    if c is None:
                        continue
                    arg_locals = {op_base(a) for a in t["args"]} - {None}
                    if arg_locals & tainted and (through_call is None or through_call(c)):
                        tainted.add(tgt)
                        changed = True
                elif t["k"] == "yield":
                    # `resume_arg` receives the context; value flow continues through the awaitee
                    pass
        return tainted

    def backward_origins(self, local, max_depth=40, through_call=None, all_args=False):
        """Backward slice: the set of 'origin' descriptors a local's value derives from.

        Returns list of dicts: {"k":"call","call":Call} | {"k":"const","op":..} | {"k":"arg","l":n}
        | {"k":"place","pl":..} (projection of another local) | {"k":"agg","rv":..} ..."""
        out = []
        seen = set()
        calls = {c.bb: c for c in self.calls()}
        argc = self.raw["arg_count"]

        def visit(l, depth):
            if l in seen or depth > max_depth:
                return
            seen.add(l)
            if 1 <= l <= argc:
                out.append({"k": "arg", "l": l, "name": self.locals[l].get("name")})
            ds = self.defs().get(l, [])
            for (bi, si, kind, payload) in ds:
                if self.blocks[bi].get("cleanup"):
                    continue
                if kind == "call":
                    c = calls.get(bi)
                    if c is not None and through_call is not None and through_call(c):
                        for a in (payload["args"] if all_args else payload["args"][:1]):
                            b = op_base(a)
                            if b is not None:
                                visit(b, depth + 1)
                            elif a.get("c") == "const":
                                out.append({"k": "const", "op": a})
                    else:
                        out.append({"k": "call", "call": c})
                elif kind == "assign":
                    if payload["pl"].get("p"):
                        continue  # partial write
                    rv = payload["rv"]
                    k = rv["k"]
                    if k in ("use", "cast"):
                        op = rv["op"]
                        if op.get("c") == "const":
                            out.append({"k": "const", "op": op})
                        else:
                            pl = op["pl"]
                            if pl.get("p") and any(not p.startswith("as ") and p != "*" for p in pl["p"]):
                                out.append({"k": "place", "pl": pl})
                                visit(pl["l"], depth + 1)
                            else:
                                visit(pl["l"], depth + 1)
                    elif k in ("ref", "rawptr"):
                        pl = rv["pl"]
                        if pl.get("p") and any(p.startswith(".") for p in pl["p"]):
                            out.append({"k": "place", "pl": pl})
                        visit(pl["l"], depth + 1)
                    elif k == "agg":
                        out.append({"k": "agg", "rv": rv})
                        for f in rv["fields"]:
                            b = op_base(f)
                            if b is not None:
                                visit(b, depth + 1)
                            elif f.get("c") == "const":
                                out.append({"k": "const", "op": f})
                    elif k == "binop":
                        out.append({"k": "binop", "rv": rv})
                        for o in (rv["l"], rv["r"]):
                            b = op_base(o)
                            if b is not None:
                                visit(b, depth + 1)
                            elif o.get("c") == "const":
                                out.append({"k": "const", "op": o})
                    elif k == "discr":
                        visit(rv["pl"]["l"], depth + 1)
                    else:
                        out.append({"k": "other", "rv": rv})
                elif kind == "yield":
                    out.append({"k": "resume"})
        visit(local, 0)
        self._last_visited = seen
        return out

    def backward_slice(self, local, through_call=None, max_depth=40):
        """(origins, visited locals) of the backward slice from `local`."""
        o = self.backward_origins(local, max_depth=max_depth, through_call=through_call)
        return o, set(self._last_visited)

    # -- `?` handling ------------------------------------------------------------------
    def try_branches(self):
        """All `Try::branch` calls with their (continue_bb, break_bb)."""
        out = []
        for c in self.calls():
            if c.defn == "std::ops::Try::branch" and c.target is not None:
                cont, brk = self.switch_on(c.dest["l"], c.target)
                if cont is not None:
                    out.append((c, cont, brk))
        return out

    def switch_on(self, local, start_bb):
        """From start_bb, find `d = discriminant(local); switchInt(d)`: (target for 0, target for 1)."""
        bb = start_bb
        for _ in range(4):
            bl = self.blocks[bb]
            dl = None
            for s in bl["stmts"]:
                if s["k"] == "assign" and s["rv"]["k"] == "discr" and s["rv"]["pl"]["l"] == local:
                    dl = s["pl"]["l"]
            t = bl["term"]
            if t["k"] == "switch" and dl is not None and op_base(t["discr"]) == dl:
                m = {v: b for v, b in t["targets"]}
                return m.get(0, t["otherwise"]), m.get(1, t["otherwise"])
            if t["k"] == "goto":
                bb = t["t"]
                continue
            break
        return None, None

    def ok_edge_of(self, call, pass_through=None):
        """The (block, continue_bb) of the `?` applied to the value produced by `call`.

        The value may flow through moves, `.await` machinery and the listed pass-through
        combinators before reaching `Try::branch`.  Returns None if no such `?` exists."""
        pt = PASS_THROUGH if pass_through is None else pass_through

        def through(c):
            return c.is_fn(*pt)
        tainted = self.forward_taint([call.dest["l"]], through_call=through)
        best = None
        for (c, cont, brk) in self.try_branches():
            a = op_base(c.args[0])
            if a in tainted and self.dominates(call.bb, c.bb):
                if best is None or self.dominates(c.bb, best[0].bb):
                    best = (c, cont, brk)
        return best

    def ok_dominates(self, call, bb, pass_through=None):
        """`bb` is reachable only through the success edge of the `?` applied to call's value."""
        e = self.ok_edge_of(call, pass_through)
        if e is None:
            return False
        c, cont, brk = e
        sw = self._switch_block_of(c)
        return self.edge_dominates(sw, cont, bb) and self.dominates(call.bb, bb)

    def _switch_block_of(self, branch_call):
        bb = branch_call.target
        for _ in range(4):
            t = self.blocks[bb]["term"]
            if t["k"] == "switch":
                return bb
            if t["k"] == "goto":
                bb = t["t"]
            else:
                break
        return bb

    # -- awaits -------------------------------------------------------------------------
    def await_points(self):
        """Suspension points: [{"yield": bb, "poll": Call|None, "src": Call|None, "sp": span}].

        `src` is the call that produced the awaited future (through into_future / Pin::new_unchecked / refs)."""
        out = []
        polls = [c for c in self.calls() if c.is_fn("Future::poll") and c.desugar == "Await"]
        for (bi, t) in self.yields():
            best = None
            for p in polls:
                if self.dominates(p.bb, bi):
                    if best is None or self.dominates(best.bb, p.bb):
                        best = p
            src = None
            if best is not None:
                org = self.backward_origins(op_base(best.args[0]), through_call=lambda c: c.is_fn(
                    "IntoFuture::into_future", "Pin::<Ptr>::new_unchecked", "Pin::<Ptr>::new"))
                srcs = [o["call"] for o in org if o["k"] == "call" and o["call"] is not None]
                if srcs:
                    src = srcs[0]
            out.append({"yield": bi, "poll": best, "src": src, "sp": t.get("sp") or {}})
        return out

    # -- boolean predicates -------------------------------------------------------------
    def bool_edges(self, local):
        """Switches deciding on a bool held in `local` (through copies and `!`):
        list of (switch_bb, true_target, false_target)."""
        pol = {local: True}
        changed = True
        while changed:
            changed = False
            for bl in self.blocks:
                for s in bl["stmts"]:
                    if s["k"] != "assign" or s["pl"].get("p"):
                        continue
                    rv = s["rv"]
                    tgt = s["pl"]["l"]
                    if tgt in pol:
                        continue
                    if rv["k"] == "use" and op_local(rv["op"]) in pol:
                        pol[tgt] = pol[op_local(rv["op"])]
                        changed = True
                    elif rv["k"] == "unop" and rv["uop"] == "Not" and op_local(rv["op"]) in pol:
                        pol[tgt] = not pol[op_local(rv["op"])]
                        changed = True
        out = []
        for bi, bl in enumerate(self.blocks):
            t = bl["term"]
            if t["k"] == "switch" and op_local(t["discr"]) in pol:
                m = {v: b for v, b in t["targets"]}
                f_t = m.get(0)
                t_t = t["otherwise"] if 0 in m else None
                if 1 in m:
                    t_t = m[1]
                    if f_t is None:
                        f_t = t["otherwise"]
                if not pol[op_local(t["discr"])]:
                    t_t, f_t = f_t, t_t
                out.append((bi, t_t, f_t))
        return out

    def guarded_by_call(self, bb, call, want=True, stale_after=()):
        """Block `bb` is reachable only through the `want` edge of a switch on call's bool result — directly, or through a bool
        local that can be true only if the result was `want` (`let ok = a && pred(..);  .. if ok`).  `stale_after`: calls after
        which the stored answer is out of date; none of them may lie between the predicate call and `bb`."""
        r = call.dest["l"]
        for (sw, t_t, f_t) in self.bool_edges(r):
            tgt = t_t if want else f_t
            if tgt is not None and self.edge_dominates(sw, tgt, bb) and self.dominates(call.bb, bb):
                if not any(self._between(call.bb, x.bb, bb, {d[0] for d in self.defs().get(r, [])}) for x in stale_after):
                    return True
        # through a local that implies the result
        for L in range(len(self.locals)):
            if self.local_ty(L) != "bool" or (L == r and not want) or not self._implies(L, r, want, 0, call):
                continue
            for (sw, t_t, f_t) in self.bool_edges(L):
                if t_t is not None and self.edge_dominates(sw, t_t, bb):
                    # the stored answer is refreshed wherever the result local is (re)assigned: a stale_after call is harmful only if
                    # `bb` can be reached from it without passing such a point
                    fresh = {d[0] for d in self.defs().get(r, [])}
                    if not any(self._between(call.bb, x.bb, bb, fresh) for x in stale_after):
                        return True
        return False

    def _implies(self, L, r, want, depth, call=None):
        """Whenever local L holds true, the bool local r (the result of `call`) held `want` when L was assigned.  The result may be
        written into L itself (`let ok = a && pred()` stores pred()'s result or the constant false into the same local)."""
        if depth > 4:
            return False
        defs = self.defs().get(L, [])
        if not defs or (L == r and len(defs) < 2 and call is not None):
            return False
        r_edges = self.bool_edges(r) if L != r else []
        for (bi, si, kind, payload) in defs:
            if kind == "call" and L == r and call is not None and bi == call.bb and want:
                continue
            if kind != "assign":
                return False
            rv = payload["rv"]
            if rv["k"] == "use" and rv["op"].get("c") == "const":
                if str(rv["op"].get("v")).lower() in ("false", "0") or rv["op"].get("i") == 0:
                    continue
                # `true` stored: only fine under the `want` edge of a switch on r
            if rv["k"] == "use" and op_local(rv["op"]) is not None:
                m = op_local(rv["op"])
                if (m == r and want and L != r) or (m != r and self._implies(m, r, want, depth + 1, call)):
                    continue
            if rv["k"] == "unop" and rv.get("uop") == "Not" and op_local(rv["op"]) == r and not want:
                continue
            if any((t_t if want else f_t) is not None and self.edge_dominates(sw, (t_t if want else f_t), bi) for (sw, t_t, f_t) in r_edges):
                continue
            return False
        return True

    def _between(self, a, x, b, avoid=()):
        """Is there a path a -> x -> b (x reached after a, and b reached from x without going through a or `avoid` again)?"""
        avoid = set(avoid) | {a}

        def reach(src, dst, av):
            seen, stack = {src}, [src]
            while stack:
                n = stack.pop()
                for s2 in self.succs_of(n):
                    if s2 == dst:
                        return True
                    if s2 not in seen and s2 not in av:
                        seen.add(s2)
                        stack.append(s2)
            return False
        return (x == a or reach(a, x, set())) and (x == b or reach(x, b, avoid))

    # -- liveness (backward, use-based) -------------------------------------------------
    def liveness(self, drop_is_use=False):
        """live_in[bb] sets of locals (whole-local granularity)."""
        use = [set() for _ in range(self.n)]
        kill = [set() for _ in range(self.n)]

        def add_use(bi, l):
            if l not in kill[bi]:
                use[bi].add(l)

        def op_use(bi, op):
            b = op_base(op)
            if b is not None:
                add_use(bi, b)

        for bi, bl in enumerate(self.blocks):
            for s in bl["stmts"]:
                k = s["k"]
                if k == "assign":
                    ops, places = self.rv_operands(s["rv"])
                    for o in ops:
                        op_use(bi, o)
                    for p in places:
                        add_use(bi, p["l"])
                    pl = s["pl"]
                    if pl.get("p"):
                        add_use(bi, pl["l"])
                    else:
                        kill[bi].add(pl["l"])
                elif k in ("dead",):
                    kill[bi].add(s["l"])
                elif k == "setdiscr":
                    add_use(bi, s["pl"]["l"])
            t = bl["term"]
            k = t["k"]
            if k == "call":
                op_use(bi, t["func"])
                for a in t["args"]:
                    op_use(bi, a)
                d = t["dest"]
                if d.get("p"):
                    add_use(bi, d["l"])
                # dest is defined on the edge; treat as kill after uses
                else:
                    kill[bi].add(d["l"])
            elif k == "switch":
                op_use(bi, t["discr"])
            elif k == "assert":
                op_use(bi, t["cond"])
            elif k == "yield":
                op_use(bi, t["value"])
            elif k == "drop" and drop_is_use:
                add_use(bi, t["pl"]["l"])
            elif k == "return":
                add_use(bi, 0)
        live_in = [set() for _ in range(self.n)]
        live_out = [set() for _ in range(self.n)]
        changed = True
        while changed:
            changed = False
            for bi in range(self.n - 1, -1, -1):
                out = set()
                for s in self.succ[bi]:
                    out |= live_in[s]
                inn = use[bi] | (out - kill[bi])
                if out != live_out[bi] or inn != live_in[bi]:
                    live_out[bi] = out
                    live_in[bi] = inn
                    changed = True
        return live_in, live_out

    # -- maybe-initialised (forward) ----------------------------------------------------
    def maybe_init(self, option_aware=False):
        """init_in[bb], init_out[bb]: locals that may hold a value (assigned, not yet moved/dropped/dead).

        option_aware: an `Option<_>` local also stops holding a value when its payload is moved out (`move (l as Some).0`) and on
        the `None` edge of a switch on its discriminant."""
        n = self.n
        none_edge = {}
        if option_aware:
            for bi, bl in enumerate(self.blocks):
                t = bl["term"]
                if t["k"] != "switch":
                    continue
                d = op_base(t["discr"])
                for st in bl["stmts"]:
                    if st["k"] == "assign" and st["rv"]["k"] == "discr" and st["pl"]["l"] == d and not st["rv"]["pl"].get("p"):
                        l = st["rv"]["pl"]["l"]
                        if self.local_ty(l).startswith("std::option::Option<"):
                            m = {v: tb for v, tb in t["targets"]}
                            tgt = m.get(0)
                            if tgt is None and 1 in m:
                                tgt = t["otherwise"]
                            if tgt is not None:
                                none_edge[(bi, tgt)] = l
        init_in = [set() for _ in range(n)]
        init_out = [None] * n

        def transfer(bi, state):
            st = set(state)
            bl = self.blocks[bi]
            for s in bl["stmts"]:
                k = s["k"]
                if k == "assign":
                    ops, _ = self.rv_operands(s["rv"])
                    for o in ops:
                        if o.get("c") == "move":
                            l = op_local(o)
                            if l is not None:
                                st.discard(l)
                            elif option_aware and (o["pl"].get("p") or [])[:2] == ["as Some", ".0"] and len(o["pl"]["p"]) == 2:
                                st.discard(o["pl"]["l"])
                    if not s["pl"].get("p"):
                        st.add(s["pl"]["l"])
                elif k == "dead":
                    st.discard(s["l"])
            t = bl["term"]
            k = t["k"]
            if k == "call":
                for a in t["args"]:
                    if a.get("c") == "move":
                        l = op_local(a)
                        if l is not None:
                            st.discard(l)
                if not t["dest"].get("p"):
                    st.add(t["dest"]["l"])
            elif k == "drop":
                if not t["pl"].get("p"):
                    st.discard(t["pl"]["l"])
            elif k == "yield":
                if t["value"].get("c") == "move":
                    l = op_local(t["value"])
                    if l is not None:
                        st.discard(l)
            return st

        work = [0]
        argc = self.raw["arg_count"]
        init_in[0] = set(range(1, argc + 1))
        inq = {0}
        while work:
            bi = work.pop()
            inq.discard(bi)
            out = transfer(bi, init_in[bi])
            if init_out[bi] is not None and out == init_out[bi]:
                continue
            init_out[bi] = out
            for s in self.succ[bi]:
                eo = out
                if (bi, s) in none_edge:
                    eo = out - {none_edge[(bi, s)]}
                new = init_in[s] | eo
                if new != init_in[s] or init_out[s] is None:
                    init_in[s] = new
                    if s not in inq:
                        inq.add(s)
                        work.append(s)
        return init_in, [o if o is not None else set() for o in init_out]

    # -- loops -------------------------------------------------------------------------
    def back_edges(self):
        out = []
        for b in range(self.n):
            if b not in self.dom:
                continue
            for s in self.succ[b]:
                if self.dominates(s, b):
                    out.append((b, s))
        return out

    def natural_loop(self, head):
        """Blocks of the natural loop(s) with header `head`."""
        body = {head}
        stack = [b for (b, h) in self.back_edges() if h == head]
        for b in stack:
            body.add(b)
        while stack:
            b = stack.pop()
            for p in self.pred[b]:
                if p not in body and p in self.dom:
                    body.add(p)
                    stack.append(p)
        return body

    def for_loops(self):
        """`for` loops (ForLoop desugaring): list of dicts with the `next` call, the edges out of
        its result switch, and the `into_iter` call feeding it."""
        out = []
        into = [c for c in self.calls() if c.desugar == "ForLoop" and c.is_fn("IntoIterator::into_iter")]
        for c in self.calls():
            if c.desugar == "ForLoop" and c.is_fn("Iterator::next") and c.target is not None:
                none_t, some_t = self.switch_on(c.dest["l"], c.target)
                if none_t is None:
                    continue
                sw = self._switch_block_of(c)
                # the into_iter whose result reaches next()'s receiver
                src = None
                for ic in into:
                    t = self.forward_taint([ic.dest["l"]], through_call=lambda x: False)
                    if op_base(c.args[0]) in t and self.dominates(ic.bb, c.bb):
                        src = ic
                out.append({"next": c, "switch": sw, "none": none_t, "some": some_t, "into_iter": src})
        return out

    def ok_aggs(self, user_only=True):
        """Statements constructing `Result::Ok(..)` (user-written unless user_only=False)."""
        out = []
        for bi, bl in enumerate(self.blocks):
            if bl.get("cleanup"):
                continue
            for si, s in enumerate(bl["stmts"]):
                if s["k"] == "assign" and s["rv"]["k"] == "agg" and s["rv"].get("variant") == "Ok" \
                        and s["rv"].get("adt", "").endswith("result::Result"):
                    if user_only and (s.get("sp") or {}).get("m"):
                        continue
                    out.append((bi, si, s))
        return out

    def aggs_of(self, adt_suffix):
        out = []
        for bi, bl in enumerate(self.blocks):
            if bl.get("cleanup"):
                continue
            for si, s in enumerate(bl["stmts"]):
                if s["k"] == "assign" and s["rv"]["k"] == "agg" and s["rv"].get("adt", "").endswith(adt_suffix):
                    out.append((bi, si, s))
        return out

    def loop_heads(self):
        return sorted({h for (_, h) in self.back_edges()})


PASS_THROUGH = (
    "std::future::IntoFuture::into_future",
    "std::pin::Pin::<Ptr>::new_unchecked",
    "std::pin::Pin::<Ptr>::new",
    "Future::poll",
    "std::result::Result::<T, E>::map_err",
    "std::result::Result::<T, E>::map",
    "std::result::Result::<T, E>::and_then",
    "std::option::Option::<T>::ok_or",
    "std::option::Option::<T>::ok_or_else",
    "std::convert::Into::into",
    "std::convert::From::from",
    "anyhow::Context::context",
    "anyhow::Context::with_context",
    "tracing::Instrument::instrument",
    "tracing::instrument::Instrument::instrument",
)
