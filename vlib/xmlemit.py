"""XML emission analysis of quick-xml writer code on top of the abstract interpreter (absint).

For an abstract input case, run a `WriteXml::write_xml` body and derive the tree of elements it emits.  Writer operations are
interpreted (create_element / with_attribute / write_inner_content(closure) / write_text_content / write_empty / write_all),
helper functions and closures are inlined by the interpreter, an iteration (`for`, `try_for_each`, `for_each`) contributes its
body once with every emitted node marked `star` = canonical description of what is iterated.

Node dict: {"tag": str | ("dyn", text), "attrs": [(name, (kind, desc))], "children": [..], "text": None | ("text", kind, desc),
            "star": None | tuple, "sp": span, "empty": bool, "raw": desc (for raw writes, tag None), "call": "write_xml" (nested writer)}
"""
from . import absint as A, thir as T


class XmlInterp(A.Interp):
    def __init__(self, fx, case_hook=None, **kw):
        kw.setdefault("max_paths", 64)
        super().__init__(fx, hook=None, **kw)
        self.case_hook = case_hook
        self.model_iterators = True

    # every path starts with an empty output
    def explore_body(self, t, args=None, env0=None):
        self._outs = []
        res = super().explore_body(t, args, env0)
        return res

    def _out(self):
        # the output stack lives in the trace (which the driver resets for every path)
        for ev in self.trace:
            if ev[0] == "xml-root":
                return ev[1]
        root = {"stack": [[]], "star": []}
        self.trace.append(("xml-root", root))
        return root

    def emit(self, node):
        o = self._out()
        if o["star"]:
            node["star"] = o["star"][-1]
        o["stack"][-1].append(node)

    # -- iteration: body once, marked ---------------------------------------------------------------
    def iter_next(self, a, n, d):
        o = self._out()
        key = A.vstr(a[0])
        seen = o.setdefault("iters", set())
        if key in seen:
            return A.NONE
        seen.add(key)
        o["star"].append(star_of(a[0]))
        o.setdefault("open_iters", []).append(key)
        return A.some(self.elem_of(a[0], n, d))

    def ev_loop(self, e, env, depth):
        o = self._out()
        n0 = len(o.get("open_iters", []))
        try:
            while True:
                try:
                    self.ev(e["body"], env, depth)
                except A._IterEnd:
                    pass
                # a `for` loop: the second next() yields None and breaks; a bare `loop` without break is not a writer idiom
                if len(o.get("open_iters", [])) == n0:
                    raise A.Undecided("loop without an iterator in writer code")
        except A._Break as b:
            while len(o.get("open_iters", [])) > n0:
                o["open_iters"].pop()
                o["star"].pop()
            return b.value

    def call_named(self, fn, args, node, depth):
        s2 = T.short(fn, 2)
        if self.case_hook is not None:
            r = self.case_hook(fn, args, node, self)
            if r is not None:
                return r
        if s2 == "Writer::create_element":
            return ("elem", static_name(self.fx, args[1]), (), node.get("sp"))
        if s2 == "ElementWriter::with_attribute":
            el = as_elem(args[0])
            kv = args[1]
            kty = (T.peel(node["args"][1]).get("ty") or "")
            kind = "raw" if "[u8]" in kty else "escaped"
            if kv[0] == "tuple" and len(kv[1]) == 2:
                return ("elem", el[1], el[2] + ((static_name(self.fx, kv[1][0]), (kind, describe(kv[1][1]))),), el[3])
            return ("elem", el[1], el[2] + ((("dyn", A.vstr(kv)), ("unknown", A.vstr(kv))),), el[3])
        if s2 == "ElementWriter::with_attributes":
            el = as_elem(args[0])
            return ("elem", el[1], el[2] + ((("dyn", A.vstr(args[1])), ("unknown", A.vstr(args[1]))),), el[3])
        if s2 == "ElementWriter::write_inner_content":
            el = as_elem(args[0])
            o = self._out()
            o["stack"].append([])
            r = self.apply(args[1], [("sym", "writer")], node, depth)
            kids = o["stack"].pop()
            self.emit({"tag": el[1], "attrs": list(el[2]), "children": kids, "text": None, "sp": el[3]})
            # the closure's error propagates: only the all-writes-succeed path is of interest
            return A.ok(("sym", "writer"))
        if s2 == "ElementWriter::write_text_content":
            el = as_elem(args[0])
            self.emit({"tag": el[1], "attrs": list(el[2]), "children": [], "text": text_of(args[1]), "sp": el[3]})
            return A.ok(("sym", "writer"))
        if s2 in ("ElementWriter::write_cdata_content", "ElementWriter::write_pi_content"):
            el = as_elem(args[0])
            self.emit({"tag": el[1], "attrs": list(el[2]), "children": [], "text": ("text", "cdata", describe(args[1])), "sp": el[3]})
            return A.ok(("sym", "writer"))
        if s2 == "ElementWriter::write_empty":
            el = as_elem(args[0])
            self.emit({"tag": el[1], "attrs": list(el[2]), "children": [], "text": None, "sp": el[3], "empty": True})
            return A.ok(("sym", "writer"))
        if s2 in ("BytesText::new", "BytesText::from_escaped"):
            return ("term", "BytesText::new" if s2 == "BytesText::new" else "BytesText::from_escaped", (args[0],))
        if s2 in ("Iterator::try_for_each", "Iterator::for_each"):
            o = self._out()

            def each(itv, pre):
                """One iteration's contribution per source: `a.chain(b)` is a's elements then b's; `src.map(f)` hands f(element) on."""
                v = itv
                while isinstance(v, tuple) and v[0] == "term" and T.short(v[1], 2) in A.ITER_IDENTITY and v[2]:
                    v = v[2][0]
                if isinstance(v, tuple) and v[0] == "term" and T.short(v[1], 2) == "Iterator::chain" and len(v[2]) == 2:
                    each(v[2][0], pre)
                    each(v[2][1], pre)
                    return
                if isinstance(v, tuple) and v[0] == "term" and T.short(v[1], 2) == "Iterator::map" and len(v[2]) == 2:
                    each(v[2][0], [v[2][1]] + pre)
                    return
                o["star"].append(star_of(itv))
                try:
                    el = self.elem_of(itv, node, depth)
                    for f in pre:
                        el = self.apply(f, [el], node, depth)
                    self.apply(args[1], [el], node, depth)
                finally:
                    o["star"].pop()
            each(args[0], [])
            return A.ok(("unit",)) if s2.endswith("try_for_each") else ("unit",)
        if s2 == "Write::write_all" or s2.endswith("::write_all"):
            self.emit({"tag": None, "raw": describe(args[1]), "attrs": [], "children": [], "text": None, "sp": node.get("sp")})
            return A.ok(("unit",))
        if s2 == "Writer::write_event":
            self.emit({"tag": None, "raw": ("event", A.vstr(args[1])), "attrs": [], "children": [], "text": None, "sp": node.get("sp")})
            return A.ok(("unit",))
        if s2 in ("Writer::get_mut", "Writer::inner"):
            return ("sym", "rawwriter")
        if fn.endswith("WriteXml::write_xml") and fn not in self.fx.thir:
            # nested writer through the trait (receiver type decides the impl): recorded, analysed separately
            self.emit({"tag": None, "call": "write_xml", "recv": describe(args[0]), "recv_ty": T.peel(node["args"][0]).get("ty"), "attrs": [],
                       "children": [], "text": None, "sp": node.get("sp")})
            return A.ok(("unit",))
        if s2 in ("cfg", ) or fn.endswith("::cfg"):
            return A.lit(False)
        return super().call_named(fn, args, node, depth)


def as_elem(v):
    if isinstance(v, tuple) and v[0] == "elem":
        return v
    raise A.Undecided("element builder of unrecognised origin: %s" % A.vstr(v)[:120])


def static_name(fx, v):
    if v[0] == "lit" and isinstance(v[1], str):
        return v[1]
    if v[0] == "const":
        t = fx.thir.get(v[1])
        if t is not None:
            b = T.peel(t["body"])
            if b.get("k") == "Lit" and isinstance(b.get("v"), str):
                return b["v"]
        return ("const", v[1])
    return ("dyn", A.vstr(v))


def describe(v):
    if v[0] == "lit":
        return ("lit", v[1])
    return ("expr", A.vstr(v))


def text_of(v):
    """("text", "escaped"|"raw", desc) for the argument of write_text_content."""
    if v[0] == "term" and v[1] in ("BytesText::new", "BytesText::from_escaped"):
        return ("text", "escaped" if v[1] == "BytesText::new" else "raw", describe(v[2][0]))
    return ("text", "unknown", describe(v))


SET_OPS = {"HashSet::iter": "iter", "HashSet::difference": "difference", "HashSet::symmetric_difference": "symmetric_difference",
           "HashSet::intersection": "intersection", "HashSet::union": "union", "HashSet::into_iter": "iter"}


def root_name(v):
    """NEW / OLD / … — the symbolic collection a set operand is a field of."""
    while isinstance(v, tuple) and v[0] in ("field", "payload"):
        v = v[1]
    if isinstance(v, tuple) and v[0] == "sym":
        return v[1]
    return A.vstr(v)


def star_of(it):
    """Canonical description of an iterated collection: ("iter", X) | ("difference", X, Y) | .. plus any adaptor met on the way."""
    adaptors = []
    v = it
    while isinstance(v, tuple) and v[0] == "term":
        f = T.short(v[1], 2)
        if f in SET_OPS:
            d = (SET_OPS[f],) + tuple(root_name(a) for a in v[2])
            return d + (("adapted",) + tuple(adaptors) if adaptors else ())
        if f in A.ITER_IDENTITY or f in ("Ranges::iter",):
            v = v[2][0] if v[2] else None
            continue
        adaptors.append(f)
        v = v[2][0] if v[2] else None
    return ("unknown", A.vstr(it)[:120])


def trees(paths):
    """The emitted forests of the paths that ran to a normal end."""
    out = []
    for p in paths:
        if p.end == "abort":
            continue
        if A.is_res(p.ret) and p.ret[2] == "Err":
            continue
        root = None
        for ev in p.trace:
            if ev[0] == "xml-root":
                root = ev[1]
        out.append(root["stack"][0] if root else [])
    return out


def render(nodes, indent=0):
    out = []
    for n in nodes:
        pre = "  " * indent
        if n.get("tag") is None:
            if n.get("call"):
                out.append("%s<<write_xml %s>>" % (pre, n["recv"][1]))
            else:
                out.append("%s<<raw %s>>" % (pre, n.get("raw")))
            continue
        tag = n["tag"] if isinstance(n["tag"], str) else "{%s}" % (n["tag"],)
        attrs = "".join(" %s=%s" % (k if isinstance(k, str) else "{dyn}", v[1][1] if isinstance(v[1], tuple) else v[1]) for k, v in n["attrs"])
        star = " *[%s]" % (n["star"],) if n.get("star") else ""
        if n["children"]:
            out.append("%s<%s%s>%s" % (pre, tag, attrs, star))
            out.extend(render(n["children"], indent + 1))
        elif n.get("text") is not None:
            out.append("%s<%s%s>%s%s" % (pre, tag, attrs, n["text"][2][1], star))
        else:
            out.append("%s<%s%s/>%s" % (pre, tag, attrs, star))
    return out


def walk_nodes(nodes):
    for n in nodes:
        yield n
        for c in walk_nodes(n.get("children", [])):
            yield c
