"""Abstract interpretation over *finite abstract collections* (on top of absint.Interp).

For functions whose result depends on how whole collections are traversed and edited (a compare written as two passes over
maps, `retain`, a work list), the per-case evaluation of absint (one symbolic element, loops abstracted) cannot see the relation between
the passes.  Here the input collections are small finite maps over *abstract elements* — one representative key per equivalence class
of inputs the rule distinguishes — and the collection operations are interpreted on them exactly: `for` loops over such a collection
are run element by element (no abstraction of the loop state), `HashMap::remove/insert/get/contains_key/entry`, `Vec::push/extend`,
iterator adaptors and `collect` are modelled.  Everything else behaves as in absint.  An operation on a collection that is not modelled
raises Undecided: the caller reports "cannot decide", never a pass.

Values added:  ("cmap", ((key, value), ...))   ("cset", (key, ...))   ("cvec", (item, ...))   ("citer", (item, ...))
"""
from . import absint as A, thir as T

COLL = ("cmap", "cset", "cvec", "citer")


def cmap(pairs):
    return ("cmap", tuple(pairs))


def is_coll(v):
    return isinstance(v, tuple) and v and v[0] in COLL


def items_of(v):
    """The sequence an iteration over the collection yields."""
    if v[0] == "cmap":
        return tuple(("tuple", (k, x)) for k, x in v[1])
    return tuple(v[1])


def key_eq(a, b):
    return A.vstr(strip(a)) == A.vstr(strip(b))


def strip(v):
    while isinstance(v, tuple) and v[0] == "term" and T.short(v[1], 2) in A.IDENTITY | {"Clone::clone", "ToOwned::to_owned", "Borrow::borrow", "Deref::deref"} and v[2]:
        v = v[2][0]
    return v


class CollInterp(A.Interp):
    MUTATORS = {"HashMap::remove", "HashMap::insert", "HashMap::retain", "HashSet::insert", "HashSet::remove", "Vec::push", "Vec::extend", "Extend::extend", "HashSet::extend", "HashMap::extend",
                "Iterator::next", "HashMap::remove_entry", "HashMap::clear", "Vec::clear"}

    def __init__(self, fx, **kw):
        kw.setdefault("havoc_loops", True)
        super().__init__(fx, **kw)
        self.model_iterators = False

    # -- loops driven by a concrete iterator are run element by element --------------------------------------
    def ev_loop(self, e, env, depth):
        drv = self._driver(e, env)
        if drv is None:
            return super().ev_loop(e, env, depth)
        for _ in range(len(env[drv][1]) + 2):
            try:
                self.ev(e["body"], env, depth)
            except A._Break as b:
                self.trace.append(("loop-exit", b.value, e.get("sp")))
                return b.value
            except A._IterEnd:
                continue
        raise A.Undecided("a loop over a finite collection did not end")

    def _driver(self, e, env):
        """Name of the variable holding the concrete iterator whose `next` drives this loop."""
        for n in T.walk(e["body"]):
            if n.get("k") == "Call" and n.get("fn") and T.short(n["fn"], 2) == "Iterator::next" and n.get("args"):
                v = self._place_var(n["args"][0])
                if v is not None and v in env and is_coll(env[v]) and env[v][0] == "citer":
                    return v
        return None

    # -- calls ---------------------------------------------------------------------------------------------------
    def ev_call(self, e, env, depth):
        fn = e.get("fn")
        s2 = T.short(fn, 2) if fn else ""
        if s2 in self.MUTATORS and e.get("args"):
            var = self._place_var(e["args"][0])
            cur = env.get(var) if var is not None else None
            if cur is None and var is None:
                # receiver is a field path of a variable (self.map.remove(..)): evaluate and, for mutators, we cannot write back
                cur = self.ev(e["args"][0], env, depth + 1)
                if is_coll(cur):
                    raise A.Undecided("%s on a collection that is not a local variable" % s2)
            if is_coll(cur):
                args = [cur] + [self.ev(a, env, depth + 1) for a in e["args"][1:]]
                new, res = self.mutate(s2, args, e, depth)
                env[var] = new
                self.trace.append(("assign", var, new, e.get("sp")))
                return res
        return super().ev_call(e, env, depth)

    def mutate(self, s2, a, node, d):
        c = a[0]
        if s2 == "Iterator::next":
            if c[0] != "citer":
                raise A.Undecided("next on %s" % c[0])
            if not c[1]:
                self.trace.append(("next", c, "None"))
                return c, A.NONE
            self.trace.append(("next", c, "Some"))
            return ("citer", c[1][1:]), A.some(c[1][0])
        if s2 in ("HashMap::remove", "HashMap::remove_entry") and c[0] == "cmap":
            hit = [(k, v) for k, v in c[1] if key_eq(k, a[1])]
            rest = tuple((k, v) for k, v in c[1] if not key_eq(k, a[1]))
            if not hit:
                return c, A.NONE
            return ("cmap", rest), A.some(hit[0][1] if s2 == "HashMap::remove" else ("tuple", hit[0]))
        if s2 == "HashMap::insert" and c[0] == "cmap":
            old = [v for k, v in c[1] if key_eq(k, a[1])]
            rest = tuple((k, v) for k, v in c[1] if not key_eq(k, a[1]))
            return ("cmap", rest + ((a[1], a[2]),)), (A.some(old[0]) if old else A.NONE)
        if s2 in ("HashMap::clear", "Vec::clear"):
            return (c[0], ()), ("unit",)
        if s2 == "HashMap::retain" and c[0] == "cmap":
            keep = []
            for k, v in c[1]:
                if self.truth(self.apply(a[1], [k, v], node, d)):
                    keep.append((k, v))
            return ("cmap", tuple(keep)), ("unit",)
        if s2 == "HashSet::insert" and c[0] == "cset":
            had = any(key_eq(k, a[1]) for k in c[1])
            return (c if had else ("cset", c[1] + (a[1],))), A.lit(not had)
        if s2 == "HashSet::remove" and c[0] == "cset":
            had = any(key_eq(k, a[1]) for k in c[1])
            return ("cset", tuple(k for k in c[1] if not key_eq(k, a[1]))), A.lit(had)
        if s2 == "Vec::push" and c[0] == "cvec":
            return ("cvec", c[1] + (a[1],)), ("unit",)
        if s2 in ("Vec::extend", "Extend::extend", "HashSet::extend") and c[0] in ("cvec", "cset"):
            src = a[1]
            if not is_coll(src):
                raise A.Undecided("extend from %s" % A.vstr(src)[:60])
            if c[0] == "cset":
                out = list(c[1])
                for x in items_of(src):
                    if not any(key_eq(x, y) for y in out):
                        out.append(x)
                return ("cset", tuple(out)), ("unit",)
            return (c[0], c[1] + items_of(src)), ("unit",)
        raise A.Undecided("%s on %s is not modelled" % (s2, c[0]))

    def call_named(self, fn, args, node, depth):
        s2 = T.short(fn, 2)
        c = strip(args[0]) if args else None
        if is_coll(c):
            r = self.coll_op(s2, c, args, node, depth)
            if r is not None:
                return r
        if s2 in ("Vec::new", "Vec::with_capacity") and "OutstandingRequest" not in fn:
            return ("cvec", ())
        if s2 in ("HashMap::new", "HashMap::with_capacity"):
            return ("cmap", ())
        if s2 in ("HashSet::new", "HashSet::with_capacity"):
            return ("cset", ())
        return super().call_named(fn, args, node, depth)

    def coll_op(self, s2, c, a, node, d):
        if s2 in ("HashMap::get", "HashMap::get_mut") and c[0] == "cmap":
            hit = [v for k, v in c[1] if key_eq(k, a[1])]
            self.trace.append(("lookup-key", A.vstr(strip(a[1]))))
            return A.some(hit[0]) if hit else A.NONE
        if s2 == "HashMap::contains_key" and c[0] == "cmap":
            return A.lit(any(key_eq(k, a[1]) for k, _ in c[1]))
        if s2 == "HashSet::contains" and c[0] == "cset":
            return A.lit(any(key_eq(k, a[1]) for k in c[1]))
        if s2 in ("HashMap::len", "HashSet::len", "Vec::len", "ExactSizeIterator::len"):
            return ("sym", "len")
        if s2 in ("HashMap::is_empty", "HashSet::is_empty", "Vec::is_empty"):
            return A.lit(not c[1])
        if s2 in ("HashMap::iter", "HashMap::iter_mut", "HashSet::iter", "Vec::iter", "IntoIterator::into_iter", "slice::iter", "Iterator::by_ref",
                  "Iterator::cloned", "Iterator::copied", "Iterator::fuse", "Iterator::peekable", "Iterator::into_iter", "HashMap::drain", "Vec::drain", "HashMap::into_iter"):
            return ("citer", items_of(c))
        if s2 in ("HashMap::keys", "HashMap::into_keys") and c[0] == "cmap":
            return ("citer", tuple(k for k, _ in c[1]))
        if s2 in ("HashMap::values", "HashMap::into_values", "HashMap::values_mut") and c[0] == "cmap":
            return ("citer", tuple(v for _, v in c[1]))
        if c[0] != "citer":
            return None
        items = c[1]
        if s2 == "Iterator::chain":
            other = strip(a[1])
            if not is_coll(other):
                raise A.Undecided("chain with %s" % A.vstr(other)[:60])
            return ("citer", items + items_of(other))
        if s2 == "Iterator::map":
            return ("citer", tuple(self.apply(a[1], [x], node, d) for x in items))
        if s2 == "Iterator::filter":
            return ("citer", tuple(x for x in items if self.truth(self.apply(a[1], [x], node, d))))
        if s2 == "Iterator::filter_map":
            out = []
            for x in items:
                k, p = self._known(self.apply(a[1], [x], node, d), True)
                if k == "Some":
                    out.append(p)
            return ("citer", tuple(out))
        if s2 == "Iterator::flat_map":
            out = []
            for x in items:
                r = strip(self.apply(a[1], [x], node, d))
                if A.is_opt(r):
                    if r[2] == "Some":
                        out.append(A.payload0(r))
                elif is_coll(r):
                    out.extend(items_of(r))
                else:
                    raise A.Undecided("flat_map over %s" % A.vstr(r)[:60])
            return ("citer", tuple(out))
        if s2 == "Iterator::for_each":
            for x in items:
                self.apply(a[1], [x], node, d)
            return ("unit",)
        if s2 == "Iterator::collect":
            ty = (node.get("ty") or "")
            if "HashMap<" in ty:
                pairs = []
                for x in items:
                    if not (x[0] == "tuple" and len(x[1]) == 2):
                        raise A.Undecided("collect into a map from non-pairs")
                    pairs = [(k, v) for k, v in pairs if not key_eq(k, x[1][0])] + [(x[1][0], x[1][1])]
                return ("cmap", tuple(pairs))
            if "HashSet<" in ty or "BTreeSet<" in ty:
                out = []
                for x in items:
                    if not any(key_eq(x, y) for y in out):
                        out.append(x)
                return ("cset", tuple(out))
            if "Vec<" in ty or "VecDeque<" in ty:
                return ("cvec", items)
            raise A.Undecided("collect into %s" % ty[:60])
        if s2 == "Iterator::count":
            return ("sym", "len")
        return None

    def project(self, base, name):
        return super().project(base, name)
