"""Debug helper: python3 -m vlib.dump <substring> [--all]  — list user-level calls of matching MIR bodies."""
import sys
from . import gen, facts as F

def main():
    pat = sys.argv[1]
    show_all = "--all" in sys.argv
    fx = F.Facts(gen.generate("ws", quiet=True))
    for n, b in sorted(fx.mir.items()):
        if pat in n:
            print("==", n, "blocks", b.n, "coroutine", b.coroutine)
            if "--names" in sys.argv: continue
            for c in b.calls():
                if c.macro and not show_all: continue
                if c.desugar and not show_all and c.defn!="std::ops::Try::branch": continue
                print("  bb%-4d %-70s rdef=%s L%s %s %s" % (c.bb, c.defn, c.rdef if c.rdef!=c.defn else "=", c.line, c.macro or "", c.desugar or ""))
            for i,t in b.yields():
                print("  bb%-4d YIELD L%s" % (i, (t.get('sp') or {}).get('l')))
main()
