"""Rule-instance bookkeeping, known-findings matching, evidence and exit status."""
import json
import os
import sys
import time

VERIF = os.path.dirname(os.path.dirname(os.path.abspath(__file__)))
KNOWN = os.path.join(VERIF, "known_findings.json")
EVDIR = os.environ.get("VERIF_EVIDENCE_DIR") or os.path.join(VERIF, "evidence")


def loc_of(sp):
    if not sp:
        return "?"
    return "%s:%s" % (sp.get("f"), sp.get("l"))


class Check:
    def __init__(self, prop, tier):
        self.prop = prop
        self.tier = tier
        self.t0 = time.time()
        self.instances = []     # every rule instance examined
        self.reports = []       # violating instances
        self.functions = set()
        self.call_sites = 0
        self.floors = {}
        self.assumptions = []
        self.explanation = ""
        self.extra = {}
        self.notes = []

    # -- recording -------------------------------------------------------------------------
    def analysed(self, *fn_names):
        for f in fn_names:
            self.functions.add(f)

    def instance(self, rule, what, fn, loc=None, holds=True, key=None, detail=None):
        """Record one rule instance.  `key` (no line numbers) identifies a violating instance."""
        rec = {"rule": rule, "what": what, "fn": fn, "at": loc, "verdict": "holds" if holds else "VIOLATED"}
        if detail:
            rec["detail"] = detail
        self.instances.append(rec)
        if not holds:
            k = key or ("%s %s %s" % (rule, fn, what))
            self.reports.append({"rule": rule, "key": k, "fn": fn, "at": loc, "what": what, "detail": detail})
        return holds

    def floor(self, name, counted, minimum):
        """Fail closed if fewer instances than counted by hand are visible."""
        self.floors[name] = {"counted": counted, "floor": minimum}
        if counted < minimum:
            from .facts import AnchorLost
            raise AnchorLost("%s: %d instances found, floor is %d" % (name, counted, minimum))

    def note(self, s):
        self.notes.append(s)

    # -- finish ------------------------------------------------------------------------------
    def finish(self, facts=None):
        known = {"findings": [], "fixed": []}
        if os.path.exists(KNOWN):
            with open(KNOWN) as f:
                known = json.load(f)
        listed = {(k["property"], k["key"]): k for k in known.get("findings", [])}
        matched, unlisted = [], []
        for r in self.reports:
            k = listed.get((self.prop, r["key"]))
            if k is not None:
                matched.append((r, k))
            else:
                unlisted.append(r)
        for r, k in matched:
            print("KNOWN-FINDING: property=%s %s — %s [%s]" % (self.prop, r["key"], k.get("what", ""), r.get("at")))
        os.makedirs(EVDIR, exist_ok=True)
        n = len(self.instances)
        viol = len(unlisted)
        discharged = n - len(self.reports)
        samples = self.instances[:60]
        cov = {
            "explanation": self.explanation,
            "obligations": n,
            "discharged": discharged,
            "known_findings_matched": [r["key"] for r, _ in matched],
            "functions_analysed": sorted(self.functions),
            "functions_analysed_count": len(self.functions),
            "call_sites_examined": self.call_sites,
            "floors": self.floors,
            "samples": samples,
            "rule_ids": sorted({i["rule"] for i in self.instances}),
            "exhaustive": False,
        }
        if facts is not None:
            cov["fact_dir"] = facts.dir
            cov["crates_in_facts"] = facts.crates
            cov["bodies_in_facts"] = sum(c["bodies"] for c in facts.crates.values())
        cov.update(self.extra)
        if self.notes:
            cov["notes"] = self.notes
        ev = {
            "property_id": self.prop,
            "tier": self.tier,
            "seed": int(os.environ.get("VERIF_SEED", "0") or 0),
            "level": "other",
            "coverage": cov,
            "assumptions": self.assumptions,
            "wall_s": round(time.time() - self.t0, 2),
            "violations": viol,
        }
        with open(os.path.join(EVDIR, self.prop + ".json"), "w") as f:
            json.dump(ev, f, indent=1, sort_keys=False)
        print("[%s] %s: %d rule instances, %d hold, %d known findings, %d violations (%.1fs)" % (
            self.prop, self.tier, n, discharged, len(matched), viol, time.time() - self.t0))
        if unlisted:
            rp = os.path.join(EVDIR, self.prop + ".violation.json")
            with open(rp, "w") as f:
                json.dump({"property": self.prop, "reports": unlisted}, f, indent=1)
            for r in unlisted:
                print("  violation: %s  at %s  (%s) %s" % (r["key"], r.get("at"), r["fn"], r.get("detail") or ""))
            print("VIOLATION property=%s replay=%s" % (self.prop, rp))
            return 1
        else:
            rp = os.path.join(EVDIR, self.prop + ".violation.json")
            if os.path.exists(rp):
                os.remove(rp)
        return 0
