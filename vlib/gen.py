"""Fact generation: run the factgen driver over /repo's *current working tree*.

Facts live in /verif/.work/facts/<tree-hash>/<config>/*.json.  The tree hash covers every
tracked and untracked (non-ignored) file under /repo plus Cargo.lock, so an edited tree is
always re-analysed.  Fails closed: missing fact files / too few bodies raise GenError.
"""
import fcntl
import glob
import hashlib
import json
import os
import shutil
import subprocess
import sys
import time

VERIF = os.path.dirname(os.path.dirname(os.path.abspath(__file__)))
REPO = os.environ.get("VERIF_REPO", "/repo")
WORK = os.path.join(VERIF, ".work")
DRIVER = os.path.join(VERIF, "factgen", "target", "debug", "factgen")

# config name -> (cargo args, expected crates {crate: min MIR bodies})
CONFIGS = {
    "ws": (["--workspace"], {"netconf": 800, "bgpfu": 25, "bgpfu_cli": 15, "bgpfu_junos_agent": 250}),
    # full (codegen) build of bgpfu-lib: dependency rmeta then carries MIR of generic functions (rpsl / irrc)
    "lib-full": (["build", "-p", "bgpfu-lib"], {"bgpfu": 25}),
    "nc-ssh": (["-p", "bgpfu-netconf", "--no-default-features", "--features", "ssh"], {"netconf": 600}),
    "nc-tls": (["-p", "bgpfu-netconf", "--no-default-features", "--features", "tls"], {"netconf": 600}),
    "nc-tls-junos": (["-p", "bgpfu-netconf", "--no-default-features", "--features", "tls,junos"], {"netconf": 800}),
}


class GenError(Exception):
    pass


def sysroot():
    return subprocess.check_output(["rustc", "+nightly", "--print", "sysroot"], text=True).strip()


def tree_hash(repo=None):
    repo = repo or REPO
    out = subprocess.check_output(
        ["git", "-C", repo, "ls-files", "-co", "--exclude-standard", "-z"]
    ).split(b"\0")
    h = hashlib.sha256()
    for name in sorted(set(out)):
        if not name:
            continue
        n = name.decode("utf-8", "replace")
        if n.startswith("target/"):
            continue
        p = os.path.join(repo, n)
        if not os.path.isfile(p):
            continue
        h.update(name + b"\0")
        with open(p, "rb") as f:
            h.update(hashlib.sha256(f.read()).digest())
    # driver identity: facts depend on the driver build too
    try:
        st = os.stat(DRIVER)
        h.update(("driver:%d:%d" % (st.st_size, int(st.st_mtime))).encode())
    except OSError:
        pass
    return h.hexdigest()[:20]


def ensure_driver():
    if os.path.exists(DRIVER):
        return
    build_driver()


def build_driver():
    env = dict(os.environ, CARGO_NET_OFFLINE="true")
    r = subprocess.run(
        ["cargo", "+nightly", "build", "--offline"],
        cwd=os.path.join(VERIF, "factgen"), env=env, capture_output=True, text=True,
    )
    if r.returncode != 0 or not os.path.exists(DRIVER):
        raise GenError("factgen build failed:\n" + r.stderr[-4000:])


def _run_driver(src, cargo_args, out_dir, target_dir, extra_env=None):
    os.makedirs(out_dir, exist_ok=True)
    os.makedirs(target_dir, exist_ok=True)
    # cargo must not skip the wrapper for workspace members
    fp = os.path.join(target_dir, "debug", ".fingerprint")
    if os.path.isdir(fp):
        for d in os.listdir(fp):
            if d.startswith("bgpfu") or d.startswith("verif-controls") or d.startswith("verif_controls"):
                shutil.rmtree(os.path.join(fp, d), ignore_errors=True)
    shutil.rmtree(os.path.join(target_dir, "debug", "incremental"), ignore_errors=True)
    env = dict(os.environ)
    env.update(
        CARGO_NET_OFFLINE="true",
        CARGO_INCREMENTAL="0",
        LD_LIBRARY_PATH=os.path.join(sysroot(), "lib"),
        FACTGEN_OUT=out_dir,
        RUSTFLAGS="-Zmir-opt-level=0 -Awarnings",
        RUSTC_WORKSPACE_WRAPPER=DRIVER,
        CARGO_TARGET_DIR=target_dir,
    )
    env.pop("RUSTC_WRAPPER", None)
    if extra_env:
        env.update(extra_env)
    sub = "check"
    if cargo_args and cargo_args[0] in ("build", "check"):
        sub, cargo_args = cargo_args[0], cargo_args[1:]
    r = subprocess.run(
        ["cargo", "+nightly", sub, "--offline"] + cargo_args,
        cwd=src, env=env, capture_output=True, text=True,
    )
    return r


def generate(config="ws", repo=None, quiet=False):
    """Return the directory with fact files for `config`, generating if needed."""
    repo = repo or REPO
    ensure_driver()
    th = tree_hash(repo)
    cargo_args, expected = CONFIGS[config]
    out_dir = os.path.join(WORK, "facts", th, config)
    os.makedirs(os.path.join(WORK, "facts"), exist_ok=True)
    done = os.path.join(out_dir, "DONE")
    if os.path.exists(done):
        # facts of this exact tree (and driver build) are there: no need to queue behind generations for other trees
        try:
            os.utime(os.path.join(WORK, "facts", th))
        except OSError:
            pass
        return out_dir
    # a few generation slots, each with its own cargo target directory (development harnesses analyse many scratch trees at once);
    # two requests for the same tree serialise on the tree's own lock
    nslots = int(os.environ.get("VERIF_GEN_SLOTS", "4"))
    tree_lock = open(os.path.join(WORK, "facts", th + ".lock"), "w")
    fcntl.flock(tree_lock, fcntl.LOCK_EX)
    lock, slot = None, None
    for i in range(nslots):
        f = open(os.path.join(WORK, "gen.%d.lock" % i), "w")
        try:
            fcntl.flock(f, fcntl.LOCK_EX | fcntl.LOCK_NB)
            lock, slot = f, i
            break
        except OSError:
            f.close()
    if lock is None:
        slot = os.getpid() % nslots
        lock = open(os.path.join(WORK, "gen.%d.lock" % slot), "w")
        fcntl.flock(lock, fcntl.LOCK_EX)
    with lock:
        if not os.path.exists(done):
            shutil.rmtree(out_dir, ignore_errors=True)
            t0 = time.time()
            tdir = os.path.join(WORK, "target", (config if config != "ws" else "ws") + ("" if slot == 0 else "-%d" % slot))
            r = _run_driver(repo, cargo_args, out_dir, tdir)
            if r.returncode != 0:
                shutil.rmtree(out_dir, ignore_errors=True)
                raise GenError("cargo +nightly check failed for config %s:\n%s" % (config, r.stderr[-6000:]))
            counts = {}
            for f in glob.glob(os.path.join(out_dir, "*.json")):
                with open(f) as fh:
                    head = fh.read(200)
                crate = head.split('"crate":"')[1].split('"')[0]
                kind = head.split('"kind":"')[1].split('"')[0]
                if kind != "Rlib":
                    continue
                d = json.load(open(f))
                counts[crate] = len(d["mir"])
            for crate, floor in expected.items():
                if counts.get(crate, 0) < floor:
                    shutil.rmtree(out_dir, ignore_errors=True)
                    raise GenError(
                        "fact file for crate %s missing or too small (%s bodies, floor %d)"
                        % (crate, counts.get(crate), floor)
                    )
            with open(done, "w") as f:
                json.dump({"tree": th, "config": config, "bodies": counts, "gen_s": round(time.time() - t0, 1)}, f)
            if not quiet:
                print("[factgen] config=%s tree=%s bodies=%s (%.1fs)" % (config, th, counts, time.time() - t0), file=sys.stderr)
            _gc(th)
        else:
            try:
                os.utime(os.path.join(WORK, "facts", th))
            except OSError:
                pass
        fcntl.flock(lock, fcntl.LOCK_UN)
    fcntl.flock(tree_lock, fcntl.LOCK_UN)
    tree_lock.close()
    try:
        os.unlink(os.path.join(WORK, "facts", th + ".lock"))
    except OSError:
        pass
    return out_dir


def _gc(keep):
    """Keep disk use bounded: drop fact dirs of older trees (keep the 3 newest)."""
    base = os.path.join(WORK, "facts")
    dirs = [d for d in os.listdir(base) if os.path.isdir(os.path.join(base, d)) and d != keep and not d.startswith("controls-")]
    dirs.sort(key=lambda d: os.path.getmtime(os.path.join(base, d)), reverse=True)
    for d in dirs[int(os.environ.get("VERIF_FACTS_KEEP", "8")):]:
        shutil.rmtree(os.path.join(base, d), ignore_errors=True)


if __name__ == "__main__":
    cfg = sys.argv[1] if len(sys.argv) > 1 else "ws"
    print(generate(cfg))
