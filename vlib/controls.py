"""Positive controls: the analysis primitives must fire on /verif/controls' violating functions and stay silent on the twins."""
import hashlib
import json
import os
import shutil

from . import gen, facts as F, thir as T


class ControlFailed(Exception):
    pass


def controls_facts():
    src = os.path.join(gen.VERIF, "controls")
    h = hashlib.sha256()
    for fn in ("Cargo.toml", "src/lib.rs"):
        h.update(open(os.path.join(src, fn), "rb").read())
    st = os.stat(gen.DRIVER)
    h.update(("%d:%d" % (st.st_size, int(st.st_mtime))).encode())
    key = h.hexdigest()[:16]
    out = os.path.join(gen.WORK, "facts", "controls-" + key)
    if not os.path.exists(os.path.join(out, "DONE")):
        import fcntl
        os.makedirs(os.path.join(gen.WORK, "facts"), exist_ok=True)
        with open(os.path.join(gen.WORK, "controls.lock"), "w") as lock:
            fcntl.flock(lock, fcntl.LOCK_EX)      # concurrent checks: one of them builds the controls, the others wait for it
            if not os.path.exists(os.path.join(out, "DONE")):
                shutil.rmtree(out, ignore_errors=True)
                r = gen._run_driver(src, [], out, os.path.join(gen.WORK, "target", "controls"))
                if r.returncode != 0:
                    raise ControlFailed("controls crate does not build: %s" % r.stderr[-600:])
                open(os.path.join(out, "DONE"), "w").write(key)
    return F.Facts(out)


def run():
    fx = controls_facts()
    res = []

    def expect(name, got, want):
        res.append({"control": name, "fired": got, "expected": want})
        if got != want:
            raise ControlFailed("control %s: primitive %s (expected %s)" % (name, "fired" if got else "silent", "fire" if want else "silence"))

    P = "verif_controls::"
    # OKDOM
    for fn, want in (("good_okdom", False), ("bad_okdom", True)):
        b = fx.body(P + fn)
        s1, s2, cm = b.calls_to("step1")[0], b.calls_to("step2")[0], b.calls_to("commit")[0]
        viol = not (b.ok_dominates(s1, cm.bb) and b.ok_dominates(s2, cm.bb))
        expect("OKDOM/" + fn, viol, want)
    # GUARD
    for fn, want in (("good_guard", False), ("bad_guard", True)):
        b = fx.body(P + fn)
        ie = b.calls_to("Errors::is_empty")
        aggs = [(bi, s) for (bi, si, s) in b.aggs_of("Reply") if s["rv"]["variant"] == "Ok"]
        viol = not all(any(b.guarded_by_call(bi, c, want=True) for c in ie) for (bi, s) in aggs) or not aggs
        expect("GUARD/" + fn, viol, want)
    # EXIT
    from rules.c07 import zero_edges
    for fn, want in (("good_exit", False), ("bad_exit", True)):
        b = fx.body(P + fn)
        r = b.calls_to("verif_controls::read")[0]
        e = b.ok_edge_of(r)
        cnt = {l for l in b.forward_taint([e[0].dest["l"]], through_call=lambda x: False) if b.local_ty(l) == "usize"}
        edges = zero_edges(b, cnt)
        ok = any(r.bb not in b.reachable(tgt) for (sw, tgt, loc) in edges)
        expect("EXIT/" + fn, not ok, want)
    # LIVE
    for fn, want in (("good_live", False), ("bad_live", True)):
        b = fx.user_coroutine(P + fn)
        init_in, _ = b.maybe_init()
        _, live_out = b.liveness()
        held = False
        for ap in b.await_points():
            y = ap["yield"]
            if any(b.local_ty(l).startswith("std::vec::Vec<u8>") for l in (init_in[y] & live_out[y])):
                held = True
        expect("LIVE/" + fn, held, want)
    # LOCK
    for fn, want in (("good_lock", False), ("bad_lock", True)):
        b = fx.user_coroutine(P + fn)
        init_in, _ = b.maybe_init()
        held = False
        for ap in b.await_points():
            if ap["src"] is not None and ap["src"].is_fn("verif_controls::recv"):
                if any(b.local_ty(l) == "verif_controls::Guard" for l in init_in[ap["yield"]]):
                    held = True
        expect("LOCK/" + fn, held, want)
    # loop-exit dominance
    for fn, want in (("good_forall", False), ("bad_forall", True)):
        b = fx.body(P + fn)
        lp = b.for_loops()[0]
        viol = not all(b.edge_dominates(lp["switch"], lp["none"], bi) for (bi, si, s) in b.ok_aggs())
        expect("FORALL/" + fn, viol, want)
    # TABLE
    t = fx.thir_body(P + "table")
    m = T.find(T.user_body(t), "Match")[0]
    rows = {T.pat_str(a["pat"]): T.expr_str(a["body"]) for a in m["arms"]}
    want_rows = {"State::Pending": "Result::Ok(Option::None)", "State::Ready(v)": "Result::Ok(Option::Some(v))", "State::Complete": "Result::Err(E)"}
    expect("TABLE/table", rows == want_rows, True)
    return res
