"""python3 -m vlib.dumpbb <body-name> <bb> [<bb>...] — print statements/terminators of blocks."""
import sys, json
from . import gen, facts as F
def opstr(o):
    if o is None: return "-"
    if o.get("c") in ("copy","move"): return ("" if o["c"]=="copy" else "move ")+F.place_str(o["pl"])
    if o.get("c")=="const": return "const(%s)" % (o.get("def") or o.get("cdef") or o.get("v"))
    return str(o)
def rvstr(rv):
    k=rv["k"]
    if k=="use": return opstr(rv["op"])
    if k=="ref": return "&%s %s" % (rv["bk"], F.place_str(rv["pl"]))
    if k=="binop": return "%s(%s, %s)" % (rv["bop"], opstr(rv["l"]), opstr(rv["r"]))
    if k=="unop": return "%s(%s)" % (rv["uop"], opstr(rv["op"]))
    if k=="discr": return "discr(%s)%s" % (F.place_str(rv["pl"]), " enum=%s"%rv["enum"] if rv.get("enum") else "")
    if k=="agg": return "agg %s::%s(%s)" % (rv.get("adt") or rv.get("closure") or rv.get("coroutine") or ("tuple" if rv.get("tuple") else "?"), rv.get("variant",""), ", ".join(opstr(f) for f in rv["fields"]))
    if k=="cast": return "cast(%s)" % opstr(rv["op"])
    return json.dumps(rv)[:120]
def main():
    fx=F.Facts(gen.generate("ws",quiet=True))
    b=fx.body(sys.argv[1])
    for a in sys.argv[2:]:
        if "-" in a:
            lo,hi=a.split("-"); rng=range(int(lo),int(hi)+1)
        else: rng=[int(a)]
        for bi in rng:
            bl=b.blocks[bi]
            print("bb%d%s:" % (bi, " (cleanup)" if bl.get("cleanup") else ""))
            for s in bl["stmts"]:
                if s["k"]=="assign": print("    %s = %s    // L%s %s" % (F.place_str(s["pl"]), rvstr(s["rv"]), (s.get("sp") or {}).get("l"), (s.get("sp") or {}).get("m") or ""))
                elif s["k"] in("live","dead"): pass
                else: print("    %s %s" % (s["k"], F.place_str(s["pl"]) if "pl" in s else ""))
            t=bl["term"]; k=t["k"]
            if k=="call": print("    %s = call %s(%s) -> bb%s   // L%s" % (F.place_str(t["dest"]), t["func"].get("def") or opstr(t["func"]), ", ".join(opstr(x) for x in t["args"]), t.get("t"), (t.get("sp") or {}).get("l")))
            elif k=="switch": print("    switch %s %s else bb%s" % (opstr(t["discr"]), t["targets"], t["otherwise"]))
            else: print("    %s %s" % (k, {x:t[x] for x in t if x in("t","pl","imag","drop")} ))
main()
