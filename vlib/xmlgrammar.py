"""Abstract interpretation of quick-xml writer code (normalised THIR) into the tree of XML it emits.

Given a function's THIR and an *abstract case* (answers to the predicates the code branches on), `Emitter.run`
returns the ordered list of emitted nodes:

  {"tag": str|("dyn", text), "attrs": [(k, v)], "children": [...], "text": value|None, "star": origin|None, "raw": ...}

`star` marks a node produced inside `iter.try_for_each(..)` / `for` (zero or more repetitions), tagged with the rendered
iterator expression.  Unknown conditions make the emitter raise `Undecided` (fail closed: the rule reports it).
"""
from . import thir as T


class Undecided(Exception):
    pass


class _Return(Exception):
    def __init__(self, value):
        self.value = value


def ntext(e):
    """Normalised text of an expression: no spaces, borrows or derefs."""
    return T.expr_str(e).replace(" ", "").replace("&mut", "").replace("&", "").replace("*", "")


class Elem:
    def __init__(self, tag, attrs=None, sp=None):
        self.tag = tag
        self.attrs = list(attrs or [])
        self.sp = sp

    def with_attr(self, k, v):
        return Elem(self.tag, self.attrs + [(k, v)], self.sp)


class Closure:
    def __init__(self, thir, env):
        self.thir = thir
        self.env = env


class Emitter:
    def __init__(self, fx, case, inline=(), max_depth=12):
        """case: {"cond": {ntext: bool}, "opt": {ntext: ("None",) | ("Some", token)}, "enum": {ntext: variant}}"""
        self.fx = fx
        self.case = case
        self.inline = tuple(inline)
        self.max_depth = max_depth
        self.notes = []

    # -- entry --------------------------------------------------------------------------------
    def run_fn(self, def_path, args=None, depth=0):
        t = self.fx.thir.get(def_path)
        if t is None:
            raise Undecided("no THIR for %s" % def_path)
        env = {}
        params = [p for p in t.get("params", []) if p.get("pat")]
        names = [T.pat_str(p["pat"]) for p in params]
        for i, nme in enumerate(names):
            if args and i < len(args):
                env[nme] = args[i]
            else:
                env[nme] = ("param", nme)
        out = []
        try:
            v = self.ev(T.user_body(t), env, out, depth)
        except _Return as r:
            v = r.value
        return out, v

    # -- expression evaluation: returns a value; appends emitted nodes to `out` ---------------------
    def ev(self, e, env, out, depth):
        if e is None:
            return None
        if depth > 60:
            raise Undecided("recursion too deep")
        k = e.get("k")
        if k == "Block":
            v = None
            for s in e.get("stmts", []):
                v = self.ev(s, env, out, depth + 1)
            if e.get("expr") is not None:
                return self.ev(e["expr"], env, out, depth + 1)
            return ("unit",)
        if k == "LetStmt":
            v = self.ev(e.get("init"), env, out, depth + 1) if e.get("init") is not None else None
            self.bind(e["pat"], v, env)
            return ("unit",)
        if k in ("Borrow", "Deref", "Coerce", "Cast", "RawBorrow"):
            return self.ev(e["arg"], env, out, depth + 1)
        if k == "Try":
            return self.ev(e["arg"], env, out, depth + 1)
        if k == "Var":
            if e["name"] in env:
                return env[e["name"]]
            return ("var", e["name"])
        if k == "Lit":
            return ("lit", e.get("v"))
        if k == "Const":
            return ("const", e["def"])
        if k == "Field":
            base = self.ev(e["lhs"], env, out, depth + 1)
            return ("field", base, e["name"], ntext(e))
        if k == "Tuple":
            return ("tuple", [self.ev(x, env, out, depth + 1) for x in e["fields"]])
        if k == "Adt":
            return ("adt", e["adt"], e["variant"], [(f["name"], self.ev(f["expr"], env, out, depth + 1)) for f in e.get("fields", [])])
        if k == "Closure":
            t = self.fx.thir.get(e["def"])
            if t is None:
                raise Undecided("closure body not found: %s" % e["def"])
            return Closure(t, dict(env))
        if k == "Assign":
            lhs = T.peel(e["lhs"])
            v = self.ev(e["rhs"], env, out, depth + 1)
            if lhs.get("k") == "Var":
                env[lhs["name"]] = v
            return ("unit",)
        if k == "If":
            c = self.cond(e["cond"], env, out, depth)
            if c is None:
                raise Undecided("condition not decided by the abstract case: %s" % ntext(e["cond"]))
            if c:
                return self.ev(e["then"], env, out, depth + 1)
            if e.get("else") is not None:
                return self.ev(e["else"], env, out, depth + 1)
            return ("unit",)
        if k == "Match":
            return self.ev_match(e, env, out, depth)
        if k == "Return":
            raise _Return(self.ev(e.get("value"), env, out, depth + 1) if e.get("value") else ("unit",))
        if k == "Macro":
            return ("unit",)
        if k == "Call":
            return self.ev_call(e, env, out, depth)
        if k == "Zst":
            return ("fn", e.get("fn"))
        if k in ("Unary", "Logical", "Binary"):
            c = self.cond(e, env, out, depth)
            return ("bool", c)
        return ("opaque", ntext(e))

    # -- conditions -------------------------------------------------------------------------------
    def cond(self, e, env, out, depth):
        e = T.peel(e)
        k = e.get("k")
        if k == "Lit" and e.get("lk") == "bool":
            return bool(e["v"])
        if k == "Unary" and e["op"] == "Not":
            c = self.cond(e["arg"], env, out, depth)
            return None if c is None else (not c)
        if k == "Logical":
            a, b = self.cond(e["lhs"], env, out, depth), self.cond(e["rhs"], env, out, depth)
            if e["op"] == "And":
                if a is False or b is False:
                    return False
                return None if (a is None or b is None) else True
            if a is True or b is True:
                return True
            return None if (a is None or b is None) else False
        if k == "Var" and e["name"] in env:
            v = env[e["name"]]
            if isinstance(v, tuple) and v[0] in ("lit", "bool"):
                return None if v[1] is None else bool(v[1])
        if k == "Call" and e.get("fn", "").endswith("cfg") or ntext(e) in ("cfg!(test)",):
            return False
        key = self.subst_text(e, env)
        if key in self.case.get("cond", {}):
            return self.case["cond"][key]
        if k == "Call" and e.get("fn", "").endswith(("Option::<T>::is_none", "Option::<T>::is_some")) and e.get("args"):
            k2 = self.subst_text(e["args"][0], env)
            if k2 in self.case.get("opt", {}):
                is_none = self.case["opt"][k2][0] == "None"
                return is_none if e["fn"].endswith("is_none") else (not is_none)
        return None

    def subst_text(self, e, env):
        """ntext with variables bound to abstract tokens replaced by the token name."""
        e = T.peel(e)
        k = e.get("k")
        if k == "Var":
            v = env.get(e["name"])
            if isinstance(v, tuple) and v[0] == "token":
                return v[1]
            if isinstance(v, tuple) and v[0] == "field":
                return v[3]
            return e["name"]
        if k == "Call" and e.get("fn"):
            return "%s(%s)" % (T.short(e["fn"], 2), ",".join(self.subst_text(a, env) for a in e["args"]))
        if k == "Field":
            return "%s.%s" % (self.subst_text(e["lhs"], env), e["name"])
        if k == "Unary":
            return "%s(%s)" % (e["op"], self.subst_text(e["arg"], env))
        return ntext(e)

    # -- match -------------------------------------------------------------------------------------
    def abstract(self, e, env, out, depth):
        """Abstract value of a scrutinee component."""
        e0 = T.peel(e)
        key = self.subst_text(e0, env)
        if key in self.case.get("opt", {}):
            return ("opt",) + tuple(self.case["opt"][key])
        if key in self.case.get("enum", {}):
            return ("enum", self.case["enum"][key])
        c = self.cond(e0, env, out, depth)
        if c is not None:
            return ("bool", c)
        if e0.get("k") == "Tuple":
            return ("tuple", [self.abstract(x, env, out, depth) for x in e0["fields"]])
        v = self.ev(e0, env, out, depth + 1)
        return v

    def pat_match(self, p, v, env):
        """True/False/None; binds variables into env on success."""
        k = p.get("k")
        if k == "Wild":
            return True
        if k == "Deref":
            return self.pat_match(p["sub"], v, env)
        if k == "Bind":
            if p.get("sub"):
                r = self.pat_match(p["sub"], v, env)
                if r:
                    env[p["name"]] = v
                return r
            env[p["name"]] = v
            return True
        if k == "Leaf" and not p.get("adt"):
            if not (isinstance(v, tuple) and v[0] == "tuple"):
                return None
            res = True
            for s in p.get("sub", []):
                idx = int(s["field"])
                r = self.pat_match(s["pat"], v[1][idx], env)
                if r is False:
                    return False
                if r is None:
                    res = None
            return res
        if k == "Variant":
            if isinstance(v, tuple) and v[0] == "opt" and p["adt"].endswith("option::Option"):
                if p["variant"] == "None":
                    return v[1] == "None"
                if v[1] != "Some":
                    return False
                for s in p.get("sub", []):
                    self.pat_match(s["pat"], ("token", v[2]), env)
                return True
            if isinstance(v, tuple) and v[0] == "enum":
                if p["variant"] != v[1]:
                    return False
                for s in p.get("sub", []):
                    self.pat_match(s["pat"], ("field", ("var", "self"), s["field"], "self." + s["field"]), env)
                return True
            if isinstance(v, tuple) and v[0] == "adt":
                if p["variant"] != v[2]:
                    return False
                return True
            return None
        if k == "Const":
            if isinstance(v, tuple) and v[0] in ("bool", "lit"):
                pv = p.get("v")
                want = {"true": True, "false": False}.get(pv, pv)
                return v[1] == want
            return None
        if k == "Or":
            any_none = False
            for q in p["pats"]:
                r = self.pat_match(q, v, env)
                if r:
                    return True
                if r is None:
                    any_none = True
            return None if any_none else False
        if k == "Leaf" and p.get("adt"):
            for s in p.get("sub", []):
                self.pat_match(s["pat"], ("field", v, s["field"], "?." + s["field"]), env)
            return True
        return None

    def ev_match(self, e, env, out, depth):
        v = self.abstract(e["scrut"], env, out, depth)
        for a in e["arms"]:
            env2 = dict(env)
            r = self.pat_match(a["pat"], v, env2)
            if r is None:
                raise Undecided("match arm `%s` not decided for scrutinee %s" % (T.pat_str(a["pat"]), ntext(e["scrut"])))
            if not r:
                continue
            if a.get("guard") is not None:
                g = self.cond(a["guard"], env2, out, depth)
                if g is None:
                    raise Undecided("guard not decided: %s" % self.subst_text(a["guard"], env2))
                if not g:
                    continue
            return self.ev(a["body"], env2, out, depth + 1)
        raise Undecided("no arm matched for %s" % ntext(e["scrut"]))

    def bind(self, pat, v, env):
        k = pat.get("k")
        if k == "Bind":
            env[pat["name"]] = v
        elif k == "Leaf" and isinstance(v, tuple) and v[0] == "tuple":
            for s in pat.get("sub", []):
                self.bind(s["pat"], v[1][int(s["field"])], env)
        elif k == "Deref":
            self.bind(pat["sub"], v, env)

    # -- calls -------------------------------------------------------------------------------------
    def call_closure(self, c, args, out, depth):
        env = dict(c.env)
        params = [p for p in c.thir.get("params", []) if p.get("pat")]
        # first param of a closure body is the closure itself (no pattern) — user params follow
        for i, p in enumerate(params):
            if i < len(args):
                self.bind(p["pat"], args[i], env)
        try:
            return self.ev(T.user_body(c.thir), env, out, depth + 1)
        except _Return as r:
            return r.value

    def ev_call(self, e, env, out, depth):
        fn = e.get("fn") or ""
        short = T.short(fn, 2)
        args = e.get("args", [])
        if short == "Writer::create_element":
            name = self.ev(args[1], env, out, depth + 1)
            return Elem(self.static_name(name, args[1]), sp=e.get("sp"))
        if short == "ElementWriter::with_attribute":
            el = self.ev(args[0], env, out, depth + 1)
            kv = T.peel(args[1])
            if kv.get("k") == "Tuple" and len(kv["fields"]) == 2:
                kk = self.ev(kv["fields"][0], env, out, depth + 1)
                vv = self.ev(kv["fields"][1], env, out, depth + 1)
                sink = "escaped" if "&str" in (T.peel(kv["fields"][1]).get("ty") or kv["fields"][1].get("ty") or "") or True else "raw"
                kind = self.attr_kind(kv)
                return self.as_elem(el).with_attr(self.static_name(kk, kv["fields"][0]), (kind, self.describe(vv, kv["fields"][1])))
            return self.as_elem(el).with_attr(("dyn", ntext(args[1])), ("unknown", ntext(args[1])))
        if short == "ElementWriter::write_inner_content":
            el = self.as_elem(self.ev(args[0], env, out, depth + 1))
            cl = self.ev(args[1], env, out, depth + 1)
            children = []
            if isinstance(cl, Closure):
                self.call_closure(cl, [("writer",)], children, depth)
            else:
                raise Undecided("write_inner_content with a non-closure argument")
            out.append({"tag": el.tag, "attrs": el.attrs, "children": children, "text": None, "sp": el.sp})
            return ("result",)
        if short == "ElementWriter::write_text_content":
            el = self.as_elem(self.ev(args[0], env, out, depth + 1))
            tv = self.ev(args[1], env, out, depth + 1)
            out.append({"tag": el.tag, "attrs": el.attrs, "children": [], "text": self.describe(tv, args[1]), "sp": el.sp})
            return ("result",)
        if short == "ElementWriter::write_empty":
            el = self.as_elem(self.ev(args[0], env, out, depth + 1))
            out.append({"tag": el.tag, "attrs": el.attrs, "children": [], "text": None, "sp": el.sp, "empty": True})
            return ("result",)
        if short in ("BytesText::new", "BytesText::from_escaped"):
            inner = self.ev(args[0], env, out, depth + 1)
            return ("text", "escaped" if short == "BytesText::new" else "raw", self.describe(inner, args[0]))
        if short in ("Iterator::try_for_each", "Iterator::for_each"):
            origin = self.subst_text(args[0], env)
            cl = self.ev(args[1], env, out, depth + 1)
            inner = []
            if isinstance(cl, Closure):
                self.call_closure(cl, [("item", origin)], inner, depth)
            for n in inner:
                n["star"] = origin
                out.append(n)
            return ("result",)
        if short in ("Result::map", "Result::map_err", "Result::and_then", "Option::map"):
            v = self.ev(args[0], env, out, depth + 1)
            return v
        if short == "Write::write_all" or short.endswith("::write_all"):
            src = self.ev(args[1], env, out, depth + 1)
            out.append({"tag": None, "raw": self.describe(src, args[1]), "attrs": [], "children": [], "text": None, "sp": e.get("sp")})
            return ("result",)
        if short == "Writer::get_mut":
            return ("rawwriter",)
        if short == "Writer::write_event":
            out.append({"tag": None, "raw": "event:" + ntext(args[1]), "attrs": [], "children": [], "text": None, "sp": e.get("sp")})
            return ("result",)
        # user functions to inline
        for suf in self.inline:
            if fn.endswith(suf):
                avals = [self.ev(a, env, out, depth + 1) for a in args]
                target = self.resolve_inline(fn, e, avals)
                if target is None:
                    raise Undecided("cannot resolve inlined callee %s" % fn)
                if depth > self.max_depth * 4:
                    raise Undecided("inline depth exceeded")
                sub_out, v = self.run_fn_with(target, avals, depth + 1)
                out.extend(sub_out)
                return v
        if fn.endswith("WriteXml::write_xml"):
            recv = self.ev(args[0], env, out, depth + 1)
            out.append({"tag": None, "call": "write_xml", "recv": self.describe(recv, args[0]), "recv_ty": T.peel(args[0]).get("ty"),
                        "attrs": [], "children": [], "text": None, "sp": e.get("sp")})
            return ("result",)
        avals = [self.ev(a, env, out, depth + 1) for a in args]
        return ("call", short, avals, ntext(e))

    def run_fn_with(self, def_path, avals, depth):
        t = self.fx.thir.get(def_path)
        if t is None:
            raise Undecided("no THIR for %s" % def_path)
        env = {}
        params = [p for p in t.get("params", []) if p.get("pat")]
        for i, p in enumerate(params):
            if i < len(avals):
                self.bind(p["pat"], avals[i], env)
        out = []
        try:
            v = self.ev(T.user_body(t), env, out, depth)
        except _Return as r:
            v = r.value
        return out, v

    def resolve_inline(self, fn, e, avals):
        if fn in self.fx.thir:
            return fn
        return None

    # -- helpers -----------------------------------------------------------------------------------
    def as_elem(self, v):
        if isinstance(v, Elem):
            return v
        raise Undecided("element builder of unrecognised origin: %r" % (v,))

    def static_name(self, v, node):
        if isinstance(v, tuple) and v[0] == "lit" and isinstance(v[1], str):
            return v[1]
        if isinstance(v, tuple) and v[0] == "const":
            t = self.fx.thir.get(v[1])
            if t is not None:
                b = T.peel(t["body"])
                if b.get("k") == "Lit" and isinstance(b.get("v"), str):
                    return b["v"]
            return ("const", v[1])
        if isinstance(v, tuple) and v[0] == "call":
            return ("fn", v[1], v[3])
        return ("dyn", ntext(node))

    def attr_kind(self, kv):
        """Attribute built from a (&str,&str) pair is escaped by quick-xml; a (&[u8],&[u8]) pair is stored verbatim."""
        ty = kv.get("ty") or ""
        if "[u8]" in ty:
            return "raw"
        return "escaped"

    def describe(self, v, node):
        if isinstance(v, tuple):
            if v[0] == "lit":
                return ("lit", v[1])
            if v[0] == "text":
                return v
            if v[0] == "token":
                return ("token", v[1])
            if v[0] == "field":
                return ("field", v[3])
            if v[0] == "call":
                return ("call", v[1], v[3])
            if v[0] == "item":
                return ("item", v[1])
            if v[0] == "param":
                return ("param", v[1])
        return ("expr", ntext(node))


def render(nodes, indent=0):
    """Compact text rendering of an emitted tree (for evidence and messages)."""
    out = []
    for n in nodes:
        pre = "  " * indent
        if n.get("tag") is None:
            if n.get("call"):
                out.append("%s<<write_xml %s>>" % (pre, n["recv"][1] if isinstance(n["recv"], tuple) else n["recv"]))
            else:
                out.append("%s<<raw %s>>" % (pre, n.get("raw")))
            continue
        tag = n["tag"] if isinstance(n["tag"], str) else "{%s}" % (n["tag"],)
        attrs = "".join(" %s=%s" % (k if isinstance(k, str) else "{dyn}", v[1] if isinstance(v, tuple) else v) for k, v in n["attrs"])
        star = " *[%s]" % n["star"] if n.get("star") else ""
        if n["children"]:
            out.append("%s<%s%s>%s" % (pre, tag, attrs, star))
            out.extend(render(n["children"], indent + 1))
        elif n.get("text") is not None:
            out.append("%s<%s%s>%s%s" % (pre, tag, attrs, n["text"][-1] if isinstance(n["text"], tuple) else n["text"], star))
        else:
            out.append("%s<%s%s/>%s" % (pre, tag, attrs, star))
    return out


def walk_nodes(nodes):
    for n in nodes:
        yield n
        for c in walk_nodes(n.get("children", [])):
            yield c
