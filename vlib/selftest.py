"""Thorough tier: mutation self-test.  Every patch under mutants/<prop>/ (and every confirmed seeded change that our
check is recorded to detect) is applied to a scratch copy of /repo's *current* tree; the property's quick check must report
a VIOLATION on it.  Patches under mutants/<prop>/benign/ are behaviour-preserving (or break another property) and must
NOT raise an alarm.  Scratch copies and their facts are removed as each run finishes."""
import glob
import json
import os
import shutil
import subprocess
import sys

from . import gen

VERIF = gen.VERIF
# scratch copies of the repository live outside /repo and /verif and are removed as soon as the check on them has run
SCRATCH = os.environ.get("VERIF_SCRATCH", "/tmp/verif-scratch")


def scratch(patch, tag):
    dst = os.path.join(SCRATCH, tag)
    shutil.rmtree(dst, ignore_errors=True)
    os.makedirs(os.path.dirname(dst), exist_ok=True)
    shutil.copytree(gen.REPO, dst, ignore=shutil.ignore_patterns("target", ".git"))
    subprocess.run(["git", "init", "-q"], cwd=dst, check=True)
    r = subprocess.run(["git", "apply", "--whitespace=nowarn", os.path.abspath(patch)], cwd=dst, capture_output=True, text=True)
    if r.returncode != 0:
        shutil.rmtree(dst, ignore_errors=True)
        return None
    return dst


def check_on(prop, repo):
    env = dict(os.environ, VERIF_REPO=repo, VERIF_EVIDENCE_DIR=repo.rstrip("/") + ".evidence", VERIF_NO_SELFTEST="1", VERIF_TIER="quick")
    r = subprocess.run([os.path.join(VERIF, "vcheck"), prop, "quick"], cwd=VERIF, env=env, capture_output=True, text=True)
    viol = [l.strip() for l in r.stdout.splitlines() if l.strip().startswith("violation:")]
    return r.returncode, viol, (r.stdout + r.stderr)[-400:]


def cleanup(repo):
    try:
        shutil.rmtree(os.path.join(VERIF, ".work", "facts", gen.tree_hash(repo)), ignore_errors=True)
    except Exception:
        pass
    shutil.rmtree(repo, ignore_errors=True)
    shutil.rmtree(repo.rstrip("/") + ".evidence", ignore_errors=True)


def run(prop, chk):
    p = prop.lower()
    must = sorted(glob.glob(os.path.join(VERIF, "mutants", p, "*.patch")))
    benign = sorted(glob.glob(os.path.join(VERIF, "mutants", p, "benign", "*.patch")))
    # behaviour-preserving refactorings of the code this property is anchored in, written by independent sub-agents (benign/<PROP>_*/):
    # the check must stay silent on each (the whole corpus was run against every property during development: tools/benign_matrix.py)
    benign += sorted(glob.glob(os.path.join(VERIF, "benign", "%s_*" % prop, "patch.diff")))
    seeded = []
    for mf in sorted(glob.glob(os.path.join(VERIF, "seeded", "*", "meta.json"))):
        m = json.load(open(mf))
        if m.get("breaks_property") == prop:
            seeded.append((os.path.join(os.path.dirname(mf), "patch.diff"), bool((m.get("our_check") or {}).get("detected"))))
    results, bad = [], []
    jobs = [(x, "detect") for x in must] + [(x, "silent") for x in benign] + [(x, "detect" if d else "record") for (x, d) in seeded]
    for i, (patch, expect) in enumerate(jobs):
        name = os.path.relpath(patch, VERIF)
        repo = scratch(patch, "st_%s_%d_%d" % (p, os.getpid(), i))
        if repo is None:
            results.append({"patch": name, "expect": expect, "result": "skipped: does not apply to the current tree"})
            continue
        try:
            rc, viol, tail = check_on(prop, repo)
        finally:
            cleanup(repo)
        detected = rc == 1
        rec = {"patch": name, "expect": expect, "exit": rc, "detected": detected, "violations": [v[:160] for v in viol[:3]]}
        if expect == "detect" and not detected:
            rec["result"] = "NOT DETECTED"
            bad.append("%s not detected (exit %d)" % (name, rc))
        elif expect == "silent" and rc != 0:
            rec["result"] = "FALSE ALARM"
            bad.append("%s raised an alarm (exit %d)" % (name, rc))
        else:
            rec["result"] = "ok"
        results.append(rec)
    chk.extra["selftest"] = {
        "mutants_applied": len([r for r in results if r["expect"] == "detect" and "exit" in r]),
        "mutants_detected": len([r for r in results if r["expect"] == "detect" and r.get("detected")]),
        "benign_applied": len([r for r in results if r["expect"] == "silent" and "exit" in r]),
        "benign_silent": len([r for r in results if r["expect"] == "silent" and r.get("exit") == 0]),
        "seeded_recorded_missed": [r["patch"] for r in results if r["expect"] == "record" and not r.get("detected")],
        "results": results,
    }
    return bad
