//! Serialise borrowck-time MIR (mir_promoted) of a typeck root and its nested bodies.

use crate::json::J;
use crate::util::{path_str, span_j, ty_str};
use rustc_hir::def_id::LocalDefId;
use rustc_middle::mir::*;
use rustc_middle::ty::{self, Instance, Ty, TyCtxt, TypingEnv};

pub fn capture<'tcx>(tcx: TyCtxt<'tcx>, root: LocalDefId) {
    if std::env::var("FACTGEN_OUT").is_err() {
        return;
    }
    let mut defs = vec![root];
    for nested in tcx.nested_bodies_within(root) {
        defs.push(nested);
    }
    for def in defs {
        if matches!(tcx.def_kind(def), rustc_hir::def::DefKind::Static { .. }) {
            continue;
        }
        let (body, _promoted) = tcx.mir_promoted(def);
        let body = body.borrow();
        let j = body_j(tcx, def, root, &body);
        let mut s = String::new();
        j.write(&mut s);
        crate::MIR_BODIES.lock().unwrap().push(s);
    }
}

struct Cx<'a, 'tcx> {
    tcx: TyCtxt<'tcx>,
    body: &'a Body<'tcx>,
    env: TypingEnv<'tcx>,
}

fn body_j<'tcx>(tcx: TyCtxt<'tcx>, def: LocalDefId, root: LocalDefId, body: &Body<'tcx>) -> J {
    let cx = Cx { tcx, body, env: TypingEnv::post_analysis(tcx, def.to_def_id()) };
    let mut names: Vec<Option<String>> = vec![None; body.local_decls.len()];
    let mut upvar_names: Vec<J> = Vec::new();
    for vdi in body.var_debug_info.iter() {
        if let VarDebugInfoContents::Place(p) = &vdi.value {
            if p.projection.is_empty() {
                names[p.local.as_usize()] = Some(vdi.name.to_string());
            } else {
                upvar_names.push(J::Obj(vec![
                    ("name", J::s(vdi.name.to_string())),
                    ("place", cx.place(p)),
                ]));
            }
        }
    }
    let locals: Vec<J> = body
        .local_decls
        .iter_enumerated()
        .map(|(l, d)| {
            J::Obj(vec![
                ("ty", J::s(ty_str(tcx, d.ty))),
                ("name", J::opt(names[l.as_usize()].clone().map(J::s))),
                ("user", J::Bool(d.is_user_variable())),
                ("sp", span_j(tcx, d.source_info.span)),
            ])
        })
        .collect();
    let blocks: Vec<J> = body
        .basic_blocks
        .iter_enumerated()
        .map(|(_bb, data)| {
            let stmts: Vec<J> = data.statements.iter().filter_map(|s| cx.stmt(s)).collect();
            J::Obj(vec![
                ("stmts", J::Arr(stmts)),
                ("term", cx.term(data.terminator())),
                ("cleanup", if data.is_cleanup { J::Bool(true) } else { J::Null }),
            ])
        })
        .collect();
    let kind = format!("{:?}", tcx.def_kind(def));
    let coroutine = body.coroutine.is_some();
    J::Obj(vec![
        ("def", J::s(path_str(tcx, def.to_def_id()))),
        ("root", J::s(path_str(tcx, root.to_def_id()))),
        ("parent", J::s(path_str(tcx, tcx.local_parent(def).to_def_id()))),
        ("kind", J::s(kind)),
        ("coroutine", J::Bool(coroutine)),
        ("sp", span_j(tcx, body.span)),
        ("arg_count", J::n(body.arg_count)),
        ("locals", J::Arr(locals)),
        ("upvars", J::Arr(upvar_names)),
        ("blocks", J::Arr(blocks)),
    ])
}

impl<'a, 'tcx> Cx<'a, 'tcx> {
    fn place(&self, p: &Place<'tcx>) -> J {
        let mut proj: Vec<J> = Vec::new();
        let mut ty = PlaceTy::from_ty(self.body.local_decls[p.local].ty);
        for elem in p.projection.iter() {
            let j = match elem {
                ProjectionElem::Deref => J::s("*"),
                ProjectionElem::Field(f, _) => {
                    let name = match ty.ty.kind() {
                        ty::Adt(adt, _) => {
                            let v = match ty.variant_index {
                                Some(v) => Some(adt.variant(v)),
                                None if adt.is_struct() || adt.is_union() => {
                                    Some(adt.non_enum_variant())
                                }
                                None => None,
                            };
                            v.and_then(|v| v.fields.get(f).map(|fd| fd.name.to_string()))
                        }
                        _ => None,
                    };
                    J::s(format!(".{}", name.unwrap_or_else(|| f.as_usize().to_string())))
                }
                ProjectionElem::Downcast(name, idx) => J::s(format!(
                    "as {}",
                    name.map(|n| n.to_string()).unwrap_or_else(|| idx.as_usize().to_string())
                )),
                ProjectionElem::Index(l) => J::s(format!("[_{}]", l.as_usize())),
                ProjectionElem::ConstantIndex { offset, from_end, .. } => {
                    J::s(format!("[{}{}]", if from_end { "-" } else { "" }, offset))
                }
                ProjectionElem::Subslice { from, to, from_end } => {
                    J::s(format!("[{}..{}{}]", from, if from_end { "-" } else { "" }, to))
                }
                other => J::s(format!("?{:?}", other)),
            };
            proj.push(j);
            ty = ty.projection_ty(self.tcx, elem);
        }
        J::Obj(vec![
            ("l", J::n(p.local.as_usize())),
            ("p", if proj.is_empty() { J::Null } else { J::Arr(proj) }),
        ])
    }

    fn fn_def(&self, ty: Ty<'tcx>) -> Vec<(&'static str, J)> {
        let mut out = Vec::new();
        match ty.kind() {
            ty::FnDef(def_id, args) => {
                out.push(("def", J::s(path_str(self.tcx, *def_id))));
                let ga: Vec<J> = args.iter().map(|a| J::s(crate::util::disp_str(self.tcx, a))).collect();
                out.push(("gargs", J::Arr(ga)));
                if let Some(tr) = self.tcx.trait_of_assoc(*def_id) {
                    out.push(("trait", J::s(path_str(self.tcx, tr))));
                }
                if let Ok(Some(inst)) = Instance::try_resolve(self.tcx, self.env, *def_id, args) {
                    let rdef = inst.def_id();
                    out.push(("rdef", J::s(path_str(self.tcx, rdef))));
                    if let Some(imp) = self.tcx.impl_of_assoc(rdef) {
                        let self_ty = self.tcx.type_of(imp).instantiate_identity().skip_norm_wip();
                        out.push(("rself", J::s(ty_str(self.tcx, self_ty))));
                    }
                    let ga: Vec<J> = inst.args.iter().map(|a| J::s(crate::util::disp_str(self.tcx, a))).collect();
                    out.push(("rgargs", J::Arr(ga)));
                    out.push(("rkind", J::s(inst_kind(&inst))));
                }
            }
            _ => {}
        }
        out
    }

    fn operand(&self, op: &Operand<'tcx>) -> J {
        match op {
            Operand::Copy(p) => J::Obj(vec![("c", J::s("copy")), ("pl", self.place(p))]),
            Operand::Move(p) => J::Obj(vec![("c", J::s("move")), ("pl", self.place(p))]),
            Operand::Constant(c) => {
                let ty = c.const_.ty();
                let mut o = vec![
                    ("c", J::s("const")),
                    ("ty", J::s(ty_str(self.tcx, ty))),
                ];
                let fd = self.fn_def(ty);
                if fd.is_empty() {
                    o.push(("v", J::s(crate::util::disp_str(self.tcx, c.const_))));
                    if ty.is_integral() || ty.is_bool() || ty.is_char() {
                        if let Some(s) = c.const_.try_eval_scalar_int(self.tcx, self.env) {
                            let size = s.size();
                            let v: i128 = if ty.is_signed() {
                                s.to_int(size)
                            } else {
                                s.to_uint(size) as i128
                            };
                            o.push(("i", J::Num(v)));
                        }
                    }
                    if let Const::Unevaluated(u, _) = c.const_ {
                        o.push(("cdef", J::s(path_str(self.tcx, u.def))));
                    }
                } else {
                    o.extend(fd);
                }
                J::Obj(o)
            }
            #[allow(unreachable_patterns)]
            _ => J::Obj(vec![("c", J::s("other")), ("v", J::s(format!("{:?}", op)))]),
        }
    }

    fn rvalue(&self, rv: &Rvalue<'tcx>) -> J {
        match rv {
            Rvalue::Use(op, _) => J::Obj(vec![("k", J::s("use")), ("op", self.operand(op))]),
            Rvalue::Ref(_, bk, p) => J::Obj(vec![
                ("k", J::s("ref")),
                ("bk", J::s(match bk {
                    BorrowKind::Shared => "shared",
                    BorrowKind::Fake(_) => "fake",
                    BorrowKind::Mut { .. } => "mut",
                })),
                ("pl", self.place(p)),
            ]),
            Rvalue::RawPtr(_, p) => J::Obj(vec![("k", J::s("rawptr")), ("pl", self.place(p))]),
            Rvalue::Cast(kind, op, ty) => J::Obj(vec![
                ("k", J::s("cast")),
                ("ck", J::s(format!("{:?}", kind))),
                ("op", self.operand(op)),
                ("ty", J::s(ty_str(self.tcx, *ty))),
            ]),
            Rvalue::BinaryOp(bop, box (l, r)) => J::Obj(vec![
                ("k", J::s("binop")),
                ("bop", J::s(format!("{:?}", bop))),
                ("l", self.operand(l)),
                ("r", self.operand(r)),
            ]),
            Rvalue::UnaryOp(uop, op) => J::Obj(vec![
                ("k", J::s("unop")),
                ("uop", J::s(format!("{:?}", uop))),
                ("op", self.operand(op)),
            ]),
            Rvalue::Discriminant(p) => {
                let mut o = vec![("k", J::s("discr")), ("pl", self.place(p))];
                let pty = p.ty(&self.body.local_decls, self.tcx).ty;
                if let ty::Adt(adt, _) = pty.kind() {
                    if adt.is_enum() {
                        o.push(("enum", J::s(path_str(self.tcx, adt.did()))));
                        let vars: Vec<J> = adt
                            .discriminants(self.tcx)
                            .map(|(idx, d)| {
                                J::Arr(vec![J::n(d.val), J::s(adt.variant(idx).name.to_string())])
                            })
                            .collect();
                        o.push(("vars", J::Arr(vars)));
                    }
                }
                J::Obj(o)
            }
            Rvalue::Aggregate(box kind, fields) => {
                let mut o = vec![("k", J::s("agg"))];
                match kind {
                    AggregateKind::Adt(def_id, variant, _args, _, _) => {
                        let adt = self.tcx.adt_def(*def_id);
                        o.push(("adt", J::s(path_str(self.tcx, *def_id))));
                        o.push(("variant", J::s(adt.variant(*variant).name.to_string())));
                        let names: Vec<J> = adt.variant(*variant).fields.iter().map(|f| J::s(f.name.to_string())).collect();
                        o.push(("fnames", J::Arr(names)));
                    }
                    AggregateKind::Closure(def_id, _) => {
                        o.push(("closure", J::s(path_str(self.tcx, *def_id))));
                    }
                    AggregateKind::Coroutine(def_id, _) => {
                        o.push(("coroutine", J::s(path_str(self.tcx, *def_id))));
                    }
                    AggregateKind::CoroutineClosure(def_id, _) => {
                        o.push(("closure", J::s(path_str(self.tcx, *def_id))));
                    }
                    AggregateKind::Tuple => o.push(("tuple", J::Bool(true))),
                    AggregateKind::Array(_) => o.push(("array", J::Bool(true))),
                    other => o.push(("akind", J::s(format!("{:?}", other)))),
                }
                let f: Vec<J> = fields.iter().map(|op| self.operand(op)).collect();
                o.push(("fields", J::Arr(f)));
                J::Obj(o)
            }
            Rvalue::CopyForDeref(p) => J::Obj(vec![("k", J::s("use")), ("op", J::Obj(vec![("c", J::s("copy")), ("pl", self.place(p))]))]),
            Rvalue::Repeat(op, _) => J::Obj(vec![("k", J::s("repeat")), ("op", self.operand(op))]),
            other => J::Obj(vec![("k", J::s("other")), ("v", J::s(format!("{:?}", other)))]),
        }
    }

    fn stmt(&self, s: &Statement<'tcx>) -> Option<J> {
        let sp = span_j(self.tcx, s.source_info.span);
        match &s.kind {
            StatementKind::Assign(box (place, rv)) => Some(J::Obj(vec![
                ("k", J::s("assign")),
                ("pl", self.place(place)),
                ("rv", self.rvalue(rv)),
                ("sp", sp),
            ])),
            StatementKind::StorageLive(l) => {
                Some(J::Obj(vec![("k", J::s("live")), ("l", J::n(l.as_usize()))]))
            }
            StatementKind::StorageDead(l) => {
                Some(J::Obj(vec![("k", J::s("dead")), ("l", J::n(l.as_usize()))]))
            }
            StatementKind::SetDiscriminant { place, variant_index } => Some(J::Obj(vec![
                ("k", J::s("setdiscr")),
                ("pl", self.place(place)),
                ("variant", J::n(variant_index.as_usize())),
                ("sp", sp),
            ])),
            StatementKind::FakeRead(box (cause, place)) => Some(J::Obj(vec![
                ("k", J::s("fakeread")),
                ("cause", J::s(format!("{:?}", cause).split('(').next().unwrap_or("").to_string())),
                ("pl", self.place(place)),
            ])),
            StatementKind::PlaceMention(box place) => {
                Some(J::Obj(vec![("k", J::s("mention")), ("pl", self.place(place))]))
            }
            _ => None,
        }
    }

    fn term(&self, t: &Terminator<'tcx>) -> J {
        let sp = span_j(self.tcx, t.source_info.span);
        let bbn = |b: &BasicBlock| J::n(b.as_usize());
        let unw = |u: &UnwindAction| match u {
            UnwindAction::Cleanup(b) => J::n(b.as_usize()),
            _ => J::Null,
        };
        match &t.kind {
            TerminatorKind::Goto { target } => J::Obj(vec![("k", J::s("goto")), ("t", bbn(target))]),
            TerminatorKind::SwitchInt { discr, targets } => {
                let ts: Vec<J> = targets
                    .iter()
                    .map(|(v, b)| J::Arr(vec![J::n(v), J::n(b.as_usize())]))
                    .collect();
                J::Obj(vec![
                    ("k", J::s("switch")),
                    ("discr", self.operand(discr)),
                    ("targets", J::Arr(ts)),
                    ("otherwise", bbn(&targets.otherwise())),
                    ("sp", sp),
                ])
            }
            TerminatorKind::Return => J::Obj(vec![("k", J::s("return")), ("sp", sp)]),
            TerminatorKind::Unreachable => J::Obj(vec![("k", J::s("unreachable"))]),
            TerminatorKind::UnwindResume => J::Obj(vec![("k", J::s("resume"))]),
            TerminatorKind::UnwindTerminate(_) => J::Obj(vec![("k", J::s("terminate"))]),
            TerminatorKind::Drop { place, target, unwind, .. } => J::Obj(vec![
                ("k", J::s("drop")),
                ("pl", self.place(place)),
                ("t", bbn(target)),
                ("unwind", unw(unwind)),
                ("sp", sp),
            ]),
            TerminatorKind::Call { func, args, destination, target, unwind, fn_span, .. } => {
                let a: Vec<J> = args.iter().map(|a| self.operand(&a.node)).collect();
                J::Obj(vec![
                    ("k", J::s("call")),
                    ("func", self.operand(func)),
                    ("args", J::Arr(a)),
                    ("dest", self.place(destination)),
                    ("t", J::opt(target.as_ref().map(bbn))),
                    ("unwind", unw(unwind)),
                    ("sp", sp),
                    ("fsp", span_j(self.tcx, *fn_span)),
                ])
            }
            TerminatorKind::Assert { cond, expected, msg, target, unwind } => J::Obj(vec![
                ("k", J::s("assert")),
                ("cond", self.operand(cond)),
                ("expected", J::Bool(*expected)),
                ("msg", J::s(format!("{:?}", msg).split('(').next().unwrap_or("").to_string())),
                ("t", bbn(target)),
                ("unwind", unw(unwind)),
                ("sp", sp),
            ]),
            TerminatorKind::Yield { value, resume, resume_arg, drop } => J::Obj(vec![
                ("k", J::s("yield")),
                ("value", self.operand(value)),
                ("t", bbn(resume)),
                ("resume_arg", self.place(resume_arg)),
                ("drop", J::opt(drop.as_ref().map(bbn))),
                ("sp", sp),
            ]),
            TerminatorKind::CoroutineDrop => J::Obj(vec![("k", J::s("coroutine_drop"))]),
            TerminatorKind::FalseEdge { real_target, imaginary_target } => J::Obj(vec![
                ("k", J::s("falseedge")),
                ("t", bbn(real_target)),
                ("imag", bbn(imaginary_target)),
            ]),
            TerminatorKind::FalseUnwind { real_target, unwind } => J::Obj(vec![
                ("k", J::s("falseunwind")),
                ("t", bbn(real_target)),
                ("unwind", unw(unwind)),
            ]),
            other => J::Obj(vec![("k", J::s("other")), ("v", J::s(format!("{:?}", other))), ("sp", sp)]),
        }
    }
}

fn inst_kind<'tcx>(inst: &Instance<'tcx>) -> String {
    let s = format!("{:?}", inst.def);
    s.split('(').next().unwrap_or("").to_string()
}
