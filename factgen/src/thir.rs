//! Serialise THIR bodies as JSON trees (resolved callees, resolved patterns).

use crate::json::J;
use crate::util::{path_str, span_j, ty_str};
use rustc_middle::thir::*;
use rustc_middle::ty::{self, TyCtxt};

pub fn dump_all<'tcx>(tcx: TyCtxt<'tcx>) -> J {
    let mut out = Vec::new();
    for def in tcx.hir_body_owners() {
        let kind = tcx.def_kind(def);
        if matches!(kind, rustc_hir::def::DefKind::Static { .. }) {
            continue;
        }
        let Ok((thir, root)) = tcx.thir_body(def) else { continue };
        let thir = thir.borrow();
        if thir.exprs.is_empty() {
            continue;
        }
        let cx = Cx { tcx, thir: &thir };
        let params: Vec<J> = thir
            .params
            .iter()
            .map(|p| {
                J::Obj(vec![
                    ("ty", J::s(ty_str(tcx, p.ty))),
                    ("pat", J::opt(p.pat.as_ref().map(|p| cx.pat(p)))),
                ])
            })
            .collect();
        out.push(J::Obj(vec![
            ("def", J::s(path_str(tcx, def.to_def_id()))),
            ("kind", J::s(format!("{:?}", kind))),
            ("sp", span_j(tcx, tcx.def_span(def))),
            ("params", J::Arr(params)),
            ("body", cx.expr(root)),
        ]));
    }
    J::Arr(out)
}

struct UserArgs<'b, 'a, 'tcx> {
    cx: &'b Cx<'a, 'tcx>,
    out: Vec<J>,
}

impl<'b, 'a, 'tcx> rustc_middle::thir::visit::Visitor<'a, 'tcx> for UserArgs<'b, 'a, 'tcx> {
    fn thir(&self) -> &'a Thir<'tcx> {
        self.cx.thir
    }
    fn visit_expr(&mut self, expr: &'a Expr<'tcx>) {
        if !expr.span.from_expansion() {
            self.out.push(self.cx.expr_ref(expr));
        } else {
            rustc_middle::thir::visit::walk_expr(self, expr);
        }
    }
}

struct Cx<'a, 'tcx> {
    tcx: TyCtxt<'tcx>,
    thir: &'a Thir<'tcx>,
}

impl<'a, 'tcx> Cx<'a, 'tcx> {
    fn var_name(&self, id: LocalVarId) -> String {
        self.tcx.hir_name(id.0).to_string()
    }

    fn var_id(&self, id: LocalVarId) -> J {
        J::n(id.0.local_id.as_u32())
    }

    fn block(&self, id: BlockId) -> J {
        let b = &self.thir[id];
        let stmts: Vec<J> = b.stmts.iter().map(|s| self.stmt(*s)).collect();
        J::Obj(vec![
            ("k", J::s("Block")),
            ("stmts", J::Arr(stmts)),
            ("expr", J::opt(b.expr.map(|e| self.expr(e)))),
            ("sp", span_j(self.tcx, b.span)),
        ])
    }

    fn stmt(&self, id: StmtId) -> J {
        match &self.thir[id].kind {
            StmtKind::Expr { expr, .. } => self.expr(*expr),
            StmtKind::Let { pattern, initializer, else_block, span, .. } => J::Obj(vec![
                ("k", J::s("LetStmt")),
                ("pat", self.pat(pattern)),
                ("init", J::opt(initializer.map(|e| self.expr(e)))),
                ("else", J::opt(else_block.map(|b| self.block(b)))),
                ("sp", span_j(self.tcx, *span)),
            ]),
        }
    }

    fn exprs(&self, ids: &[ExprId]) -> J {
        J::Arr(ids.iter().map(|e| self.expr(*e)).collect())
    }

    fn fn_info(&self, ty: ty::Ty<'tcx>, o: &mut Vec<(&'static str, J)>) {
        if let ty::FnDef(def_id, args) = ty.kind() {
            o.push(("fn", J::s(path_str(self.tcx, *def_id))));
            let ga: Vec<J> = args
                .iter()
                .map(|a| J::s(crate::util::disp_str(self.tcx, a)))
                .collect();
            o.push(("gargs", J::Arr(ga)));
            if let Some(tr) = self.tcx.trait_of_assoc(*def_id) {
                o.push(("trait", J::s(path_str(self.tcx, tr))));
            }
        }
    }

    fn expr(&self, id: ExprId) -> J {
        self.expr_ref(&self.thir[id])
    }

    fn expr_ref(&self, e: &Expr<'tcx>) -> J {
        let sp = span_j(self.tcx, e.span);
        if let Some(m) = crate::util::opaque_macro(e.span) {
            // collapse logging macro expansions; keep the user-written sub-expressions
            let mut col = UserArgs { cx: self, out: Vec::new() };
            rustc_middle::thir::visit::walk_expr(&mut col, e);
            return J::Obj(vec![
                ("k", J::s("Macro")),
                ("m", J::s(m)),
                ("args", J::Arr(col.out)),
                ("ty", J::s(ty_str(self.tcx, e.ty))),
                ("sp", sp),
            ]);
        }
        let ty = J::s(ty_str(self.tcx, e.ty));
        let mk = |k: &'static str, mut rest: Vec<(&'static str, J)>| {
            let mut o = vec![("k", J::s(k))];
            o.append(&mut rest);
            o.push(("ty", ty.clone()));
            o.push(("sp", sp.clone()));
            J::Obj(o)
        };
        match &e.kind {
            ExprKind::Scope { value, .. } => self.expr(*value),
            ExprKind::Use { source } => self.expr(*source),
            ExprKind::NeverToAny { source } => self.expr(*source),
            ExprKind::PlaceTypeAscription { source, .. }
            | ExprKind::ValueTypeAscription { source, .. } => self.expr(*source),
            ExprKind::If { cond, then, else_opt, .. } => mk(
                "If",
                vec![
                    ("cond", self.expr(*cond)),
                    ("then", self.expr(*then)),
                    ("else", J::opt(else_opt.map(|e| self.expr(e)))),
                ],
            ),
            ExprKind::Call { fun, args, ty: fty, .. } => {
                let mut o = Vec::new();
                self.fn_info(*fty, &mut o);
                if o.is_empty() {
                    o.push(("fun", self.expr(*fun)));
                }
                o.push(("args", self.exprs(args)));
                mk("Call", o)
            }
            ExprKind::Deref { arg } => mk("Deref", vec![("arg", self.expr(*arg))]),
            ExprKind::Binary { op, lhs, rhs } => mk(
                "Binary",
                vec![
                    ("op", J::s(format!("{:?}", op))),
                    ("lhs", self.expr(*lhs)),
                    ("rhs", self.expr(*rhs)),
                ],
            ),
            ExprKind::LogicalOp { op, lhs, rhs } => mk(
                "Logical",
                vec![
                    ("op", J::s(format!("{:?}", op))),
                    ("lhs", self.expr(*lhs)),
                    ("rhs", self.expr(*rhs)),
                ],
            ),
            ExprKind::Unary { op, arg } => {
                mk("Unary", vec![("op", J::s(format!("{:?}", op))), ("arg", self.expr(*arg))])
            }
            ExprKind::Cast { source } => mk("Cast", vec![("arg", self.expr(*source))]),
            ExprKind::PointerCoercion { source, cast, .. } => mk(
                "Coerce",
                vec![("cast", J::s(format!("{:?}", cast))), ("arg", self.expr(*source))],
            ),
            ExprKind::Loop { body } => mk("Loop", vec![("body", self.expr(*body))]),
            ExprKind::Let { expr, pat } => {
                mk("Let", vec![("expr", self.expr(*expr)), ("pat", self.pat(pat))])
            }
            ExprKind::Match { scrutinee, arms, match_source, .. } => {
                let arms: Vec<J> = arms
                    .iter()
                    .map(|a| {
                        let a = &self.thir[*a];
                        J::Obj(vec![
                            ("pat", self.pat(&a.pattern)),
                            ("guard", J::opt(a.guard.map(|g| self.expr(g)))),
                            ("body", self.expr(a.body)),
                            ("sp", span_j(self.tcx, a.span)),
                        ])
                    })
                    .collect();
                mk(
                    "Match",
                    vec![
                        ("src", J::s(format!("{:?}", match_source))),
                        ("scrut", self.expr(*scrutinee)),
                        ("arms", J::Arr(arms)),
                    ],
                )
            }
            ExprKind::Block { block } => self.block(*block),
            ExprKind::Assign { lhs, rhs } => {
                mk("Assign", vec![("lhs", self.expr(*lhs)), ("rhs", self.expr(*rhs))])
            }
            ExprKind::AssignOp { op, lhs, rhs } => mk(
                "AssignOp",
                vec![
                    ("op", J::s(format!("{:?}", op))),
                    ("lhs", self.expr(*lhs)),
                    ("rhs", self.expr(*rhs)),
                ],
            ),
            ExprKind::Field { lhs, variant_index, name } => {
                let lhs_ty = self.thir[*lhs].ty;
                let fname = match lhs_ty.kind() {
                    ty::Adt(adt, _) => adt
                        .variant(*variant_index)
                        .fields
                        .get(*name)
                        .map(|f| f.name.to_string())
                        .unwrap_or_else(|| name.as_usize().to_string()),
                    _ => name.as_usize().to_string(),
                };
                mk("Field", vec![("name", J::s(fname)), ("lhs", self.expr(*lhs))])
            }
            ExprKind::Index { lhs, index } => {
                mk("Index", vec![("lhs", self.expr(*lhs)), ("index", self.expr(*index))])
            }
            ExprKind::VarRef { id } => {
                mk("Var", vec![("name", J::s(self.var_name(*id))), ("id", self.var_id(*id))])
            }
            ExprKind::UpvarRef { var_hir_id, .. } => mk(
                "Var",
                vec![
                    ("name", J::s(self.var_name(*var_hir_id))),
                    ("id", self.var_id(*var_hir_id)),
                    ("upvar", J::Bool(true)),
                ],
            ),
            ExprKind::Borrow { borrow_kind, arg } => mk(
                "Borrow",
                vec![
                    ("mut", J::Bool(matches!(borrow_kind, rustc_middle::mir::BorrowKind::Mut { .. }))),
                    ("arg", self.expr(*arg)),
                ],
            ),
            ExprKind::RawBorrow { arg, .. } => mk("RawBorrow", vec![("arg", self.expr(*arg))]),
            ExprKind::Break { value, .. } => {
                mk("Break", vec![("value", J::opt(value.map(|v| self.expr(v))))])
            }
            ExprKind::Continue { .. } => mk("Continue", vec![]),
            ExprKind::Return { value } => {
                mk("Return", vec![("value", J::opt(value.map(|v| self.expr(v))))])
            }
            ExprKind::Repeat { value, .. } => mk("Repeat", vec![("value", self.expr(*value))]),
            ExprKind::Array { fields } => mk("Array", vec![("fields", self.exprs(fields))]),
            ExprKind::Tuple { fields } => mk("Tuple", vec![("fields", self.exprs(fields))]),
            ExprKind::Adt(adt) => {
                let variant = adt.adt_def.variant(adt.variant_index);
                let fields: Vec<J> = adt
                    .fields
                    .iter()
                    .map(|f| {
                        J::Obj(vec![
                            (
                                "name",
                                J::s(
                                    variant
                                        .fields
                                        .get(f.name)
                                        .map(|fd| fd.name.to_string())
                                        .unwrap_or_default(),
                                ),
                            ),
                            ("expr", self.expr(f.expr)),
                        ])
                    })
                    .collect();
                let base = match &adt.base {
                    AdtExprBase::Base(b) => self.expr(b.base),
                    _ => J::Null,
                };
                mk(
                    "Adt",
                    vec![
                        ("adt", J::s(path_str(self.tcx, adt.adt_def.did()))),
                        ("variant", J::s(variant.name.to_string())),
                        ("fields", J::Arr(fields)),
                        ("base", base),
                    ],
                )
            }
            ExprKind::Closure(c) => mk(
                "Closure",
                vec![
                    ("def", J::s(path_str(self.tcx, c.closure_id.to_def_id()))),
                    ("upvars", self.exprs(&c.upvars)),
                ],
            ),
            ExprKind::Literal { lit, neg } => {
                let v = match &lit.node {
                    rustc_ast::LitKind::Str(s, _) => J::s(s.to_string()),
                    rustc_ast::LitKind::ByteStr(b, _) => {
                        J::s(String::from_utf8_lossy(b.as_byte_str()).to_string())
                    }
                    rustc_ast::LitKind::Int(n, _) => {
                        let n = n.get() as i128;
                        J::Num(if *neg { -n } else { n })
                    }
                    rustc_ast::LitKind::Bool(b) => J::Bool(*b),
                    rustc_ast::LitKind::Char(c) => J::s(c.to_string()),
                    other => J::s(format!("{:?}", other)),
                };
                let lk = match &lit.node {
                    rustc_ast::LitKind::Str(..) => "str",
                    rustc_ast::LitKind::ByteStr(..) => "bytes",
                    rustc_ast::LitKind::Int(..) => "int",
                    rustc_ast::LitKind::Bool(..) => "bool",
                    rustc_ast::LitKind::Char(..) => "char",
                    _ => "other",
                };
                mk("Lit", vec![("lk", J::s(lk)), ("v", v)])
            }
            ExprKind::NonHirLiteral { lit, .. } => mk("Lit", vec![("lk", J::s("scalar")), ("v", J::s(format!("{:?}", lit)))]),
            ExprKind::ZstLiteral { .. } => {
                let mut o = Vec::new();
                self.fn_info(e.ty, &mut o);
                mk("Zst", o)
            }
            ExprKind::NamedConst { def_id, args, .. } => {
                let mut o = vec![("def", J::s(path_str(self.tcx, *def_id)))];
                // an associated const of a trait: which implementation is meant is in the generic arguments (args[0] = Self)
                if self.tcx.trait_of_assoc(*def_id).is_some() {
                    if let Some(a0) = args.iter().next() {
                        if let Some(t) = a0.as_type() {
                            o.push(("self_ty", J::s(ty_str(self.tcx, t))));
                        }
                    }
                }
                mk("Const", o)
            }
            ExprKind::ConstParam { def_id, .. } => {
                mk("ConstParam", vec![("def", J::s(path_str(self.tcx, *def_id)))])
            }
            ExprKind::StaticRef { def_id, .. } => {
                mk("Static", vec![("def", J::s(path_str(self.tcx, *def_id)))])
            }
            ExprKind::Yield { value } => mk("Yield", vec![("value", self.expr(*value))]),
            ExprKind::ByUse { expr, .. } => self.expr(*expr),
            ExprKind::Become { value } => mk("Become", vec![("value", self.expr(*value))]),
            other => {
                let name = format!("{:?}", other);
                let name = name.split(|c: char| !c.is_alphanumeric()).next().unwrap_or("").to_string();
                mk("Other", vec![("name", J::s(name))])
            }
        }
    }

    fn pat(&self, p: &Pat<'tcx>) -> J {
        let sp = span_j(self.tcx, p.span);
        let ty = J::s(ty_str(self.tcx, p.ty));
        let mk = |k: &'static str, mut rest: Vec<(&'static str, J)>| {
            let mut o = vec![("k", J::s(k))];
            o.append(&mut rest);
            o.push(("ty", ty.clone()));
            o.push(("sp", sp.clone()));
            if let Some(extra) = &p.extra {
                if let Some(d) = extra.expanded_const {
                    o.push(("cdef", J::s(path_str(self.tcx, d))));
                }
            }
            J::Obj(o)
        };
        let subs = |fps: &Vec<FieldPat<'tcx>>, names: Option<&ty::VariantDef>| -> J {
            J::Arr(
                fps.iter()
                    .map(|fp| {
                        let name = names
                            .and_then(|v| v.fields.get(fp.field))
                            .map(|f| f.name.to_string())
                            .unwrap_or_else(|| fp.field.as_usize().to_string());
                        J::Obj(vec![("field", J::s(name)), ("pat", self.pat(&fp.pattern))])
                    })
                    .collect(),
            )
        };
        match &p.kind {
            PatKind::Missing => mk("Missing", vec![]),
            PatKind::Wild => mk("Wild", vec![]),
            PatKind::Binding { name, var, subpattern, mode, .. } => mk(
                "Bind",
                vec![
                    ("name", J::s(name.to_string())),
                    ("id", self.var_id(*var)),
                    ("mode", J::s(format!("{:?}", mode))),
                    ("sub", J::opt(subpattern.as_ref().map(|s| self.pat(s)))),
                ],
            ),
            PatKind::Variant { adt_def, variant_index, subpatterns, .. } => {
                let v = adt_def.variant(*variant_index);
                mk(
                    "Variant",
                    vec![
                        ("adt", J::s(path_str(self.tcx, adt_def.did()))),
                        ("variant", J::s(v.name.to_string())),
                        ("sub", subs(subpatterns, Some(v))),
                    ],
                )
            }
            PatKind::Leaf { subpatterns } => {
                let v = match p.ty.kind() {
                    ty::Adt(adt, _) if !adt.is_enum() => Some(adt.non_enum_variant()),
                    _ => None,
                };
                let mut o = vec![("sub", subs(subpatterns, v))];
                if let ty::Adt(adt, _) = p.ty.kind() {
                    o.push(("adt", J::s(path_str(self.tcx, adt.did()))));
                }
                mk("Leaf", o)
            }
            PatKind::Deref { subpattern, .. } => mk("Deref", vec![("sub", self.pat(subpattern))]),
            PatKind::DerefPattern { subpattern, .. } => {
                mk("Deref", vec![("sub", self.pat(subpattern))])
            }
            PatKind::Constant { value } => {
                let mut o = vec![(
                    "v",
                    J::s(crate::util::disp_str(self.tcx, value)),
                )];
                if let Some(bytes) = value.try_to_raw_bytes(self.tcx) {
                    o.push(("bytes", J::s(String::from_utf8_lossy(bytes).to_string())));
                }
                mk("Const", o)
            }
            PatKind::Range(r) => mk("Range", vec![("v", J::s(format!("{:?}", r)))]),
            PatKind::Slice { prefix, slice, suffix } | PatKind::Array { prefix, slice, suffix } => {
                mk(
                    "Slice",
                    vec![
                        ("prefix", J::Arr(prefix.iter().map(|p| self.pat(p)).collect())),
                        ("slice", J::opt(slice.as_ref().map(|p| self.pat(p)))),
                        ("suffix", J::Arr(suffix.iter().map(|p| self.pat(p)).collect())),
                    ],
                )
            }
            PatKind::Or { pats } => {
                mk("Or", vec![("pats", J::Arr(pats.iter().map(|p| self.pat(p)).collect()))])
            }
            PatKind::Guard { subpattern, condition } => mk(
                "Guard",
                vec![("sub", self.pat(subpattern)), ("cond", self.expr(*condition))],
            ),
            PatKind::Never => mk("Never", vec![]),
            PatKind::Error(_) => mk("Error", vec![]),
        }
    }
}
