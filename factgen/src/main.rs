//! factgen — rustc_private driver that serialises type-checked facts (borrowck-time MIR,
//! THIR, items) of the crate being compiled into one JSON file.
//!
//! Used as RUSTC_WORKSPACE_WRAPPER: argv = [factgen, rustc, <rustc args>...].
//! Output: $FACTGEN_OUT/<crate>-<kind>-<pid>.json (single write per process).
#![feature(rustc_private)]
#![feature(box_patterns)]
#![allow(clippy::all)]

extern crate rustc_abi;
extern crate rustc_ast;
extern crate rustc_borrowck;
extern crate rustc_data_structures;
extern crate rustc_driver;
extern crate rustc_hir;
extern crate rustc_interface;
extern crate rustc_middle;
extern crate rustc_session;
extern crate rustc_span;

mod items;
mod json;
mod mir;
mod thir;
mod util;

use json::J;
use rustc_driver::Compilation;
use rustc_interface::interface;
use rustc_middle::ty::TyCtxt;
use std::sync::Mutex;

pub static MIR_BODIES: Mutex<Vec<String>> = Mutex::new(Vec::new());

struct Cb;

impl rustc_driver::Callbacks for Cb {
    fn config(&mut self, config: &mut interface::Config) {
        config.opts.unstable_opts.no_steal_thir = true;
        config.override_queries = Some(|_sess, providers| {
            providers.queries.mir_borrowck = |tcx, def| {
                mir::capture(tcx, def);
                let mut p = rustc_middle::util::Providers::default();
                rustc_borrowck::provide(&mut p.queries);
                (p.queries.mir_borrowck)(tcx, def)
            };
        });
    }

    fn after_analysis<'tcx>(
        &mut self,
        _compiler: &interface::Compiler,
        tcx: TyCtxt<'tcx>,
    ) -> Compilation {
        let out_dir = match std::env::var("FACTGEN_OUT") {
            Ok(d) => d,
            Err(_) => return Compilation::Continue,
        };
        let krate = tcx.crate_name(rustc_hir::def_id::LOCAL_CRATE).to_string();
        if krate.starts_with("build_script") {
            return Compilation::Continue;
        }
        let kind = format!("{:?}", tcx.crate_types()).replace(|c: char| !c.is_alphanumeric(), "");
        let thir = thir::dump_all(tcx);
        let items = items::dump_all(tcx);
        let bodies = std::mem::take(&mut *MIR_BODIES.lock().unwrap());
        let mut out = String::with_capacity(1 << 24);
        out.push_str("{\"crate\":");
        J::s(krate.clone()).write(&mut out);
        out.push_str(",\"kind\":");
        J::s(kind.clone()).write(&mut out);
        out.push_str(",\"features\":");
        let feats: Vec<J> = std::env::args()
            .filter_map(|a| a.strip_prefix("feature=\"").map(|r| r.trim_end_matches('"').to_string()))
            .map(J::s)
            .collect();
        J::Arr(feats).write(&mut out);
        out.push_str(",\"items\":");
        items.write(&mut out);
        out.push_str(",\"extern_debug\":");
        items::extern_debug_impls(tcx).write(&mut out);
        out.push_str(",\"extern_panics\":");
        items::extern_panics(tcx).write(&mut out);
        out.push_str(",\"thir\":");
        thir.write(&mut out);
        out.push_str(",\"mir\":[");
        for (i, b) in bodies.iter().enumerate() {
            if i > 0 {
                out.push(',');
            }
            out.push_str(b);
        }
        out.push_str("]}");
        let path = format!("{}/{}-{}-{}.json", out_dir, krate, kind, std::process::id());
        std::fs::write(&path, out).expect("factgen: cannot write fact file");
        Compilation::Continue
    }
}

fn main() -> std::process::ExitCode {
    let mut args: Vec<String> = std::env::args().collect();
    // RUSTC_WORKSPACE_WRAPPER passes the real rustc path as argv[1]
    if args.len() > 1 && (args[1].ends_with("rustc") || args[1].contains("/rustc")) {
        args.remove(1);
    }
    rustc_driver::install_ice_hook("factgen", |_| ());
    let code = rustc_driver::catch_with_exit_code(|| {
        rustc_driver::run_compiler(&args, &mut Cb);
    });
    code
}
