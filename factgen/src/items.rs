//! Item-level facts: ADTs, impls, fn signatures, consts.

use crate::json::J;
use crate::util::{path_str, span_j, ty_str};
use rustc_hir::def::DefKind;
use rustc_middle::ty::{self, TyCtxt};

pub fn dump_all<'tcx>(tcx: TyCtxt<'tcx>) -> J {
    let mut out = Vec::new();
    for def in tcx.hir_crate_items(()).definitions() {
        let did = def.to_def_id();
        let kind = tcx.def_kind(did);
        let mut o: Vec<(&'static str, J)> = vec![
            ("def", J::s(path_str(tcx, did))),
            ("kind", J::s(format!("{:?}", kind).split([' ', '{', '(']).next().unwrap_or("").to_string())),
            ("sp", span_j(tcx, tcx.def_span(did))),
        ];
        match kind {
            DefKind::Struct | DefKind::Enum | DefKind::Union => {
                let adt = tcx.adt_def(did);
                let variants: Vec<J> = adt
                    .variants()
                    .iter()
                    .map(|v| {
                        let fields: Vec<J> = v
                            .fields
                            .iter()
                            .map(|f| {
                                J::Obj(vec![
                                    ("name", J::s(f.name.to_string())),
                                    ("ty", J::s(ty_str(tcx, tcx.type_of(f.did).instantiate_identity().skip_norm_wip()))),
                                    ("vis", J::s(format!("{:?}", f.vis))),
                                ])
                            })
                            .collect();
                        J::Obj(vec![("name", J::s(v.name.to_string())), ("fields", J::Arr(fields))])
                    })
                    .collect();
                o.push(("variants", J::Arr(variants)));
                o.push(("vis", J::s(format!("{:?}", tcx.visibility(did)))));
            }
            DefKind::Impl { of_trait } => {
                let self_ty = tcx.type_of(did).instantiate_identity().skip_norm_wip();
                o.push(("self", J::s(ty_str(tcx, self_ty))));
                if let ty::Adt(adt, _) = self_ty.kind() {
                    o.push(("self_adt", J::s(path_str(tcx, adt.did()))));
                }
                if of_trait {
                    let tr = tcx.impl_trait_ref(did).instantiate_identity().skip_norm_wip();
                    o.push(("trait", J::s(path_str(tcx, tr.def_id))));
                    o.push((
                        "trait_ref",
                        J::s(crate::util::disp_str(tcx, tr)),
                    ));
                }
                o.push(("derived", J::Bool(tcx.is_automatically_derived(did))));
                let assoc: Vec<J> = tcx
                    .associated_items(did)
                    .in_definition_order()
                    .map(|a| J::s(path_str(tcx, a.def_id)))
                    .collect();
                o.push(("assoc", J::Arr(assoc)));
            }
            DefKind::Fn | DefKind::AssocFn => {
                let sig = tcx.fn_sig(did).instantiate_identity().skip_norm_wip();
                o.push(("sig", J::s(crate::util::disp_str(tcx, sig))));
                let inputs: Vec<J> = sig.skip_binder().inputs().iter().map(|t| J::s(ty_str(tcx, *t))).collect();
                o.push(("inputs", J::Arr(inputs)));
                o.push(("output", J::s(ty_str(tcx, sig.skip_binder().output()))));
                o.push(("vis", J::s(format!("{:?}", tcx.visibility(did)))));
                o.push(("async", J::Bool(tcx.asyncness(did).is_async())));
                let names: Vec<J> = tcx
                    .fn_arg_idents(did)
                    .iter()
                    .map(|i| J::opt(i.map(|i| J::s(i.name.to_string()))))
                    .collect();
                o.push(("params", J::Arr(names)));
                if let Some(imp) = tcx.impl_of_assoc(did) {
                    o.push(("impl_self", J::s(ty_str(tcx, tcx.type_of(imp).instantiate_identity().skip_norm_wip()))));
                    if tcx.impl_opt_trait_ref(imp).is_some() {
                        let tr = tcx.impl_trait_ref(imp).instantiate_identity().skip_norm_wip();
                        o.push(("impl_trait", J::s(path_str(tcx, tr.def_id))));
                    }
                }
                if let Some(tr) = tcx.trait_of_assoc(did) {
                    o.push(("in_trait", J::s(path_str(tcx, tr))));
                    o.push(("has_default", J::Bool(tcx.defaultness(did).has_value())));
                }
            }
            DefKind::Const { .. } | DefKind::AssocConst { .. } => {
                o.push(("ty", J::s(ty_str(tcx, tcx.type_of(did).instantiate_identity().skip_norm_wip()))));
                if let Some(imp) = tcx.impl_of_assoc(did) {
                    o.push(("impl_self", J::s(ty_str(tcx, tcx.type_of(imp).instantiate_identity().skip_norm_wip()))));
                    if tcx.impl_opt_trait_ref(imp).is_some() {
                        let tr = tcx.impl_trait_ref(imp).instantiate_identity().skip_norm_wip();
                        o.push(("impl_trait", J::s(path_str(tcx, tr.def_id))));
                    }
                }
            }
            DefKind::Trait => {
                let assoc: Vec<J> = tcx
                    .associated_items(did)
                    .in_definition_order()
                    .map(|a| {
                        J::Obj(vec![
                            ("def", J::s(path_str(tcx, a.def_id))),
                            ("has_default", J::Bool(a.defaultness(tcx).has_value())),
                        ])
                    })
                    .collect();
                o.push(("assoc", J::Arr(assoc)));
            }
            DefKind::Static { .. } | DefKind::TyAlias | DefKind::Mod => {}
            _ => continue,
        }
        out.push(J::Obj(o));
    }
    J::Arr(out)
}


/// Explicit panic sites (`panic!`, `todo!`, `unimplemented!`, `unreachable!`) in the available MIR of every impl
/// of the traits named in $FACTGEN_EXTERN_TRAITS (dependency crates: generic impls carry MIR in metadata).
pub fn extern_panics<'tcx>(tcx: TyCtxt<'tcx>) -> J {
    use rustc_middle::mir::{Const, Operand, TerminatorKind};
    let wanted = std::env::var("FACTGEN_EXTERN_TRAITS")
        .unwrap_or_else(|_| "rpsl::expr::eval::Evaluate,rpsl::expr::eval::Resolver".to_string());
    let wanted: Vec<&str> = wanted.split(',').filter(|s| !s.is_empty()).collect();
    let mut out = Vec::new();
    let mut analysed = Vec::new();
    let mut opaque = Vec::new();
    for tr in tcx.all_traits_including_private() {
        let name = path_str(tcx, tr);
        if !wanted.contains(&name.as_str()) {
            continue;
        }
        for imp in tcx.all_impls(tr) {
            if imp.is_local() {
                continue;
            }
            for item in tcx.associated_items(imp).in_definition_order() {
                if !matches!(item.kind, ty::AssocKind::Fn { .. }) {
                    continue;
                }
                let did = item.def_id;
                let fname = path_str(tcx, did);
                if !tcx.is_mir_available(did) {
                    opaque.push(J::s(fname));
                    continue;
                }
                analysed.push(J::s(fname.clone()));
                let body = tcx.optimized_mir(did);
                for bb in body.basic_blocks.iter() {
                    let term = bb.terminator();
                    if let TerminatorKind::Call { func, args, .. } = &term.kind {
                        if let Some((callee, _)) = func.const_fn_def() {
                            let cname = path_str(tcx, callee);
                            if cname.starts_with("core::panicking::") || cname.starts_with("std::rt::begin_panic") {
                                let mut msg = String::new();
                                for a in args.iter() {
                                    if let Operand::Constant(c) = &a.node {
                                        if let Const::Val(..) | Const::Unevaluated(..) | Const::Ty(..) = c.const_ {
                                            msg = crate::util::disp_str(tcx, c.const_);
                                        }
                                    }
                                }
                                out.push(J::Obj(vec![
                                    ("fn", J::s(fname.clone())),
                                    ("trait", J::s(name.clone())),
                                    ("panic_fn", J::s(cname)),
                                    ("msg", J::s(msg)),
                                    ("sp", span_j(tcx, term.source_info.span)),
                                    ("snippet", J::s(tcx.sess.source_map().span_to_snippet(term.source_info.span.source_callsite()).unwrap_or_default())),
                                    ("krate", J::s(tcx.crate_name(did.krate).to_string())),
                                ]));
                            }
                        }
                    }
                }
            }
        }
    }
    J::Obj(vec![("sites", J::Arr(out)), ("analysed", J::Arr(analysed)), ("opaque", J::Arr(opaque))])
}


/// Debug impls of ADTs defined in the crates named in $FACTGEN_DEBUG_CRATES: is the impl `#[derive]`d or hand-written?
pub fn extern_debug_impls<'tcx>(tcx: TyCtxt<'tcx>) -> J {
    let wanted = std::env::var("FACTGEN_DEBUG_CRATES")
        .unwrap_or_else(|_| "rustls_pki_types,rustls_pemfile,rustls".to_string());
    let wanted: Vec<&str> = wanted.split(',').collect();
    let mut out = Vec::new();
    let Some(dbg) = tcx.get_diagnostic_item(rustc_span::sym::Debug) else { return J::Arr(out) };
    for imp in tcx.all_impls(dbg) {
        if imp.is_local() {
            continue;
        }
        let self_ty = tcx.type_of(imp).instantiate_identity().skip_norm_wip();
        if let ty::Adt(adt, _) = self_ty.kind() {
            let krate = tcx.crate_name(adt.did().krate).to_string();
            if !wanted.contains(&krate.as_str()) {
                continue;
            }
            let fields: Vec<J> = adt
                .all_fields()
                .map(|f| J::s(ty_str(tcx, tcx.type_of(f.did).instantiate_identity().skip_norm_wip())))
                .collect();
            out.push(J::Obj(vec![
                ("adt", J::s(path_str(tcx, adt.did()))),
                ("krate", J::s(krate)),
                ("derived", J::Bool(tcx.is_automatically_derived(imp))),
                ("field_tys", J::Arr(fields)),
            ]));
        }
    }
    J::Arr(out)
}
