//! Minimal JSON value + writer (no dependencies).

#[derive(Clone, Debug)]
pub enum J {
    Null,
    Bool(bool),
    Num(i128),
    Str(String),
    Arr(Vec<J>),
    Obj(Vec<(&'static str, J)>),
}

impl J {
    pub fn s<S: Into<String>>(s: S) -> J {
        J::Str(s.into())
    }
    pub fn n<N: TryInto<i128>>(n: N) -> J {
        match n.try_into() {
            Ok(v) => J::Num(v),
            Err(_) => J::Null,
        }
    }
    pub fn opt(o: Option<J>) -> J {
        o.unwrap_or(J::Null)
    }
    pub fn write(&self, out: &mut String) {
        match self {
            J::Null => out.push_str("null"),
            J::Bool(b) => out.push_str(if *b { "true" } else { "false" }),
            J::Num(n) => out.push_str(&n.to_string()),
            J::Str(s) => write_str(s, out),
            J::Arr(a) => {
                out.push('[');
                for (i, v) in a.iter().enumerate() {
                    if i > 0 {
                        out.push(',');
                    }
                    v.write(out);
                }
                out.push(']');
            }
            J::Obj(o) => {
                out.push('{');
                let mut first = true;
                for (k, v) in o.iter() {
                    if matches!(v, J::Null) {
                        continue;
                    }
                    if !first {
                        out.push(',');
                    }
                    first = false;
                    write_str(k, out);
                    out.push(':');
                    v.write(out);
                }
                out.push('}');
            }
        }
    }
}

fn write_str(s: &str, out: &mut String) {
    out.push('"');
    for c in s.chars() {
        match c {
            '"' => out.push_str("\\\""),
            '\\' => out.push_str("\\\\"),
            '\n' => out.push_str("\\n"),
            '\r' => out.push_str("\\r"),
            '\t' => out.push_str("\\t"),
            c if (c as u32) < 0x20 => out.push_str(&format!("\\u{:04x}", c as u32)),
            c => out.push(c),
        }
    }
    out.push('"');
}
