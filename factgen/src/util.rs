use crate::json::J;
use rustc_middle::ty::{Ty, TyCtxt};
use rustc_span::{ExpnKind, Span};

fn fix_crate<'tcx>(tcx: TyCtxt<'tcx>, s: String) -> String {
    if !s.contains("crate::") {
        return s;
    }
    let krate = tcx.crate_name(rustc_hir::def_id::LOCAL_CRATE).to_string();
    let mut out = String::with_capacity(s.len() + 16);
    let bytes = s.as_bytes();
    let mut i = 0;
    while i < bytes.len() {
        if s[i..].starts_with("crate::")
            && (i == 0 || !(bytes[i - 1].is_ascii_alphanumeric() || bytes[i - 1] == b'_'))
        {
            out.push_str(&krate);
            out.push_str("::");
            i += 7;
        } else {
            let ch = s[i..].chars().next().unwrap();
            out.push(ch);
            i += ch.len_utf8();
        }
    }
    out
}

pub fn ty_str<'tcx>(tcx: TyCtxt<'tcx>, ty: Ty<'tcx>) -> String {
    let s = rustc_middle::ty::print::with_crate_prefix!(
        rustc_middle::ty::print::with_no_trimmed_paths!(ty.to_string())
    );
    fix_crate(tcx, s)
}

pub fn disp_str<'tcx, T: std::fmt::Display>(tcx: TyCtxt<'tcx>, t: T) -> String {
    let s = rustc_middle::ty::print::with_crate_prefix!(
        rustc_middle::ty::print::with_no_trimmed_paths!(t.to_string())
    );
    fix_crate(tcx, s)
}

pub fn path_str<'tcx>(tcx: TyCtxt<'tcx>, def: rustc_hir::def_id::DefId) -> String {
    let s = rustc_middle::ty::print::with_crate_prefix!(
        rustc_middle::ty::print::with_no_trimmed_paths!(tcx.def_path_str(def))
    );
    fix_crate(tcx, s)
}

/// Span as a compact object:
///   f,l,c,el,ec : user-visible position (callsite of the outermost macro, if any)
///   m  : outermost macro name when the span comes from a macro expansion
///   d  : innermost desugaring kind (QuestionMark, Await, ForLoop, Async, ...)
pub fn span_j<'tcx>(tcx: TyCtxt<'tcx>, span: Span) -> J {
    if span.is_dummy() {
        return J::Null;
    }
    let sm = tcx.sess.source_map();
    let mut mac: Option<String> = None;
    let mut desugar: Option<String> = None;
    if span.from_expansion() {
        // innermost expansion first
        let mut s = span;
        loop {
            let data = s.ctxt().outer_expn_data();
            if data.is_root() {
                break;
            }
            match data.kind {
                ExpnKind::Macro(_, name) => {
                    mac = Some(name.to_string());
                }
                ExpnKind::Desugaring(k) => {
                    if desugar.is_none() {
                        desugar = Some(format!("{:?}", k));
                    }
                }
                _ => {}
            }
            s = data.call_site;
            if !s.from_expansion() {
                break;
            }
        }
    }
    let user = span.source_callsite();
    let lo = sm.lookup_char_pos(user.lo());
    let hi = sm.lookup_char_pos(user.hi());
    let file = format!("{}", lo.file.name.prefer_local_unconditionally());
    J::Obj(vec![
        ("f", J::s(file)),
        ("l", J::n(lo.line)),
        ("c", J::n(lo.col.0 + 1)),
        ("el", J::n(hi.line)),
        ("ec", J::n(hi.col.0 + 1)),
        ("m", J::opt(mac.map(J::s))),
        ("d", J::opt(desugar.map(J::s))),
    ])
}

const OPAQUE: &[&str] = &[
    "trace", "debug", "info", "warn", "error", "event", "tracing::trace", "tracing::debug", "tracing::info",
    "tracing::warn", "tracing::error", "tracing::event", "log::trace", "log::debug", "log::info",
    "log::warn", "log::error",
];

/// Name of the outermost macro if the span comes from a logging-event macro expansion.
pub fn opaque_macro(span: Span) -> Option<String> {
    if !span.from_expansion() {
        return None;
    }
    let mut mac: Option<String> = None;
    let mut s = span;
    loop {
        let data = s.ctxt().outer_expn_data();
        if data.is_root() {
            break;
        }
        if let ExpnKind::Macro(_, name) = data.kind {
            mac = Some(name.to_string());
        }
        s = data.call_site;
        if !s.from_expansion() {
            break;
        }
    }
    match mac {
        Some(m) if OPAQUE.contains(&m.as_str()) => Some(m),
        _ => None,
    }
}
