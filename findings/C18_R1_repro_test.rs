// One-off triage reproduction of the C18/R1 known finding (not a registered check).
// Appended to netconf/src/session.rs in a scratch copy; fails on the real code:
//   'future B did not complete: its reply was consumed by the dropped future A'
#[cfg(test)]
mod c18_repro {
    use super::*;
    use crate::message::rpc::operation::{Builder as _, GetConfig, Opaque, Datastore};
    use crate::transport::{RecvHandle, SendHandle, Transport};
    use async_trait::async_trait;
    use bytes::Bytes;
    use std::sync::Arc;
    use tokio::sync::{mpsc, Notify};

    #[derive(Debug)]
    struct Tx { gate: Arc<Notify>, sent: usize }
    #[derive(Debug)]
    struct Rx { q: mpsc::UnboundedReceiver<Bytes> }
    struct Mock { tx: Tx, rx: Rx }
    impl Transport for Mock {
        type SendHandle = Tx;
        type RecvHandle = Rx;
        fn split(self) -> (Tx, Rx) { (self.tx, self.rx) }
    }
    #[async_trait]
    impl SendHandle for Tx {
        async fn send(&mut self, _data: Bytes) -> Result<(), Error> {
            self.sent += 1;
            // hello, request 1 and 2 go out at once; the 3rd request's send is slow (holds `requests` lock in rpc())
            if self.sent >= 4 { self.gate.notified().await; }
            Ok(())
        }
    }
    #[async_trait]
    impl RecvHandle for Rx {
        async fn recv(&mut self) -> Result<Bytes, Error> {
            self.q.recv().await.ok_or(Error::DequeueMessage)
        }
    }
    fn reply(id: usize) -> Bytes {
        Bytes::from(format!(r#"<rpc-reply xmlns="urn:ietf:params:xml:ns:netconf:base:1.0" message-id="{id}"><data><x{id}/></data></rpc-reply>]]>]]>"#))
    }

    #[tokio::test(flavor = "current_thread")]
    async fn dropped_reader_loses_other_callers_reply() {
        let (qtx, qrx) = mpsc::unbounded_channel();
        let gate = Arc::new(Notify::new());
        qtx.send(Bytes::from(r#"<hello xmlns="urn:ietf:params:xml:ns:netconf:base:1.0"><capabilities><capability>urn:ietf:params:netconf:base:1.0</capability></capabilities><session-id>4</session-id></hello>]]>]]>"#)).unwrap();
        let mut session = Session::new(Mock { tx: Tx { gate: gate.clone(), sent: 0 }, rx: Rx { q: qrx } }).await.unwrap();
        let fut_a = session.rpc::<GetConfig<Opaque>, _>(|b| b.source(Datastore::Running)?.finish()).await.unwrap();
        let fut_b = session.rpc::<GetConfig<Opaque>, _>(|b| b.source(Datastore::Running)?.finish()).await.unwrap();
        let mut fut_a = Box::pin(fut_a);
        // A becomes the reader: takes the rx lock, finds nothing ready, waits for the transport
        assert!(tokio::time::timeout(std::time::Duration::from_millis(20), &mut fut_a).await.is_err());
        // third request: its send blocks, so rpc() keeps the `requests` lock
        let third = tokio::spawn(async move {
            let _f = session.rpc::<GetConfig<Opaque>, _>(|b| b.source(Datastore::Running)?.finish()).await;
            session
        });
        tokio::task::yield_now().await; // let `third` take the requests lock and block in send
        // reply for B arrives while A is the reader
        qtx.send(reply(2)).unwrap();
        // A reads reply 2, then waits for the `requests` lock (held by third) with the reply in hand
        let timed_out = tokio::time::timeout(std::time::Duration::from_millis(50), &mut fut_a).await;
        assert!(timed_out.is_err());
        drop(fut_a); // caller abandons A (timeout)
        gate.notify_one(); // slow send completes, lock released
        let _session = third.await.unwrap();
        // B's reply was already taken off the transport by A: B never completes
        let res = tokio::time::timeout(std::time::Duration::from_millis(500), fut_b).await;
        assert!(res.is_ok(), "future B did not complete: its reply was consumed by the dropped future A");
    }
}
