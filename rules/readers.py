"""Extraction of XML reader loops: `loop { match reader.read_resolved_event()? { arms } }` (THIR).  Shared by C13, C14, C16."""
from vlib import facts as F, thir as T, xmlgrammar as X

EVENT_ADT = "quick_xml::events::Event"
CRATES = ("netconf", "bgpfu_junos_agent")


_PREDS = {}


def load_predicates(fx):
    """Workspace functions that are pure predicates — `fn p(..) -> bool { <one expression> }` — are expanded where an arm's guard calls
    them, so that a guard moved into such a helper (`is_base_element(ns, &tag, b"ok")`) reads like the guard written out."""
    _PREDS.clear()
    for it in fx.item_list:
        if it.get("kind") in ("Fn", "AssocFn") and it.get("output") == "bool" and it.get("crate") in CRATES and not it.get("async"):
            t = fx.thir.get(it["qdef"])
            if t is None:
                continue
            body = T.user_body(t)
            while isinstance(body, dict) and body.get("k") in ("Block", "Scope") and not body.get("stmts") and body.get("expr") is not None:
                body = body["expr"]
            if not isinstance(body, dict) or body.get("k") in ("Block", "Loop", "Match"):
                continue
            names = []
            for prm in t.get("params") or []:
                q = prm.get("pat") or {}
                while q.get("k") == "Deref":
                    q = q["sub"]
                names.append(q.get("name") if q.get("k") == "Bind" else None)
            if None in names:
                continue
            _PREDS[it["qdef"]] = (names, body)


def _subst(n, env):
    if isinstance(n, dict):
        if n.get("k") == "Var" and n.get("name") in env:
            return env[n["name"]]
        return {k: _subst(v, env) for k, v in n.items()}
    if isinstance(n, list):
        return [_subst(v, env) for v in n]
    return n


def expand_predicates(e, depth=0):
    """The guard with calls to workspace predicate functions replaced by their bodies (arguments substituted)."""
    if not _PREDS or e is None or depth > 3:
        return e
    if isinstance(e, list):
        return [expand_predicates(x, depth) for x in e]
    if not isinstance(e, dict):
        return e
    if e.get("k") == "Call" and e.get("fn"):
        key = T.strip_generics(e["fn"])
        hit = _PREDS.get(e["fn"]) or _PREDS.get(key)
        if hit and len(hit[0]) == len(e.get("args") or []):
            env = {nm: expand_predicates(a, depth) for nm, a in zip(hit[0], e["args"])}
            return expand_predicates(_subst(hit[1], env), depth + 1)
    return {k: (expand_predicates(v, depth) if isinstance(v, (dict, list)) else v) for k, v in e.items()}


class Arm:
    def __init__(self, a, lets=None):
        self.lets = lets or {}
        self.node = a
        self.sp = a.get("sp") or {}
        p = a["pat"]
        while p.get("k") == "Deref":
            p = p["sub"]
        self.ns_pat = None      # 'any' | 'bound-bind' | 'bound-const:<name>' | 'other'
        self.ns_const = None
        self.ns_bind = None
        self.kinds = set()      # event variants matched, or {'*'} for a catch-all
        self.tag_bind = None
        self.catch_all = False
        if p.get("k") == "Leaf" and len(p.get("sub", [])) == 2:
            nsp, evp = p["sub"][0]["pat"], p["sub"][1]["pat"]
            self._ns(nsp)
            self._ev(evp)
        elif (p.get("k") == "Variant" and str(p.get("adt", "")).endswith("events::Event")) or p.get("k") in ("Bind", "Wild", "Or"):
            # a match on the bare event (read_event): no namespace component
            self.ns_pat = "any"
            self._ev(p)
        else:
            self.ns_pat = "other"
            self.kinds = {"?"}
        self.guard = expand_predicates(a.get("guard"))
        self.gtext = X.ntext(self.guard) if self.guard is not None else ""
        self.name = None
        self.name_via = None
        self._name()
        self.extra_guards = [c for c in conjuncts(self.guard) if not self._is_name_or_ns(c)] if self.guard is not None else []

    def _ns(self, p):
        while p.get("k") == "Deref":
            p = p["sub"]
        k = p.get("k")
        if k == "Wild":
            self.ns_pat = "any"
        elif k == "Bind" and not p.get("sub"):
            self.ns_pat = "any-bind"
            self.ns_bind = p["name"]
        elif k == "Variant" and p["variant"] == "Bound":
            inner = p["sub"][0]["pat"] if p.get("sub") else {}
            while inner.get("k") == "Deref":
                inner = inner["sub"]
            if inner.get("k") == "Bind":
                self.ns_pat = "bound-bind"
                self.ns_bind = inner["name"]
            elif inner.get("cdef"):
                self.ns_pat = "bound-const"
                self.ns_const = inner["cdef"]
            else:
                self.ns_pat = "bound-other"
        else:
            self.ns_pat = "other"

    def _ev(self, p):
        while p.get("k") == "Deref":
            p = p["sub"]
        k = p.get("k")
        if k == "Variant" and p["adt"].endswith("events::Event"):
            self.kinds = {p["variant"]}
            for s in p.get("sub", []):
                q = s["pat"]
                while q.get("k") == "Deref":
                    q = q["sub"]
                if q.get("k") == "Bind":
                    self.tag_bind = q["name"]
        elif k == "Or":
            for q in p["pats"]:
                a = Arm.__new__(Arm)
                a.kinds = set()
                a.tag_bind = None
                Arm._ev(a, q)
                self.kinds |= a.kinds
                self.tag_bind = self.tag_bind or a.tag_bind
        elif k in ("Wild", "Bind"):
            self.kinds = {"*"}
            self.catch_all = True
        else:
            self.kinds = {"?"}

    def _name(self):
        if self.guard is None:
            return
        for c in conjuncts(self.guard):
            t = X.ntext(c)
            # tag.local_name().as_ref() == b"name"   |   tag.name().as_ref() == b"pfx:name"
            for via, frag in (("local_name", "AsRef::as_ref(BytesStart::local_name(%s))" % (self.tag_bind or "tag")),
                              ("name", "AsRef::as_ref(BytesStart::name(%s))" % (self.tag_bind or "tag"))):
                if frag in t and "PartialEq::eq(" in t:
                    lits = [n for n in T.walk(c) if n.get("k") == "Lit" and n.get("lk") in ("bytes", "str")]
                    consts = [n for n in T.walk(c) if n.get("k") == "Const"]
                    if not lits and not consts and "str::as_bytes(" not in t:
                        # the name may have been bound to a local first (`let root_name = Self::TAG_NAME.as_bytes();`)
                        for v in [n for n in T.walk(c) if n.get("k") == "Var" and n.get("name") != (self.tag_bind or "tag") and n.get("name") in self.lets]:
                            init = self.lets[v["name"]]
                            lits = [n for n in T.walk(init) if n.get("k") == "Lit" and n.get("lk") in ("bytes", "str")]
                            consts = [n for n in T.walk(init) if n.get("k") == "Const"]
                            t = X.ntext(init) if "str::as_bytes(" in X.ntext(init) and not lits and not consts else t
                    if lits:
                        self.name = lits[0]["v"]
                    elif consts:
                        self.name = "{%s}" % T.short(consts[0]["def"], 2)
                    elif "str::as_bytes(" in t:
                        self.name = "{%s}" % t.split("str::as_bytes(")[1].split(")")[0]
                    self.name_via = via

    def _is_name_or_ns(self, c):
        t = X.ntext(c)
        if "BytesStart::local_name(" in t or "BytesStart::name(" in t:
            return True
        if self.ns_bind and self._is_ns_eq(c):
            return True
        return False

    def ns_checked(self):
        """Is the element's namespace constrained (pattern const or guard `ns == CONST`)?"""
        if self.ns_pat == "bound-const":
            return self.ns_const
        if self.ns_pat == "bound-bind" and self.guard is not None:
            for c in conjuncts(self.guard):
                if self._is_ns_eq(c):
                    consts = [n for n in T.walk(c) if n.get("k") == "Const"]
                    if consts:
                        return consts[0]["def"]
        return None

    def _is_ns_eq(self, c):
        """`ns == CONST` or `CONST == ns` (either operand order, method or operator form)."""
        e = T.peel(c)
        ops = None
        if e.get("k") == "Call" and T.short(e.get("fn", ""), 2) in ("PartialEq::eq",) and len(e.get("args", [])) == 2:
            ops = [T.peel(a) for a in e["args"]]
        elif e.get("k") == "Binary" and e.get("op") == "Eq":
            ops = [T.peel(e["lhs"]), T.peel(e["rhs"])]
        if not ops or not self.ns_bind:
            return False
        return any(o.get("k") == "Var" and o.get("name") == self.ns_bind for o in ops)

    def is_element(self):
        return bool(self.kinds & {"Start", "Empty"}) and not self.catch_all

    def body_text(self):
        return X.ntext(self.node["body"])

    def describe(self):
        return "(%s, %s%s)%s" % (self.ns_pat if not self.ns_const else T.short(self.ns_const, 1), "|".join(sorted(self.kinds)),
                                 (" <%s>" % self.name) if self.name else "", (" if " + " && ".join(X.ntext(g) for g in self.extra_guards)) if self.extra_guards else "")


def conjuncts(e):
    if e is None:
        return []
    e = T.peel(e)
    if e.get("k") == "Logical" and e["op"] == "And":
        return conjuncts(e["lhs"]) + conjuncts(e["rhs"])
    return [e]


class Loop:
    def __init__(self, fn, thir, match, depth, parent_arm):
        self.fn = fn
        self.thir = thir
        self.match = match
        self.depth = depth
        self.parent_arm = parent_arm
        lets = {}
        for st in T.walk(T.user_body(thir)):
            if st.get("k") == "LetStmt" and st.get("init") is not None and st.get("pat", {}).get("k") == "Bind":
                lets.setdefault(st["pat"]["name"], st["init"])
        self.arms = [Arm(a, lets) for a in match["arms"]]
        self.sp = match.get("sp") or {}

    def element_names(self):
        return sorted({a.name for a in self.arms if a.is_element() and a.name})

    def loop_is_result(self):
        """Is the loop this match sits in the value the function returns (its tail expression)?  Then `break Err(e)` is `return Err(e)`."""
        if self.depth != 0:
            return False
        e = T.user_body(self.thir)
        for _ in range(12):
            if not isinstance(e, dict):
                return False
            k = e.get("k")
            if k in ("Block", "Scope") and e.get("expr") is not None:
                e = e["expr"]
            elif k in ("Use", "NeverToAny", "Coerce", "Cast") and e.get("arg") is not None:
                e = e["arg"]
            elif k == "Loop":
                return any(n is self.match or (n.get("k") == "Match" and n.get("sp") and n.get("sp") == self.match.get("sp")) for n in T.walk(e["body"]))
            else:
                return False
        return False

    def arm_fails(self, a):
        """The arm ends the reading with an error: `return Err(..)`, or `break Err(..)` out of a loop that is the function's result."""
        t = a.body_text()
        return "returnResult::Err(" in t or ("breakResult::Err(" in t and self.loop_is_result())

    def label(self):
        base = short_fn(self.fn)
        if self.parent_arm is not None and self.parent_arm.name:
            return "%s/<%s>" % (base, self.parent_arm.name)
        return base if self.depth == 0 else "%s/#%d" % (base, self.depth)


def _event_lets(t):
    """Names bound by `let (ns, event) = reader.read_resolved_event()?;` in this function: a later `match (ns, event) {..}` is a reader
    match just like one on the call itself."""
    out = []
    for st in T.walk(T.user_body(t)):
        if st.get("k") == "LetStmt" and st.get("init") is not None:
            sc = X.ntext(st["init"])
            if sc.startswith("NsReader::read_resolved_event(") and sc.endswith("?"):
                names = [n.get("name") for n in T.walk(st.get("pat") or {}) if n.get("k") == "Bind"]
                if names:
                    out.append(tuple(names))
    return out


def is_event_match(t, n):
    sc = X.ntext(n["scrut"])
    if sc.startswith("NsReader::read_resolved_event(") and sc.endswith("?"):
        return True
    # the unresolved form (`match reader.read_event()? { Event::End(..) => .., event => .. }`) reads one event just the same
    if sc.startswith(("NsReader::read_event(", "Reader::read_event(")) and sc.endswith("?"):
        return True
    e = T.peel(n["scrut"])
    if e.get("k") == "Tuple":
        names = tuple(T.peel(f).get("name") for f in e.get("fields", []) if T.peel(f).get("k") == "Var")
        return len(names) == len(e.get("fields", [])) and names in _event_lets(t)
    return False


def _find_loops(fn, t, node, depth, parent_arm, out):
    """Walk: a Match whose scrutinee is `reader.read_resolved_event()?` is a reader loop; recurse into arm bodies."""
    for n in T.walk(node):
        if n.get("k") == "Match":
            if is_event_match(t, n):
                lp = Loop(fn, t, n, depth, parent_arm)
                out.append(lp)
                for a, arm in zip(n["arms"], lp.arms):
                    _find_loops(fn, t, a["body"], depth + 1, arm, out)
                return True
    return False


def _walk_top(fn, t, node, out):
    # find outermost reader matches without descending into ones already handled
    stack = [node]
    while stack:
        n = stack.pop()
        if not isinstance(n, dict):
            continue
        if n.get("k") == "Match":
            if is_event_match(t, n):
                lp = Loop(fn, t, n, 0, None)
                out.append(lp)
                for a, arm in zip(n["arms"], lp.arms):
                    sub = []
                    _walk_nested(fn, t, a["body"], 1, arm, sub)
                    out.extend(sub)
                continue
        stack.extend(reversed(list(T.children(n))))


def _walk_nested(fn, t, node, depth, parent_arm, out):
    stack = [node]
    while stack:
        n = stack.pop()
        if not isinstance(n, dict):
            continue
        if n.get("k") == "Match":
            if is_event_match(t, n):
                lp = Loop(fn, t, n, depth, parent_arm)
                out.append(lp)
                for a, arm in zip(n["arms"], lp.arms):
                    _walk_nested(fn, t, a["body"], depth + 1, arm, out)
                continue
        stack.extend(reversed(list(T.children(n))))


def reader_loops(fx):
    load_predicates(fx)
    out = []
    for name, t in sorted(fx.thir.items()):
        if t.get("crate") not in CRATES or "::tests::" in name or "{closure" in name:
            continue
        body = T.user_body(t)
        _walk_top(name, t, body, out)
    return out


def lenient_arms(lp):
    """Arms that accept content without naming it and without failing: `(_, Event::Start(tag)) => skip`.  Such an arm turns
    'any other content is an error' (and 'a repeated one-shot element is an error': the repeat fails its `is_none` guard and falls
    through to the next arm that matches its event kind) into silent acceptance."""
    out = []
    for a in lp.arms:
        if a.catch_all or not (a.kinds & {"Start", "Empty", "Text", "CData"}):
            continue
        if a.name is None and not lp.arm_fails(a):
            out.append(a)
    return out


def repeated_names(lp):
    """Element names handled by more than one arm for the same event kind (the later arm receives what the first one's guard refuses)."""
    seen, out = {}, []
    for a in lp.arms:
        if a.is_element() and a.name:
            for k in a.kinds & {"Start", "Empty"}:
                if (a.name, k) in seen:
                    out.append(a)
                seen[(a.name, k)] = a
    return out


def short_fn(fn):
    """Readable, stable name of a reader function (generics of the self type kept)."""
    s = fn
    for pre in ("bgpfu_junos_agent::policies::fetch::", "bgpfu_junos_agent::policies::", "netconf::message::rpc::operation::junos::",
                "netconf::message::rpc::operation::", "netconf::message::rpc::", "netconf::message::", "netconf::capabilities::", "netconf::"):
        s = s.replace(pre, "")
    s = s.replace(" as ReadXml>", ">").replace(" as BorrowedReadXml<'i>>", ">").replace("<'i>", "").replace("<'_>", "")
    return s


# ---------------------------------------------------------------------------------------------
# uses of element text obtained with NsReader::read_text (raw slice: not trimmed, not unescaped)
# ---------------------------------------------------------------------------------------------
PRESERVING = ("Try::branch", "Deref::deref", "AsRef::as_ref", "Borrow::borrow", "Cow::<'_, B>::as_ref", "Result::<T, E>::map",
              "Result::<T, E>::map_err", "Option::<T>::ok_or", "Option::<T>::ok_or_else", "Cow::<'_, B>::into_owned", "ToOwned::to_owned",
              "ToString::to_string", "String::as_str", "Into::into", "From::from", "Clone::clone")
TOKEN_SINKS = ("str::<impl str>::parse", "core::str::<impl str>::parse", "FromStr::from_str", "PartialEq::eq", "PartialEq::ne",
               "policies::Name::new", "str::<impl str>::split_once", "core::str::<impl str>::split_once")
TOKEN_STRUCTS = ("policies::fetch::RouteFilter", "policies::fetch::TermFrom", "policies::fetch::Term")


TRIM_FNS = ("str::<impl str>::trim", "core::str::<impl str>::trim", "str::<impl str>::trim_ascii")
UNESCAPE_FNS = ("quick_xml::escape::unescape", "escape::unescape", "BytesText::<'a>::unescape")
# calls whose result does not carry the text on (so taint stops): comparisons / predicates / consumers
NON_CARRYING = ("PartialEq::eq", "PartialEq::ne", "str::<impl str>::is_empty", "str::<impl str>::len", "NsReader::<&'i [u8]>::read_to_end",
                "NsReader::<R>::read_to_end", "str::<impl str>::starts_with", "str::<impl str>::ends_with", "str::<impl str>::contains")


def _fromstr_sanitises(fx, call, sanit, wr, _cache={}):
    """`text.parse::<F>()` / `F::from_str(text)` where F's FromStr impl is workspace code that hands its input to its own token sinks
    only through the sanitiser."""
    target = (call.gargs or [None])[0] if call.is_fn("str::<impl str>::parse", "core::str::<impl str>::parse") else None
    names = []
    if target:
        names.append("<%s as std::str::FromStr>::from_str" % target)
    if call.rdef:
        names.append(call.rdef)
    for n in names:
        b = fx.mir.get(n)
        if b is None or b.crate not in CRATES:
            continue
        key = (n, sanit)
        if key not in _cache:
            def through(x):
                return not (x.is_fn(*sanit) or x.is_fn(*NON_CARRYING) or x.rdef in wr or x.defn in wr)
            t = b.forward_taint([1], through_call=through)
            raw = [x for x in b.calls() if not x.macro and x.is_fn(*TOKEN_SINKS) and any(F.op_base(a) in t for a in x.args)]
            _cache[key] = bool([x for x in b.calls() if x.is_fn(*sanit)]) and not raw
        if _cache[key]:
            return True
    return False


def sanitiser_wrappers(fx, sanit):
    """Workspace functions that are wrappers of a sanitiser: every value flowing from a parameter to the return place passes through
    a call in `sanit` (with `sanit` as a barrier the return place is no longer tainted by any parameter), and the sanitiser is called."""
    out = set()
    for name, b in fx.mir.items():
        if b.crate not in CRATES or "::tests::" in name or "{closure" in name:
            continue
        argc = b.raw["arg_count"]
        if argc == 0 or argc > 2:
            continue
        calls = [c for c in b.calls() if not c.macro]
        if not any(c.is_fn(*sanit) for c in calls):
            continue
        t = b.forward_taint(list(range(1, argc + 1)), through_call=lambda x: not x.is_fn(*sanit) and not x.is_fn(*NON_CARRYING))
        if 0 not in t:
            out.add(name)
    return out


def text_uses(fx):
    """For every read_text call: which token sinks its value reaches without `trim` / without `unescape`.

    Taint propagates through *every* call (an unknown helper or a `trim_matches` with a home-made character set does not count as
    trimming) except the recognised sanitiser of the mode, verified wrappers of it, and result-less predicates."""
    out = []
    wrappers = {"untrimmed": sanitiser_wrappers(fx, TRIM_FNS), "unescaped": sanitiser_wrappers(fx, UNESCAPE_FNS)}
    for name, b in sorted(fx.mir.items()):
        if b.crate not in CRATES or "::tests::" in name:
            continue
        for c in b.calls():
            if not c.is_fn("NsReader::<&'i [u8]>::read_text", "NsReader::<R>::read_text") or c.macro:
                continue
            rec = {"fn": name, "call": c, "untrimmed": [], "unescaped": [], "all_sinks": [], "wrappers": sorted(wrappers["untrimmed"] | wrappers["unescaped"])}
            for mode, sanit in (("untrimmed", TRIM_FNS), ("unescaped", UNESCAPE_FNS)):
                wr = wrappers[mode]
                def through(x, sanit=sanit, wr=wr):
                    if x.macro:
                        return False
                    if x.is_fn(*sanit) or x.is_fn(*NON_CARRYING):
                        return False
                    if x.rdef in wr or x.defn in wr:
                        return False
                    return True
                t = b.forward_taint([c.dest["l"]], through_call=through)
                sinks = []
                for x in b.calls():
                    if x.bb == c.bb or x.macro:
                        continue
                    if x.is_fn(*TOKEN_SINKS) and any(F.op_base(a) in t for a in x.args):
                        if x.is_fn("str::<impl str>::parse", "core::str::<impl str>::parse", "FromStr::from_str") and \
                                _fromstr_sanitises(fx, x, sanit, wr):
                            continue      # the target type's own FromStr (workspace code) applies the sanitiser to its input first
                        sinks.append((T.short(x.name(), 2), x.loc()))
                for bi, bl in enumerate(b.blocks):
                    for s in bl["stmts"]:
                        if s["k"] == "assign" and s["rv"]["k"] == "agg" and (s["rv"].get("adt") or "").endswith(TOKEN_STRUCTS):
                            for fn_, f in zip(s["rv"]["fnames"], s["rv"]["fields"]):
                                if F.op_base(f) in t:
                                    sinks.append(("stored %s.%s" % (T.short(s["rv"]["adt"], 1), fn_), "%s:%s" % ((s.get("sp") or {}).get("f"), (s.get("sp") or {}).get("l"))))
                rec[mode] = sinks
            # closures: `.map(Name::new)` passes the ctor as a fn value
            for x in b.calls():
                if x.is_fn("Result::<T, E>::map") and F.op_base(x.args[0]) in b.forward_taint([c.dest["l"]], through_call=lambda y: y.is_fn("Try::branch")):
                    a = x.args[1]
                    if a.get("c") == "const" and (a.get("def") or "").endswith("policies::Name::new"):
                        rec["untrimmed"].append(("Name::new", x.loc()))
                        rec["unescaped"].append(("Name::new", x.loc()))
            out.append(rec)
    return out
