"""C14 — Arbitrary bytes from the server produce an error, never a panic or a hang (source-level facts).

PANIC inventory over the input-reachable workspace call graph, MUSTPASS progress of reader loops, catch-all arms,
UTF-8 validation before parsing.
"""
import re
from vlib import facts as F, thir as T, xmlgrammar as X
from vlib.report import loc_of, Check
from . import readers as R, callgraph as CG, transport_common as TC

EXPLANATION = (
    "C14/R1 (PANIC): from the input entry points (every ReadXml/BorrowedReadXml impl, ServerMsg::from_xml/recv, TryFrom<PartialReply>, "
    "FromStr impls, Session::new/recv, the three transports' recv, the SSH pump, TermFrom::try_into_ranges) the workspace call graph "
    "(resolved callees, closures, trait impls over-approximated) is walked and every panic-capable MIR site is listed: Assert "
    "terminators (overflow, bounds), unwrap/expect/unwrap_or_else, explicit panic!/unreachable!/todo!, slice indexing, split_to. The "
    "list must be covered by the audited table; each row has a discharge that is re-verified: by type (Result<_, Infallible>), by an "
    "invariant another rule establishes (search-window start <= buf.len(): C06/R1; split position inside the buffer: C06/R2), constant "
    "arithmetic, or trusted macro internals (tokio::try_join!). A new site or a row whose discharge fails is a violation. C14/R2 "
    "(MUSTPASS): every loop in a reader body consumes input (read_resolved_event / read_event / read_to_end / read_text / "
    "Iterator::next) on every path round the loop. C14/R3: every reader match has a catch-all arm returning UnexpectedXmlEvent; "
    "ServerMsg::recv validates UTF-8 (from_utf8 .. map_err ..?) before from_xml. C14/R4: the first parse phase of a reply (PartialReply::read_xml, run by whichever caller holds the transport) fails only on the envelope — the result of skipping the body is not `?`-propagated and no body content is read — so a malformed body is reported to the request that owns the reply, not to a bystander. Not decided: panics/loops inside quick-xml, "
    "iri-string, generic-ip; memory exhaustion; transport-level hang on EOF (C07)."
)

# (function-name regex, site kind) -> (max count, discharge kind, reason)
AUDIT = [
    (r"^<netconf::message::rpc::error::Error as netconf::message::ReadXml>::read_xml::\{closure#\d+\}$", "call:panicking::panic", 3, "infallible-closure",
     "the unreachable!() closures are only invoked with an Infallible error"),
    (r"^<netconf::transport::(tls|junos_local)::Receiver as netconf::transport::RecvHandle>::recv(::\{closure#\d+\})+$", "call:index::index", 6, "c06",
     "&self.buf[searched..]: searched is 0 or buf.len() - k (C06/R1), the buffer only grows within a call"),
    (r"^<netconf::transport::(tls|junos_local)::Receiver as netconf::transport::RecvHandle>::recv(::\{closure#\d+\})+$", "assert:Overflow", 12, "c06",
     "searched + index + MARKER.len() <= buf.len() (C06/R2); MARKER.len() - 1 is the constant 5"),
    (r"^<netconf::transport::(tls|junos_local)::Receiver as netconf::transport::RecvHandle>::recv(::\{closure#\d+\})+$", "call:BytesMut::split_to", 4, "c06",
     "split position is inside the buffer: it ends at a marker found in it (C06/R2)"),
    (r"^netconf::transport::(tls|junos_local)::Receiver::new$", "assert:Overflow", 2, "const", "1 << 10 is a constant"),
    (r"^netconf::transport::ssh::Ssh::connect::\{closure#0\}::\{closure#0\}::\{closure#0\}$", "assert:Overflow", 1, "c06", "index + MARKER.len() <= in_buf.len() (C06/R2)"),
    (r"^netconf::transport::ssh::Ssh::connect::\{closure#0\}::\{closure#0\}::\{closure#0\}$", "call:BytesMut::split_to", 1, "c06", "split position ends at a marker found in the buffer"),
]
TRUSTED_MACROS = ("tokio::try_join", "tokio::select", "tokio::join", "async_trait", "thiserror::Error")
PANIC_CALLS = ("Option::<T>::unwrap", "Option::<T>::expect", "Result::<T, E>::unwrap", "Result::<T, E>::expect", "Index::index", "IndexMut::index_mut", "RefCell::<T>::borrow_mut", "RefCell::<T>::borrow",
               "BytesMut::split_to", "BytesMut::split_off", "Bytes::split_to", "Bytes::split_off", "slice::<impl [T]>::split_at", "BytesMut::advance",
               "Buf::advance", "str::<impl str>::split_at", "Vec::<T, A>::remove", "Vec::<T, A>::swap_remove", "Vec::<T, A>::drain",
               "char::from_digit", "Duration::from_secs_f64", "Layout::from_size_align_unchecked",
               # arithmetic on time values panics on overflow (`UNIX_EPOCH + Duration::from_secs(u64::MAX)`) in every build profile
               "SystemTime as std::ops::Add<std::time::Duration>>::add", "SystemTime as std::ops::Sub<std::time::Duration>>::sub",
               "Instant as std::ops::Add<std::time::Duration>>::add", "Instant as std::ops::Sub<std::time::Duration>>::sub",
               "Duration as std::ops::Add>::add", "Duration as std::ops::Sub>::sub", "Duration as std::ops::Mul<u32>>::mul",
               "SystemTime as std::ops::AddAssign<std::time::Duration>>::add_assign", "Instant as std::ops::AddAssign<std::time::Duration>>::add_assign",
               "Duration::from_secs_f32", "String::truncate", "String::remove", "String::insert", "String::split_off", "String::drain", "String::replace_range",
               "str::<impl str>::split_at_mut", "Vec::<T, A>::insert", "Vec::<T, A>::split_off", "Vec::<T, A>::swap")
CONSUMING = ("NsReader::<&'i [u8]>::read_resolved_event", "NsReader::<R>::read_resolved_event", "NsReader::<&'i [u8]>::read_event", "read_to_end",
             "NsReader::<&'i [u8]>::read_text", "Iterator::next", "read_event_into")


def entry_points(fx):
    out = []
    for n, b in fx.mir.items():
        if b.crate not in R.CRATES or "::tests::" in n:
            continue
        if n.endswith(("::read_xml", "::borrowed_read_xml", "::from_xml", ">::try_from", ">::from_str", "::try_into_ranges")) \
                or "ServerMsg::recv" in n or n.startswith("netconf::session::Session::<T>::new") or n.startswith("netconf::session::Session::<T>::recv") \
                or "RecvHandle>::recv" in n or n.startswith(TC.SSH_CONNECT + "::{closure"):
            out.append(n)
    return out


def run(ctx):
    chk, fx = ctx.chk, ctx.facts
    chk.explanation = EXPLANATION
    chk.assumptions += ["quick-xml 0.31 does not panic or loop on malformed input (dependency, outside this analysis)",
                        "tokio::try_join!/select! internals do not panic (trusted macros)"]
    r1_inventory(ctx, chk, fx)
    r2_progress(chk, fx)
    r3_catch_all(chk, fx)
    r4_envelope_only(chk, fx)
    r5_other_replies_survive(chk, fx)


def r4_envelope_only(chk, fx):
    """"... and replies to other outstanding requests are still delivered correctly afterwards": a reply is parsed in two phases —
    PartialReply::read_xml (run by whichever caller happens to hold the transport) reads only the envelope and files the raw text
    under its message-id; the owner of that id parses the body later.  A malformed *body* must therefore not fail phase one: the
    error would be handed to the wrong caller and the reply's owner would wait for ever."""
    n = "<netconf::message::rpc::PartialReply as netconf::message::ReadXml>::read_xml"
    b = fx.mir.get(n)
    if b is None:
        raise F.AnchorLost("PartialReply::read_xml not found")
    chk.analysed(n)
    # the envelope scan may live in private helpers of the reader (analysed with it)
    from . import c08
    bodies = [b] + c08.reader_helpers(fx, b)
    skips = [(bb, c) for bb in bodies for c in bb.calls() if c.is_fn("read_to_end") and not c.macro]
    chk.floor("C14/R4 PartialReply body skips", len(skips), 1)
    for (bb, c) in skips:
        tries = [x for x in bb.calls() if x.is_fn("Try::branch")]
        t = bb.forward_taint([c.dest["l"]])
        hit = [x for x in tries if any(F.op_base(a) in t for a in x.args)]
        chk.instance("C14/R4", "first parse phase does not fail on the reply body: the result of skipping it (read_to_end) is not `?`-propagated",
                     n, c.loc(), holds=not hit, key="C14/R4 PartialReply::read_xml body-error-propagated",
                     detail=None if not hit else "a truncated / malformed body of a reply with a readable message-id now fails in whichever caller "
                     "is reading the transport, not in the request that owns the reply")
    content = [c for bb in bodies for c in bb.calls() if c.is_fn("read_text", "ReadXml::read_xml", "read_event_into") and not c.macro]
    chk.instance("C14/R4", "first parse phase reads nothing but the envelope (no read_text / nested read_xml of the body)", n, None,
                 holds=not content, key="C14/R4 PartialReply::read_xml reads-body")
    # the body is kept verbatim for the second phase
    aggs = b.aggs_of("rpc::PartialReply")
    ok = len(aggs) == 1
    chk.instance("C14/R4", "PartialReply{message_id, buf} is built once, after the envelope loop", n, None, holds=ok, key="C14/R4 PartialReply literal")


def _unit_increment(bl):
    for st in reversed(bl["stmts"]):
        if st["k"] == "assign" and st["rv"]["k"] == "binop" and st["rv"].get("bop") == "AddWithOverflow":
            r, l = st["rv"]["r"], st["rv"]["l"]
            for c in (r, l):
                if c.get("c") == "const" and c.get("i") == 1 and c.get("ty") in ("usize", "u64", "u128", "i64"):
                    return True
            return False
    return False


def sites_of(fx, name):
    b = fx.mir[name]
    out = []
    calls = {c.bb: c for c in b.calls()}
    for bi, bl in enumerate(b.blocks):
        if bl.get("cleanup"):
            continue
        t = bl["term"]
        sp = t.get("sp") or {}
        mac = sp.get("m") or ""
        if mac.startswith(("tracing", "log")):
            continue
        if t["k"] == "assert":
            if str(t.get("msg", "")).startswith("Overflow") and _unit_increment(bl):
                # `n += 1` on a 64-bit counter: 2^64 steps are outside any run (and the shipped profile wraps)
                continue
            out.append(("assert:" + t["msg"], sp, mac, None))
        elif t["k"] == "call":
            c = calls.get(bi)
            if c is None:
                continue
            if c.is_fn(*PANIC_CALLS) or (c.defn or "").startswith(("core::panicking", "std::rt::begin_panic", "std::process::abort", "std::process::exit")):
                out.append(("call:" + T.short(c.name(), 2), sp, mac, c))
    return out


def r1_inventory(ctx, chk, fx):
    roots = entry_points(fx)
    chk.floor("C14/R1 input entry points", len(roots), 60)
    reach = CG.reachable(fx, roots)
    chk.extra["entry_points"] = len(roots)
    chk.extra["reachable_bodies"] = len(reach)
    for n in reach:
        chk.analysed(n)
    groups = {}
    total = 0
    for n in sorted(reach):
        if "::tests::" in n or fx.mir[n].crate not in R.CRATES:
            continue
        for (kind, sp, mac, call) in sites_of(fx, n):
            total += 1
            if mac in TRUSTED_MACROS:
                groups.setdefault(("trusted-macro " + mac, kind), []).append((n, sp, call))
                continue
            groups.setdefault((n, kind), []).append((n, sp, call))
    chk.extra["panic_capable_sites"] = total
    c06_ok = None
    for (fn, kind), ss in sorted(groups.items()):
        if fn.startswith("trusted-macro "):
            chk.instance("C14/R1", "%d %s site(s) inside %s expansions (trusted)" % (len(ss), kind, fn[14:]), ss[0][0], loc_of(ss[0][1]), holds=True)
            continue
        row = None
        for (rx, k, maxn, disc, why) in AUDIT:
            if k == kind and re.match(rx, fn):
                row = (rx, k, maxn, disc, why)
        if row is None and kind in ("call:index::index", "assert:Overflow", "call:BytesMut::split_to") and fn.startswith("netconf::transport::") or \
                (row is None and kind in ("call:index::index", "assert:Overflow", "call:BytesMut::split_to") and fn.startswith("<netconf::transport::")):
            # a framing helper (search the buffer for the marker, split the message off): the same sites as in the receivers, covered by the same
            # C06 invariants — provided the body really is such a helper (it searches with the Finder and splits), whatever its name
            hb = fx.mir[fn]
            parent = fx.mir.get(fn.split("::{closure")[0]) or hb
            framing = lambda x: bool(x.calls_to("memmem::Finder::<'n>::find") or x.calls_to("BytesMut::split_to"))
            # offset arithmetic may sit in a method of its own (`resume_search_at(&self)`): C06 evaluates the window expression with helpers inlined
            arith_helper = kind == "assert:Overflow" and any(framing(fx.mir[n2]) for n2 in fx.mir if n2 != fn and any(
                (c.rdef == fn or c.defn == fn) for c in fx.mir[n2].calls()))
            if framing(hb) or framing(parent) or arith_helper:
                row = (re.escape(fn) + "$", kind, {"assert:Overflow": 6, "call:index::index": 3, "call:BytesMut::split_to": 2}[kind], "c06",
                       "framing helper: search offset <= buf.len() (C06/R1), split position ends at a marker found in the buffer (C06/R2)")
        fkey = T.strip_generics(fn)
        if row is None:
            for (n, sp, call) in ss:
                chk.instance("C14/R1", "unaudited panic-capable site %s in %s (reachable from server input)" % (kind, R.short_fn(fn)), fn, loc_of(sp), holds=False,
                             key="C14/R1 unaudited %s in %s" % (kind, fkey))
            continue
        rx, k, maxn, disc, why = row
        same_rx = sum(len(v) for (f2, k2), v in groups.items() if k2 == kind and not f2.startswith("trusted-macro ") and re.match(rx, f2))
        ok = same_rx <= maxn
        if disc == "infallible":
            ok = ok and all("std::convert::Infallible" in " ".join(c.gargs + c.rgargs) for (_, _, c) in ss if c is not None)
        elif disc == "c06":
            if c06_ok is None:
                c06_ok = run_c06(ctx)
            ok = ok and c06_ok
        elif disc == "infallible-closure":
            parent = fn.rsplit("::{closure", 1)[0]
            pb = fx.mir.get(parent)
            ok = ok and pb is not None and all("std::convert::Infallible" in " ".join(c.gargs + c.rgargs) for c in pb.calls() if c.is_fn("Result::<T, E>::unwrap_or_else"))
        chk.instance("C14/R1", "%s x%d in %s — %s [%s]" % (kind, len(ss), R.short_fn(fn), why, disc), fn, loc_of(ss[0][1]), holds=ok,
                     key="C14/R1 discharge-failed %s in %s" % (kind, fkey), detail=None if ok else "count %d > audited %d or discharge not verified" % (same_rx, maxn))


def run_c06(ctx):
    """The transports' indexing/split sites are safe only while C06/R1 and C06/R2 hold."""
    from . import c06
    sub = Check("C06", ctx.tier)
    c = type("Ctx", (), {})()
    c.chk, c.facts, c.tier = sub, ctx.facts, ctx.tier
    c06.run(c)
    return not [r for r in sub.reports if r["rule"] in ("C06/R1", "C06/R2")]


def r2_progress(chk, fx):
    n = 0
    for name, b in sorted(fx.mir.items()):
        if b.crate not in R.CRATES or "::tests::" in name:
            continue
        if not [c for c in b.calls() if c.is_fn("read_resolved_event") and not c.macro]:
            continue
        cons = {c.bb for c in b.calls() if c.is_fn(*CONSUMING) and not (c.macro or "").startswith("tracing")}
        for h in b.loop_heads():
            lp = b.natural_loop(h)
            rre = [c for c in b.calls() if c.bb in lp and c.is_fn("read_resolved_event") and not c.macro]
            if not rre:
                continue   # not a reader loop (e.g. iteration inside a logging macro expansion)
            sp = rre[0].sp
            n += 1
            # a cycle through the head that avoids every consuming call?
            inside = lambda x: x in lp
            stack = [s for s in b.succ[h] if s in lp and s not in cons] if h not in cons else []
            seen = set(stack)
            cyc = False
            while stack:
                x = stack.pop()
                if x == h:
                    cyc = True
                    break
                for s in b.succ[x]:
                    if s in lp and s not in cons and s not in seen:
                        seen.add(s)
                        stack.append(s)
            chk.instance("C14/R2", "%s: every path round the loop at line %s consumes input" % (R.short_fn(name), sp.get("l")), name, loc_of(sp),
                         holds=not cyc, key="C14/R2 %s loop-without-progress" % R.short_fn(name))
    chk.floor("C14/R2 reader loops (MIR)", n, 15)


def r3_catch_all(chk, fx):
    loops = R.reader_loops(fx)
    chk.floor("C14/R3 reader matches", len(loops), 15)
    for lp in loops:
        ca = [a for a in lp.arms if a.catch_all]
        ok = len(ca) == 1 and ca[0] is lp.arms[-1] and lp.arm_fails(ca[0]) and "UnexpectedXmlEvent" in ca[0].body_text()
        chk.instance("C14/R3", "%s ends with a catch-all arm returning UnexpectedXmlEvent" % lp.label(), lp.fn, loc_of(lp.sp), holds=ok,
                     key="C14/R3 %s catch-all" % lp.label())
    # UTF-8 validated before parsing — decided on the explored paths of ServerMsg::recv: what from_xml is handed is the Ok payload
    # of from_utf8 on the received bytes, and a failed from_utf8 ends in Err without from_xml being called
    from vlib import absint as A
    b = fx.user_coroutine("netconf::message::ServerMsg::recv")
    fu = b.calls_to("std::str::from_utf8", "core::str::from_utf8", user_only=True)

    def hook(fn, args, node, interp):
        s2 = T.short(fn, 2)
        if s2 in ("ServerMsg::from_xml",) or fn.endswith("::from_xml"):
            interp.trace.append(("call", fn, tuple(args), node.get("sp")))
            return ("sym", "PARSED")
        if s2 == "RecvHandle::recv":
            return ("term", "async-ready", (("sym", "RECEIVED"),))
        return None
    paths = A.Interp(fx, hook=hook, crates=("netconf",)).explore(b.name)
    parsed = [p for p in paths if p.calls("from_xml")]
    bad_utf8 = [p for p in paths if any(k.startswith("variant:") and "from_utf8(" in k and k.endswith(")") and v == "Err" for k, v in p.assume.items())]
    ok = bool(parsed) and bool(bad_utf8)
    for p in parsed:
        arg = A.vstr(p.calls("from_xml")[0][2][0])
        ok = ok and "from_utf8(" in arg and "→Ok.0" in arg
    for p in bad_utf8:
        ok = ok and not p.calls("from_xml") and A.is_res(p.ret) and p.ret[2] == "Err"
    chk.instance("C14/R3", "ServerMsg::recv parses only bytes that passed from_utf8 (error mapped and propagated)", b.name, fu[0].loc() if fu else None,
                 holds=ok, key="C14/R3 ServerMsg::recv utf8-validation")
    pr = fx.body("<netconf::message::rpc::PartialReply as netconf::message::ReadXml>::read_xml")
    fu = pr.calls_to("std::str::from_utf8", "core::str::from_utf8", user_only=True)
    chk.instance("C14/R3", "PartialReply::read_xml keeps the buffer only after from_utf8 succeeded", pr.name, fu[0].loc() if fu else None,
                 holds=len(fu) == 1 and pr.ok_edge_of(fu[0], pass_through=tuple(F.PASS_THROUGH)) is not None, key="C14/R3 PartialReply utf8-validation")


def r5_other_replies_survive(chk, fx):
    """'.. and replies to other outstanding requests are still delivered correctly afterwards': a duplicated, mutated or unsolicited
    reply must not disturb what is already filed.  C05's decisions on the request table — a reply is parked only into its own Pending
    slot (R2/R3) and nothing is stored over an existing entry (R7) — recorded here."""
    from . import c05
    from .c15 import _Rename
    sub = _Rename(chk, "C05/R", "C14/R5:C05/R")
    c05.r2_own_slot(sub, fx)
    c05.r3_state_machine(sub, fx)
    c05.r7_table_integrity(sub, fx)
