"""C07 — Peer disconnect surfaces as an error, never as a hang or busy loop.

EXIT rules: the "source exhausted" outcome of every read / receive in the transports leaves its loop.
OKDOM: errors propagate.  Timing ("within bounded time") is not decided.
"""
from vlib import facts as F, thir as T
from vlib.report import loc_of
from . import transport_common as TC

EXPLANATION = (
    "C07/R1 (EXIT): for every read_buf/read in a receive loop of the TLS and local-CLI transports the byte count reaches a "
    "comparison with zero, and the zero outcome cannot reach the read again (so end-of-stream, which makes read_buf return "
    "Ok(0) immediately for ever, ends the call with an error instead of spinning). C07/R2 (EXIT): in the SSH pump's select "
    "loop the closed outcome of each awaited source (out_queue_rx.recv() = None, channel.wait() = None, ChannelMsg::Eof) "
    "leads out of the loop. C07/R3 (OKDOM/TABLE): Session::recv loops again only through the success edge of the transport "
    "read; ServerMsg::recv and ClientMsg::send propagate transport errors; the SSH receiver maps queue closure to "
    "Error::DequeueMessage. C07/R4: the pump's queue sender is neither cloned nor leaked, so leaving the loop closes the "
    "receive queue. Not decided: timing, half-open connections, russh/rustls internals."
)


def run(ctx):
    chk, fx = ctx.chk, ctx.facts
    chk.explanation = EXPLANATION
    chk.assumptions += [
        "AsyncReadExt::read_buf returns Ok(0) exactly at end of stream (buffer has spare capacity)",
        "russh Channel::wait() returns None once the channel is closed; tokio mpsc recv() returns None when all senders are dropped",
        "dropping the pump task's coroutine drops in_queue_tx / out_queue_rx",
    ]
    for kind, b in sorted(TC.stream_receivers(fx).items()):
        r1_stream(chk, fx, kind, b)
    r2_pump(chk, fx, TC.ssh_pump(fx))
    r2_other_wait_loops(chk, fx, TC.ssh_pump(fx))
    r3_propagation(chk, fx)
    r4_session_recv(chk, fx)
    r5_no_self_deadlock(chk, fx)
    r6_hello_exchange_fails_fast(chk, fx)


def r5_no_self_deadlock(chk, fx):
    """A caller learns of the failure only if the call it is in can come back: rpc() / recv() never wait for a lock the same task
    already holds (directly or through a helper it awaits), and the session's locks are taken in one order.  Shared with C05 (R4/R5)."""
    from .c15 import _Rename
    from . import c05
    c05.r4_r5_locks(_Rename(chk, "C05/R", "C07/R5:C05/R"), fx)


def r6_hello_exchange_fails_fast(chk, fx):
    """Session establishment is the first place a dead peer shows: the client hello cannot be written, or the server hello never comes.
    The two halves run concurrently (C12/R5); the exchange must end as soon as *either* fails — with `join!` (wait for both, then look)
    a failed send is reported only when the receive completes, which on a half-closed transport is never.  The macro that joins the two
    futures in Session::new (or the helper it awaits) is try_join!, not join!."""
    b = fx.user_coroutine("netconf::session::Session::<T>::new")
    bodies = [b]
    for c in b.calls():
        tgt = None if c.macro else (c.rdef if (c.rdef or "").startswith("netconf::session::") else c.defn if (c.defn or "").startswith("netconf::session::") else None)
        if tgt and "::{closure" not in tgt:
            try:
                bodies.append(fx.user_coroutine(tgt))
            except F.AnchorLost:
                pass
    joined = sorted({(c.macro or "").split("::")[-1] for body in bodies for c in body.calls() if (c.macro or "").split("::")[-1] in ("join", "try_join")})
    if not joined:
        chk.instance("C07/R6", "the hello exchange is not joined by a tokio join macro: not decided here", b.name, None, holds=True)
        return
    chk.instance("C07/R6", "the hello exchange ends with the first failure of either half (joined by %s!)" % "/".join(joined), b.name, None, holds=joined == ["try_join"],
                 key="C07/R6 Session::new hello-exchange-waits-for-both-halves",
                 detail=None if joined == ["try_join"] else "join! completes only when both futures have: a failed send of the client hello is not reported while the receive is pending")


def zero_edges(b, count_locals):
    """Edges taken when the byte count is zero: list of (switch_bb, target)."""
    out = []
    for bi, bl in enumerate(b.blocks):
        if bl.get("cleanup"):
            continue
        for s in bl["stmts"]:
            if s["k"] != "assign" or s["rv"]["k"] != "binop":
                continue
            rv = s["rv"]
            lo, ro = rv["l"], rv["r"]
            ll, rl = F.op_local(lo), F.op_local(ro)
            lc, rc = TC.int_const(lo), TC.int_const(ro)
            op = rv["bop"]
            val = None
            if ll in count_locals and rc is not None:
                val = cmp_eval(op, 0, rc)
            elif rl in count_locals and lc is not None:
                val = cmp_eval(op, lc, 0)
            if val is None:
                continue
            for (sw, t_t, f_t) in b.bool_edges(s["pl"]["l"]):
                tgt = t_t if val else f_t
                if tgt is not None:
                    out.append((sw, tgt, loc_of(s.get("sp"))))
        t = bl["term"]
        if t["k"] == "switch" and F.op_local(t["discr"]) in count_locals:
            m = {v: x for v, x in t["targets"]}
            out.append((bi, m.get(0, t["otherwise"]), loc_of(t.get("sp"))))
    return out


def cmp_eval(op, a, b2):
    return {"Eq": a == b2, "Ne": a != b2, "Lt": a < b2, "Le": a <= b2, "Gt": a > b2, "Ge": a >= b2}.get(op)


def r1_stream_paths(chk, fx, kind, b):
    """The same decision on explored paths of recv (private helpers, async ones included, are inlined): after a read the path has
    decided whether the byte count is zero; with zero bytes it returns an error at once; a failed read returns an error."""
    from vlib import absint as A
    import re
    fn = "transport::%s::Receiver::recv" % kind

    def hook(f, args, node, interp):
        s2 = T.short(f, 2)
        if s2 in ("AsyncReadExt::read_buf", "AsyncReadExt::read") and len(args) >= 2:
            interp.trace.append(("read", args[1], node.get("sp")))
            return ("term", "async-ready", (("sym", "READ"),))
        if s2 in ("Finder::find", "memmem::find", "FinderRev::rfind"):
            return ("sym", "FOUND")
        return None
    paths = [p for p in A.Interp(fx, hook=hook, crates=("netconf",), max_paths=3000, havoc_loops=True).explore(b.name) if p.end != "abort"]
    X = "async-ready(«READ»).await→Ok.0"
    n = n_zero = 0
    undecided = []
    for p in paths:
        rd = [i for i, e in enumerate(p.trace) if e[0] == "read"]
        if not rd:
            continue
        n += 1
        at = loc_of(p.trace[rd[0]][2])
        is_err = A.is_res(p.ret) and p.ret[2] == "Err" and p.end in ("return", "fallthrough")
        if p.assume.get("variant:async-ready(«READ»).await") == "Err":
            chk.instance("C07/R3", "%s: a failed read ends recv with an error (explored path)" % kind, b.name, at, holds=is_err,
                         key="C07/R3 %s read-error-not-propagated" % fn)
            continue
        zero = None
        if p.assume.get("is:" + X) is not None:
            zero = p.assume["is:" + X] == 0
        for k, v in p.assume.items():
            m = re.fullmatch(r"eq:(.*):(\d+)(?:_[ui]\w+)?", k)     # a constant pattern: `match n { 0 => .. }`
            if m and m.group(1) == X and isinstance(v, bool):
                if int(m.group(2)) == 0:
                    zero = v if zero is None else zero
                elif v:
                    zero = False
                continue
            m = re.fullmatch(r"\((.*) (Eq|Ne|Lt|Le|Gt|Ge) (.*)\)", k)
            if not m or not isinstance(v, bool):
                continue
            l, op, r = m.groups()
            if l == X and r.isdigit():
                t0 = cmp_eval(op, 0, int(r))
                allv = all(cmp_eval(op, c, int(r)) == t0 for c in (1, 2, 1 << 20))
                some = {cmp_eval(op, c, int(r)) for c in (1, 2, 1 << 20)}
            elif r == X and l.isdigit():
                t0 = cmp_eval(op, int(l), 0)
                some = {cmp_eval(op, int(l), c) for c in (1, 2, 1 << 20)}
            else:
                continue
            if some == {not t0}:
                # the comparison separates zero from every other count
                zero = (v == t0) if zero is None else zero
        for k, v in p.assume.items():
            # NonZeroUsize::new(n): None exactly for n = 0
            if k.startswith("variant:NonZero::new(") and k.endswith(X + ")") and v in ("None", "Some"):
                zero = (v == "None") if zero is None else zero
        if zero is None:
            undecided.append((p, at))
            continue
        if zero:
            n_zero += 1
        if not zero:
            continue
        chk.instance("C07/R1", "%s: a zero-byte read (end of stream) leaves the receive loop (explored path)" % kind, b.name, at, holds=p.end in ("return", "fallthrough"),
                     key="C07/R1 %s eof-stays-in-loop" % fn)
        if p.end in ("return", "fallthrough"):
            chk.instance("C07/R1", "%s: end of stream is reported as an error, not as a message (explored path)" % kind, b.name, at, holds=is_err,
                         key="C07/R1 %s eof-reported-as-ok" % fn)
            waits = [e for e in p.trace[rd[-1]:] if e[0] == "await"]
            chk.instance("C07/R1", "%s: end of stream is reported without waiting for anything else (explored path)" % kind, b.name, at, holds=len(waits) <= 1,
                         key="C07/R1 %s eof-path-awaits" % fn,
                         detail=None if len(waits) <= 1 else "a suspension point lies between the zero-byte read and the error return")
    # a path that goes round again without having decided the count is fine when the zero case was split off before it (`match n { 0 =>
    # .., len => .. }`: the second arm says nothing about n, the first took n = 0 away); it is the defect when no path handles zero
    for (p, at) in undecided:
        # .. provided nothing else was decided between the read and going round (a flag tested before the count — "still in the preamble:
        # continue" — takes the zero case along)
        keys = list(p.assume)
        rk = [i for i, k in enumerate(keys) if k == "variant:async-ready(«READ»).await"]
        later = keys[rk[-1] + 1:] if rk else keys
        chk.instance("C07/R1", "%s: byte count returned by the read is compared with zero" % kind, b.name, at, holds=p.end != "iter-end" or (n_zero > 0 and not later),
                     key="C07/R1 %s byte-count-unchecked" % fn,
                     detail="at end of stream read_buf returns Ok(0) for ever: the loop spins and never returns an error")
    chk.instance("C07/R1", "%s: a zero-byte read is handled on some path (%d)" % (kind, n_zero), b.name, None, holds=n_zero > 0, key="C07/R1 %s byte-count-unchecked" % fn)
    chk.floor("C07/R1 %s explored paths with a read" % kind, n, 2)


def r1_stream(chk, fx, kind, b):
    chk.analysed(b.name)
    r1_stream_paths(chk, fx, kind, b)


def path_through(b, src, dst, via):
    return False


def r2_pump(chk, fx, b):
    chk.analysed(b.name)
    fn = "transport::ssh pump"
    waits = b.calls_to("russh::Channel::<S>::wait", user_only=True)
    recvs = b.calls_to("mpsc::Receiver::<T>::recv", user_only=True)
    chk.floor("C07/R2 pump sources", min(len(waits), len(recvs)), 1)
    loop_entry = [w.bb for w in waits] + [r.bb for r in recvs]
    n = 0
    for bi, bl in enumerate(b.blocks):
        if bl.get("cleanup"):
            continue
        for s in bl["stmts"]:
            if s["k"] != "assign" or s["rv"]["k"] != "discr":
                continue
            if (s.get("sp") or {}).get("m"):
                continue
            pl = s["rv"]["pl"]
            ty = b.local_ty(pl["l"]) if not pl.get("p") else None
            enum = s["rv"].get("enum")
            watch = None
            if ty in ("std::option::Option<russh::ChannelMsg>", "std::option::Option<bytes::Bytes>"):
                # the outcome of awaiting a queue / the channel inside select! — not the Option a private helper of this crate returned
                org = b.backward_origins(pl["l"], through_call=lambda c: False)
                from_helper = any(o["k"] == "call" and o["call"] is not None and ((o["call"].rdef in fx.mir) or (o["call"].defn in fx.mir) or o["call"].is_fn("Iterator::next"))
                                  for o in org)
                if from_helper:
                    continue
                watch = ("None", 0)
            elif enum == "russh::ChannelMsg":
                idx = [v for v, nme in s["rv"]["vars"] if nme == "Eof"]
                if idx:
                    watch = ("ChannelMsg::Eof", idx[0])
            if watch is None:
                continue
            # the switch using this discriminant
            dl = s["pl"]["l"]
            sw = None
            cur = bi
            t = b.blocks[cur]["term"]
            if t["k"] == "switch" and F.op_local(t["discr"]) == dl:
                sw = cur
            if sw is None:
                continue
            m = {v: x for v, x in t["targets"]}
            tgt = m.get(watch[1], t["otherwise"])
            reach = b.reachable(tgt)
            again = [x for x in loop_entry if x in reach]
            n += 1
            what = {"std::option::Option<russh::ChannelMsg>": "channel.wait() == None (channel closed)",
                    "std::option::Option<bytes::Bytes>": "out_queue_rx.recv() == None (all senders dropped)"}.get(ty, "ChannelMsg::Eof")
            chk.instance("C07/R2", "ssh pump: %s leaves the pump loop" % what, b.name, loc_of(s.get("sp")), holds=not again,
                         key="C07/R2 %s %s stays-in-loop" % (fn, what.split(" (")[0]),
                         detail="the closed source is polled again immediately: busy loop, receive queue never closed" if again else None)
    # tokio::select! with a refutable branch pattern (`Some(msg) = channel.wait() => ..`): when the future yields None the branch is
    # only *disabled* and the pump goes on serving its other source — the receive queue is never closed and pending recv() calls hang.
    # In the expansion the pattern is tested inside the poll_fn closure (`match &out { <pat> => {}, _ => continue }`): a read of the
    # discriminant of an Option<ChannelMsg> there is such a test.
    n_sel = 0
    for cname, cb in sorted(fx.mir.items()):
        if not cname.startswith(b.name + "::{closure#"):
            continue
        n_sel += 1
        for bi, bl in enumerate(cb.blocks):
            if bl.get("cleanup"):
                continue
            for s in bl["stmts"]:
                if s["k"] == "assign" and s["rv"]["k"] == "discr":
                    pl = s["rv"]["pl"]
                    ty = cb.local_ty(pl["l"]).lstrip("&").replace("mut ", "").strip()
                    if ty == "std::option::Option<russh::ChannelMsg>" and not [x for x in (pl.get("p") or []) if x != "*"]:
                        n += 1
                        chk.instance("C07/R2", "ssh pump: the outcome `channel closed` of channel.wait() reaches its handler (select! branch pattern is irrefutable)",
                                     cname, loc_of(s.get("sp")), holds=False, key="C07/R2 %s channel.wait() == None disabled-by-select-pattern" % fn,
                                     detail="a None from the closed channel disables the branch; the pump keeps waiting on the send queue and the receive queue is never closed")
    chk.extra["pump_select_closures"] = n_sel
    if not any(r.get("key", "").endswith("disabled-by-select-pattern") for r in chk.reports):
        chk.floor("C07/R2 pump exhaustion outcomes", n, 3)
    # R4: the queue sender is not cloned / leaked
    for c in b.calls():
        if c.macro:
            continue
        if c.is_fn("std::mem::forget", "ManuallyDrop::<T>::new", "Box::<T>::leak"):
            chk.instance("C07/R4", "ssh pump: nothing is leaked", b.name, c.loc(), holds=False, key="C07/R4 %s leak" % fn)
        if c.is_fn("Clone::clone") and "mpsc::Sender" in " ".join(c.gargs + c.rgargs):
            chk.instance("C07/R4", "ssh pump: queue sender is not cloned", b.name, c.loc(), holds=False,
                         key="C07/R4 %s sender-cloned" % fn)
    outer = fx.user_coroutine(TC.SSH_CONNECT)
    clones = [c for c in outer.calls() if not c.macro and c.is_fn("Clone::clone") and "mpsc::Sender<bytes::Bytes>" in " ".join(c.gargs + c.rgargs)]
    chk.instance("C07/R4", "in_queue sender has a single owner (the pump task)", outer.name, None, holds=not clones,
                 key="C07/R4 connect sender-cloned")


def r3_propagation(chk, fx):
    # Session::recv: loop again only through the success edge of the transport read
    b = fx.user_coroutine("netconf::session::Session::<T>::recv")
    chk.analysed(b.name)
    rd = b.calls_to("ServerMsg::recv", user_only=True)
    if len(rd) != 1:
        raise F.AnchorLost("Session::recv: expected one ServerMsg::recv call")
    e = b.ok_edge_of(rd[0])
    chk.instance("C07/R3", "Session::recv: transport read result checked with `?`", b.name, rd[0].loc(), holds=e is not None,
                 key="C07/R3 Session::recv read-unchecked")
    if e is not None:
        c, cont, brk = e
        sw = b._switch_block_of(c)
        again = b.reachable(brk)
        chk.instance("C07/R3", "Session::recv: a failed read cannot reach the next read (no retry loop on error)", b.name,
                     rd[0].loc(), holds=rd[0].bb not in again, key="C07/R3 Session::recv error-loops")
    # ServerMsg::recv
    b = fx.user_coroutine("netconf::message::ServerMsg::recv")
    chk.analysed(b.name)
    rd = b.calls_to("RecvHandle::recv", user_only=True)
    if len(rd) != 1:
        raise F.AnchorLost("ServerMsg::recv: expected one RecvHandle::recv call")
    e = b.ok_edge_of(rd[0])
    ok = e is not None and all(b.edge_dominates(b._switch_block_of(e[0]), e[1], bi) for (bi, si, s) in b.ok_aggs())
    chk.instance("C07/R3", "ServerMsg::recv: Ok only through the success edge of the transport recv", b.name, rd[0].loc(),
                 holds=ok, key="C07/R3 ServerMsg::recv error-not-propagated")
    # ClientMsg::send returns the transport's result
    b = fx.user_coroutine("netconf::message::ClientMsg::send")
    sd = b.calls_to("SendHandle::send", user_only=True)
    if len(sd) != 1:
        raise F.AnchorLost("ClientMsg::send: expected one SendHandle::send")
    t = b.forward_taint([sd[0].dest["l"]], through_call=lambda c: c.is_fn(*F.PASS_THROUGH))
    ret_ok = False
    for (bi, si, kind, payload) in b.defs().get(0, []):
        if kind == "assign" and payload["rv"]["k"] == "use" and F.op_base(payload["rv"]["op"]) in t:
            ret_ok = True
    e = b.ok_edge_of(sd[0])
    chk.instance("C07/R3", "ClientMsg::send: the transport's send result is returned or `?`-checked", b.name, sd[0].loc(),
                 holds=ret_ok or e is not None, key="C07/R3 ClientMsg::send result-dropped")
    # SSH receiver: queue closure -> Error::DequeueMessage (abstract interpretation: recv() None => Err(DequeueMessage), Some(m) => Ok(m))
    from vlib import absint as A
    b = fx.user_coroutine(TC.SSH_RECEIVER)
    chk.analysed(b.name)
    rc = b.calls_to("mpsc::Receiver::<T>::recv", user_only=True)

    def hook(fn, args, node, interp):
        if T.short(fn, 2) in ("mpsc::Receiver::recv", "Receiver::recv") and "in_queue" in A.vstr(args[0]) or fn.endswith("mpsc::Receiver::<T>::recv"):
            interp.trace.append(("call", fn, tuple(args), node.get("sp")))
            return ("term", "async-ready", (("sym", "DEQUEUED"),))
        return None
    paths = A.Interp(fx, hook=hook, crates=("netconf",)).explore(b.name)
    none = [p for p in paths if any(v == "None" for k, v in p.assume.items() if "DEQUEUED" in k and k.startswith("variant:")) or
            any("Some" in v for k, v in p.assume.items() if "DEQUEUED" in k and k.startswith("notvariant:"))]
    some_ = [p for p in paths if any(v == "Some" for k, v in p.assume.items() if "DEQUEUED" in k and k.startswith("variant:"))]
    ok = bool(none) and bool(some_) and all(A.is_res(p.ret) and p.ret[2] == "Err" and "DequeueMessage" in A.vstr(p.ret) for p in none) and \
        all(A.is_res(p.ret) and p.ret[2] == "Ok" and "DEQUEUED" in A.vstr(p.ret) for p in some_)
    chk.instance("C07/R3", "ssh Receiver::recv: closed queue (None) is returned as Err(DequeueMessage)", b.name,
                 rc[0].loc() if rc else None, holds=ok, key="C07/R3 ssh::Receiver::recv none-not-error")


# ---------------------------------------------------------------------------------------------
CLOSE_KIND = {"Transport", "SshTransport", "TlsTransport", "DequeueMessage", "EnqueueMessage"}
WAIT_OK = ("Mutex::lock", "ServerMsg::recv", "PartialReply::recv")


def transport_error_variants(fx):
    """Variants of netconf::Error a transport handle reports when the peer is gone: those built in a RecvHandle::recv / SendHandle::send
    body, and those converted from the I/O, SSH, TLS and queue error types."""
    out = set()
    for name, b in fx.mir.items():
        if b.crate != "netconf":
            continue
        handle = ("as netconf::transport::RecvHandle>::recv" in name or "as netconf::transport::SendHandle>::send" in name)
        conv = name.startswith("<netconf::error::Error as std::convert::From<") and any(
            x in name for x in ("std::io::Error", "russh::Error", "rustls::Error", "mpsc::error::SendError", "tokio::sync::mpsc"))
        if not (handle or conv):
            continue
        for bl in b.blocks:
            for s in bl["stmts"]:
                if s["k"] == "assign" and s["rv"]["k"] == "agg" and s["rv"].get("adt") == "netconf::error::Error":
                    out.add(s["rv"]["variant"])
    return out


def r4_session_recv(chk, fx):
    """Session::recv is where every pending request waits.  (a) When the transport read fails with an error a closed transport
    produces, the loop ends with Err: it is not retried (a closed transport fails again at once: busy loop) — decided on the explored
    paths of one loop iteration, per error variant the path can still hold.  (b) The loop waits only for the two locks (released by
    guard drop on every exit of their holder, the error exit included) and for the transport: any other wait needs a wake-up on the
    error exit that nothing establishes."""
    from vlib import absint as A
    from . import c05
    kinds = transport_error_variants(fx) | CLOSE_KIND
    chk.extra["transport_error_variants"] = sorted(kinds)
    chk.instance("C07/R4", "error variants of a closed transport identified (%s)" % ", ".join(sorted(kinds)), "netconf::error::Error", None,
                 holds=CLOSE_KIND <= kinds and len(transport_error_variants(fx)) >= 2, key="C07/R4 transport-error-variants-not-found")
    allv = None
    for it in fx.item_list:
        if it["kind"] == "Enum" and it["def"] == "netconf::error::Error":
            allv = {v["name"] for v in it["variants"]}
    if not allv:
        raise F.AnchorLost("enum netconf::error::Error")
    n = 0
    for p in c05.explore_recv(fx, "Pending", "Pending"):
        rk = [k for k, v in p.assume.items() if k.startswith("variant:") and "«READ»" in k and k.endswith(".await") and v == "Err"]
        if not rk or p.end == "abort":
            continue
        n += 1
        ek = rk[0] + "→Err.0"
        known = p.assume.get(ek)
        possible = {known} if known else allv - set(p.assume.get("not" + ek, ()))
        if A.is_res(p.ret) and p.ret[2] == "Err" and p.end in ("return", "fallthrough"):
            chk.instance("C07/R4", "Session::recv: failed transport read (%s) ends the wait with Err" % (known or "any other error"), c05.RECV_CO, None, holds=True)
            continue
        bad = sorted(possible & kinds)
        chk.instance("C07/R4", "Session::recv: the read is retried only after errors a closed transport cannot produce", c05.RECV_CO, None,
                     holds=not bad, key="C07/R4 Session::recv retries-after-transport-error",
                     detail=None if not bad else "the loop goes round again (%s) when the read failed with %s: on a closed transport the read fails "
                     "again at once, for ever" % (p.end, "/".join(bad)))
    chk.floor("C07/R4 failing-read paths of Session::recv", n, 1)
    # (b) what the loop waits for
    b = fx.user_coroutine("netconf::session::Session::<T>::recv")
    n = 0
    for a in b.await_points():
        n += 1
        src = a.get("src")
        what = src.name() if src is not None else ("a future of type %s" % (b.local_ty(F.op_base(a["poll"].args[0])) if a.get("poll") else "?"))
        ok = src is not None and T.short(T.strip_generics(src.name()), 2) in WAIT_OK
        chk.instance("C07/R4", "Session::recv waits for %s" % T.short(what, 2), b.name, src.loc() if src is not None else loc_of(a.get("sp")), holds=ok,
                     key="C07/R4 Session::recv unaudited-wait %s" % T.short(T.strip_generics(what), 2),
                     detail=None if ok else "nothing wakes this wait when the request that is reading the transport fails: the other pending requests hang")
    chk.floor("C07/R4 await points of Session::recv", n, 3)


# ---------------------------------------------------------------------------------------------
def r2_other_wait_loops(chk, fx, pump):
    """Any other loop of the SSH transport that waits on the channel (during set-up, say): `channel.wait() == None` means the channel is
    closed and will be None again at once — the None outcome must leave that loop too."""
    n = 0
    for name, b in sorted(fx.mir.items()):
        if b.crate != "netconf" or "::transport::ssh::" not in name or b is pump or "::tests::" in name:
            continue
        waits = b.calls_to("russh::Channel::<S>::wait", user_only=True)
        if not waits:
            continue
        loops = [b.natural_loop(h) for h in b.loop_heads()]
        waits = [w for w in waits if any(w.bb in lp for lp in loops)]
        if not waits:
            continue
        chk.analysed(name)
        for bi, bl in enumerate(b.blocks):
            if bl.get("cleanup"):
                continue
            for s in bl["stmts"]:
                if s["k"] != "assign" or s["rv"]["k"] != "discr" or (s.get("sp") or {}).get("m"):
                    continue
                pl = s["rv"]["pl"]
                if pl.get("p") or b.local_ty(pl["l"]) != "std::option::Option<russh::ChannelMsg>":
                    continue
                t = b.blocks[bi]["term"]
                if t["k"] != "switch" or F.op_local(t["discr"]) != s["pl"]["l"]:
                    continue
                m = {v: x for v, x in t["targets"]}
                tgt = m.get(0, t["otherwise"])
                again = [w for w in waits if w.bb in b.reachable(tgt)]
                n += 1
                chk.instance("C07/R2", "%s: channel.wait() == None (channel closed) leaves the loop" % T.short(T.strip_generics(name), 3), name, loc_of(s.get("sp")),
                             holds=not again, key="C07/R2 %s wait-None-stays-in-loop" % T.short(T.strip_generics(name), 3),
                             detail="the closed channel is polled again immediately: the connection attempt spins for ever" if again else None)
        if n == 0:
            chk.instance("C07/R2", "%s waits on the channel in a loop but never looks at the None outcome" % T.short(T.strip_generics(name), 3), name, waits[0].loc(),
                         holds=False, key="C07/R2 %s wait-None-unchecked" % T.short(T.strip_generics(name), 3))
