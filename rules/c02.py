"""C02 — Installed policies never accept routes outside the evaluated set (structural part, per update).

Same GRAMMAR engine as C01 (abstract interpretation of load.rs for every abstract case).
"""
from vlib import facts as F, thir as T, xmlgrammar as X, xmlemit as XE
from vlib.report import loc_of
from . import agent_common as AC

AGENT = AC.AGENT
ALLOWED_ELEMENTS = {"configuration", "policy-options", "policy-statement", "name", "term", "from", "family", "route-filter",
                    "address", "prefix-length-range", "then", "accept", "reject"}

EXPLANATION = (
    "For every abstract case of Differences::write_xml (old in {None, Some(empty), Some(non-empty)} x new in {empty, non-empty} x "
    "{inet, inet6}) and both Update variants: C02/R1 every emitted then/accept sits in a term that also has from/family with the text "
    "of the same address family, and is emitted only when new is non-empty; C02/R2 in an accepting term the non-deleted route-filters "
    "are drawn only from self.new (new.iter() / new.diff(old)) and deleted ones only from old.diff(new), each writing range.prefix() "
    "and range.lower()/upper(); C02/R3 a family that becomes empty is removed as a whole term (term[delete]) — with new empty the "
    "grammar contains no accept; C02/R4 then/reject is emitted unconditionally as the last child of every Update; C02/R5 the payload "
    "root is configuration/policy-options/policy-statement, every element name is a string literal from the fixed set, the only "
    "sender is Client<_,Open>::load_config and Client<_,Open> comes only from open_db(self.junos.ephemeral_db()); C02/R6 the `old` handed to the writer is the installed set of the same policy and family (compare table, shared with C01/R1) — otherwise ranges that left the evaluated set are never deleted; C02/R7 the candidate and the installed reader normalise policy names by the same chain, so compare pairs a policy with its own installed state. Not decided: that "
    "the evaluated set is the right one (C11), Junos merge semantics, the accept-set of a concrete resulting policy."
)


def run(ctx):
    chk, fx = ctx.chk, ctx.facts
    chk.explanation = EXPLANATION
    chk.assumptions += ["a Junos term without route-filter but with `from family X` matches all routes of X: such a term must never be newly created accepting (it is only ever merged onto an existing term)"]
    fn, trees = AC.family_trees(fx)
    chk.analysed(fn)
    # what is written for a family is a function of {old absent / empty / non-empty} x {new empty / non-empty} only (the abstract cases
    # below).  A writer that *probes* the sets — "nothing to add? then write nothing" via diff(..).next(), is_subset, a count — has cases
    # the table does not distinguish: with new a strict subset of old such a shortcut drops the deletions.
    PROBES = ("Iterator::next", "Iterator::count", "Iterator::any", "Iterator::all", "Iterator::peekable", "Iterator::eq", "Iterator::nth", "Iterator::last",
              "HashSet::<T, S>::is_subset", "HashSet::<T, S>::is_superset", "HashSet::<T, S>::is_disjoint", "Iterator::min", "Iterator::max", "Iterator::position")
    probes = []
    for n2, b in sorted(fx.mir.items()):
        if n2 == fn or n2.startswith(fn + "::{closure"):
            for c in b.calls():
                if not c.macro and c.is_fn(*PROBES) and getattr(c, "desugar", None) != "ForLoop":
                    probes.append((n2, c))
    chk.instance("C02/R2", "the family writer does not probe the contents of old / new beyond emptiness (%d probing calls)" % len(probes), fn,
                 probes[0][1].loc() if probes else None, holds=not probes, key="C02/R2 writer-probes-set-contents",
                 detail=None if not probes else "%s: the emission depends on a relation between old and new that the abstract cases do not separate" % T.short(probes[0][1].name(), 2))
    n = 0
    names = set()
    for (afi, label), nodes in sorted(trees.items()):
        fam = {"Ipv4": "inet", "Ipv6": "inet6"}[afi]
        kc = "%s %s" % (fam, label)
        if isinstance(nodes, str):
            chk.instance("C02/R1", "emission for %s could not be derived" % kc, fn, None, holds=False, detail=nodes,
                         key="C02/R1 undecided %s" % kc)
            continue
        n += 1
        new_empty = "new=∅" in label
        for x in XE.walk_nodes(nodes):
            if isinstance(x.get("tag"), str):
                names.add(x["tag"])
            elif x.get("tag") is not None:
                chk.instance("C02/R5", "%s: element name is not a string literal: %s" % (kc, x["tag"]), fn, loc_of(x.get("sp")), holds=False,
                             key="C02/R5 dynamic-element-name %s" % kc)
            if x.get("raw") is not None:
                chk.instance("C02/R5", "%s: raw write into the payload: %s" % (kc, x["raw"]), fn, loc_of(x.get("sp")), holds=False,
                             key="C02/R5 raw-write %s" % kc)
        accepts = []
        for term in [x for x in nodes if x.get("tag") == "term"]:
            th = AC.child(term, "then")
            acc = AC.child(th, "accept") if th else None
            if acc is not None:
                accepts.append(term)
                fr = AC.child(term, "from")
                famn = AC.child(fr, "family") if fr else None
                ok = famn is not None and AC.text_lit(famn) == fam and not AC.has_attr(term, "delete")
                chk.instance("C02/R1", "%s: accepting term is restricted to family %s" % (kc, fam), fn, loc_of(term.get("sp")), holds=ok,
                             key="C02/R1 accept-without-family %s" % kc)
                # R2: sources of the route filters
                for c in (fr.get("children", []) if fr else []):
                    if c.get("tag") != "route-filter":
                        continue
                    deleted = AC.has_attr(c, "delete", "delete")
                    star = c.get("star") or ()
                    if deleted:
                        ok = star == ("difference", "OLD", "NEW")
                    else:
                        ok = star in (("iter", "NEW"), ("difference", "NEW", "OLD"))
                    chk.instance("C02/R2", "%s: %s route-filters come from %s" % (kc, "deleted" if deleted else "added", star), fn,
                                 loc_of(c.get("sp")), holds=ok, key="C02/R2 route-filter-source %s %s" % (kc, "delete" if deleted else "add"))
                for c in th.get("children", []):
                    if c.get("tag") not in ("accept",):
                        chk.instance("C02/R1", "%s: unexpected action <%s> in an accepting term" % (kc, c.get("tag")), fn, None, holds=False,
                                     key="C02/R1 extra-action %s" % kc)
            # any other action element anywhere in the term
        chk.instance("C02/R3" if new_empty else "C02/R1", "%s: accept is emitted %s" % (kc, "never (family empty)" if new_empty else "once, with its family"),
                     fn, None, holds=(len(accepts) == 0) if new_empty else (len(accepts) == 1), key="C02/R3 accept-count %s" % kc)
    chk.extra["family_cases_derived"] = n
    # envelope
    fn2, env = AC.envelope_trees(fx)
    chk.analysed(fn2)
    for var, nodes in env.items():
        if isinstance(nodes, str):
            chk.instance("C02/R4", "envelope for %s could not be derived" % var, fn2, None, holds=False, detail=nodes, key="C02/R4 undecided %s" % var)
            continue
        for x in XE.walk_nodes(nodes):
            if isinstance(x.get("tag"), str):
                names.add(x["tag"])
            elif x.get("tag") is not None:
                chk.instance("C02/R5", "%s: element name is not a string literal" % var, fn2, loc_of(x.get("sp")), holds=False,
                             key="C02/R5 dynamic-element-name %s" % var)
            if x.get("raw") is not None:
                chk.instance("C02/R5", "%s: raw write into the payload" % var, fn2, loc_of(x.get("sp")), holds=False, key="C02/R5 raw-write %s" % var)
        path = []
        cur = nodes
        while len(cur) == 1 and cur[0].get("tag") in ("configuration", "policy-options", "policy-statement"):
            path.append(cur[0]["tag"])
            last = cur[0]
            cur = cur[0]["children"]
        chk.instance("C02/R5", "%s: payload root path %s" % (var, "/".join(path)), fn2, None,
                     holds=path == ["configuration", "policy-options", "policy-statement"], key="C02/R5 root-path %s" % var)
        if var == "Update" and path:
            kids = last["children"]
            ok = bool(kids) and kids[-1].get("tag") == "then" and [c.get("tag") for c in kids[-1]["children"]] == ["reject"] \
                and not kids[-1].get("star")
            chk.instance("C02/R4", "Update: unconditional trailing <then><reject/></then>", fn2, None, holds=ok, key="C02/R4 trailing-reject")
            acc = [x for x in XE.walk_nodes(nodes) if x.get("tag") == "accept"]
            chk.instance("C02/R4", "Update envelope itself never emits accept", fn2, None, holds=not acc, key="C02/R4 envelope-accept")
        if var == "Delete" and path:
            acts = [x for x in XE.walk_nodes(nodes) if x.get("tag") in ("accept", "then", "term")]
            chk.instance("C02/R4", "Delete emits no terms / actions", fn2, None, holds=not acts, key="C02/R4 delete-has-actions")
    extra = names - ALLOWED_ELEMENTS
    chk.instance("C02/R5", "element names emitted by the agent ⊆ the policy-statement vocabulary (%s)" % sorted(names), fn, None,
                 holds=not extra, key="C02/R5 element-vocabulary %s" % sorted(extra))
    r5_sender(chk, fx)
    r6_old_is_installed(chk, fx)
    r7_name_spaces_agree(chk, fx)


class _Rename:
    """Record another property's rule instances under this property's rule id."""
    def __init__(self, chk, old, new):
        self._chk, self._old, self._new = chk, old, new

    def instance(self, rule, what, fn, loc=None, holds=True, key=None, detail=None):
        return self._chk.instance(rule.replace(self._old, self._new), what, fn, loc, holds=holds,
                                  key=(key.replace(self._old, self._new) if key else None), detail=detail)

    def floor(self, name, counted, minimum):
        return self._chk.floor(name.replace(self._old, self._new), counted, minimum)

    def __getattr__(self, a):
        return getattr(self._chk, a)


def r6_old_is_installed(chk, fx):
    """Deletions are computed against `old`.  If the writer is not handed the *installed* set of the same policy and family
    (old = None, or an emptied / foreign set), ranges that left the evaluated set are never deleted and a family that became empty
    keeps its accepting term: the installed policy accepts routes outside the evaluated set.  Same extraction as C01/R1."""
    from . import c01
    c01.r1_compare(_Rename(chk, "C01/R1", "C02/R6"), fx)
    # .. and the installed set itself must be what is installed: the reader keeps every route-filter of a term (none dropped, merged
    # or mis-parsed) and every statement the agent wrote — a range the reader loses is a range the next update never deletes
    c01.r4_installed_reader(_Rename(chk, "C01/R4", "C02/R6:installed"), fx)
    c01.r5_installed_statement(_Rename(chk, "C01/R5", "C02/R6:statement"), fx)
    c01.r6_term_name_is_family(_Rename(chk, "C01/R6", "C02/R6:term"), fx)


def _name_chain(t):
    """For a policy-statement reader: the call chain between read_text(<name>) and Name::new, as a tuple of short names."""
    out = []
    body = T.user_body(t)
    lets = {}
    for s in T.walk(body):
        if s.get("k") == "LetStmt" and s.get("init") is not None:
            lets[T.pat_str(s["pat"])] = s["init"]
    for asg in T.find(body, "Assign"):
        if X.ntext(asg["lhs"]) != "name":
            continue
        e = T.peel(asg["rhs"])
        chain = []
        while True:
            e = T.peel(e)
            if e.get("k") == "Try":
                e = e["arg"]
            elif e.get("k") == "Adt" and e.get("variant") == "Some":
                e = e["fields"][0]["expr"]
            elif e.get("k") == "Call" and e.get("fn") and e.get("args"):
                chain.append(T.short(e["fn"], 2))
                e = e["args"][0]
            elif e.get("k") == "Var" and e["name"] in lets:
                e = lets[e["name"]]
            else:
                break
        out.append((tuple(c for c in chain if c not in ("Result::map_err", "Deref::deref", "From::from", "Into::into", "BytesEnd::name", "BytesStart::to_end")), X.ntext(e)))
    return out


def _name_chain_paths(fx, reader):
    """The conversions between the text of <name> and the value the reader keeps, read off the explored paths (helpers inlined): for the
    assignment whose value derives from NsReader::read_text, the function names on the way from the stored value down to read_text."""
    from vlib import absint as A
    SKIP = ("Result::map_err", "Deref::deref", "From::from", "Into::into", "BytesEnd::name", "BytesStart::to_end", "AsRef::as_ref", "Borrow::borrow", "Clone::clone")
    chains = []
    for p in A.Interp(fx, crates=(AC.AGENT,), max_paths=6000).explore(reader):
        for a in p.assigns():
            v = a[2]
            if not A.mentions(v, lambda x: x[0] == "term" and T.short(x[1], 2) == "NsReader::read_text"):
                continue
            chain, x = [], v
            for _ in range(40):
                if x[0] == "term":
                    f = T.short(x[1], 2)
                    if f not in SKIP:
                        chain.append(f)
                    if f == "NsReader::read_text":
                        break
                    nxt = [y for y in x[2] if A.mentions(y, lambda z: z[0] == "term" and T.short(z[1], 2) == "NsReader::read_text")]
                    if not nxt:
                        break
                    x = nxt[0]
                elif x[0] == "adt":
                    nxt = [y for _, y in x[3] if A.mentions(y, lambda z: z[0] == "term" and T.short(z[1], 2) == "NsReader::read_text")]
                    if not nxt:
                        break
                    if not (A.is_opt(x) or A.is_res(x)):
                        chain.append(str(x[1]).rsplit("::", 1)[-1])
                    x = nxt[0]
                elif x[0] in ("payload", "field"):
                    x = x[1]
                else:
                    break
            if tuple(chain) not in chains:
                chains.append(tuple(chain))
    return chains


def r7_name_spaces_agree(chk, fx):
    """compare() pairs a managed policy with its installed counterpart by *name*.  The two readers that produce those names
    (Maybe<Candidate> from the running config, Maybe<Installed> from the ephemeral instance) must normalise the <name> text
    identically — otherwise a policy whose name contains whitespace padding or an XML metacharacter is treated as not installed
    (old = None): stale ranges are never withdrawn, and a Delete goes to a name that does not exist."""
    F_ = AC.AGENT + "::policies::fetch::"
    rd = {}
    for which in ("Candidate", "Installed"):
        n = "<" + F_ + "Maybe<" + AC.AGENT + "::policies::" + which + "> as netconf::message::ReadXml>::read_xml"
        t = fx.thir.get(n)
        if t is None:
            raise F.AnchorLost("reader %s" % n)
        chk.analysed(n)
        ch = _name_chain_paths(fx, n)
        if len(ch) != 1:
            raise F.AnchorLost("%s: assignment of the policy name (%d different chains found)" % (n, len(ch)))
        rd[which] = (n, (ch[0], ""), t)
    a, b = rd["Candidate"][1], rd["Installed"][1]
    chk.instance("C02/R7", "candidate and installed policy names are normalised by the same chain (%s vs %s)" % (" <- ".join(a[0]), " <- ".join(b[0])),
                 rd["Installed"][0], loc_of(rd["Installed"][2].get("sp")), holds=a[0] == b[0] and "NsReader::read_text" in a[0],
                 key="C02/R7 policy-name normalisation differs between readers")


def r5_sender(chk, fx):
    # who sends LoadConfiguration
    sites = []
    for name, b in fx.mir.items():
        if b.crate != AGENT:
            continue
        for c in b.calls():
            if c.is_fn("Session::<T>::rpc") and any("LoadConfiguration" in g for g in c.gargs):
                sites.append((name, c))
    for name, c in sites:
        chk.instance("C02/R5", "LoadConfiguration is sent only from Client<_,Open>::load_config", name, c.loc(),
                     holds="netconf::Open>::load_config::" in name, key="C02/R5 load-sent-from %s" % T.strip_generics(name))
    chk.floor("C02/R5 LoadConfiguration send sites", len(sites), 1)
    # open_db argument in run: self.junos.ephemeral_db()
    b = fx.user_coroutine(AGENT + "::task::Updater::<T>::run")
    od = [c for c in b.calls() if not c.macro and c.is_fn("::open_db")]
    if len(od) != 1:
        raise F.AnchorLost("run: open_db call")
    org = b.backward_origins(F.op_base(od[0].args[1]), through_call=lambda c: False)
    srcs = [o["call"] for o in org if o["k"] == "call" and o["call"] is not None]
    ok = len(srcs) == 1 and srcs[0].is_fn("JunosOpts::ephemeral_db")
    chk.instance("C02/R5", "the database opened is the configured ephemeral instance (self.junos.ephemeral_db())", b.name, od[0].loc(),
                 holds=ok, key="C02/R5 open_db-argument")
    # open_db opens an ephemeral database
    cl = [t for n, t in fx.thir.items() if "netconf::Closed>::open_db::" in n and "closure" in n]
    txt = " ".join(X.ntext(T.user_body(t)) for t in cl)
    ok = "Builder::ephemeral(builder,Option::Some(name))" in txt and "OpenConfiguration" in " ".join(
        g for n, bb in fx.mir.items() if "netconf::Closed>::open_db::" in n for c in bb.calls() for g in c.gargs)
    chk.instance("C02/R5", "open_db requests <open-configuration> with ephemeral(Some(name))", AGENT + "::netconf::Client::open_db", None,
                 holds=ok, key="C02/R5 open_db-ephemeral")
    # load uses Merge
    lc = [t for n, t in fx.thir.items() if "netconf::Open>::load_config::" in n and "closure" in n]
    cfg = []
    for t in lc:
        for c in T.calls(T.norm(t["body"])):
            if T.short(c["fn"], 2) == "Config::new" and "load_configuration" in c["fn"]:
                cfg.append(c)
    ok = bool(cfg)
    for c in cfg:
        a = [T.expr_str(T.peel(x)).split("::")[-1] for x in c["args"]]
        g = " ".join(c.get("gargs", []))
        ok = ok and len(a) == 3 and a[1] == "Xml" and a[2] == "Merge" and "load_configuration::Xml" in g and "load_configuration::Merge" in g
    chk.instance("C02/R5", "loads use Config::new(<the update>, Xml, Merge) (%d construction sites)" % len(cfg), AGENT + "::netconf::Client::load_config", None,
                 holds=ok, key="C02/R5 load-action-merge")
