"""C01 — Agent run converges installed prefix filters to the IRR-derived target (structural necessary conditions).

TABLE (complete compare decision table incl. old/new wiring), GRAMMAR (per-family emission for the 6 abstract cases,
checked against what the agent's own Term/TermFrom/RouteFilter readers require), policy envelope.
The set-valued round trip over concrete values and run histories is not decided.
"""
from vlib import facts as F, thir as T, xmlgrammar as X, xmlemit as XE
from vlib.report import loc_of
from . import agent_common as AC

AGENT = AC.AGENT
FETCH = AGENT + "::policies::fetch::"

EXPLANATION = (
    "C01/R1 (TABLE): the compare closure's match, evaluated over the exhaustive abstract domain evaluated in {absent, "
    "present/ranges=None, present/ranges=Some} x installed in {absent, present}, equals: (Some,present)->Update{old=Some(installed "
    "family), new=evaluated family}; (Some,absent)->Update{old=None}; (None-ranges,_)->nothing; (absent,present)->Delete; "
    "(absent,absent)->unreachable — with ipv4 built from (old_ipv4,new_ipv4), ipv6 from (old_ipv6,new_ipv6) in (old,new) order, and "
    "names the union of both key sets. C01/R2 (GRAMMAR): abstract interpretation of Differences::write_xml over old in {None, "
    "Some(empty), Some(non-empty)} x new in {empty, non-empty} x {inet, inet6}: (a) every live (non-delete) term contains the children "
    "the agent's own Term/TermFrom readers require (name, from/family, then/accept) with name == family text; (b) delete=\"delete\" on "
    "a term exactly when old non-empty and new empty; (c) deleted route-filters iterate old.diff(new), added ones new.diff(old) / "
    "new.iter(); (d) Ranges::diff is HashSet::difference(self, other); route-filter leaves are address + prefix-length-range (read back "
    "by Junos as choice-ident/choice-value — normalisation assumed). C01/R3: Delete emits policy-statement[delete]/name only; Update "
    "emits name, ipv4 term, ipv6 term, then/reject in that order. With (c)+(d), merge semantics give (old\\(old\\new)) U (new\\old) = new "
    "(argued on paper). Not decided: set contents, Junos merge behaviour, read-back equality for concrete values, run sequences."
)


def run(ctx):
    chk, fx = ctx.chk, ctx.facts
    chk.explanation = EXPLANATION
    chk.assumptions += [
        "Junos renders <prefix-length-range> back as <choice-ident>prefix-length-range</choice-ident><choice-value>..</choice-value> (normalisation table)",
        "load-configuration action=merge adds elements and removes those carrying delete=\"delete\"",
    ]
    r1_compare(chk, fx)
    r2_family(chk, fx)
    r3_envelope(chk, fx)
    r4_installed_reader(chk, fx)
    r5_installed_statement(chk, fx)
    r6_term_name_is_family(chk, fx)
    r7_managed_means_annotated(chk, fx)
    r8_success_means_acknowledged(chk, fx)


def r7_managed_means_annotated(chk, fx):
    """'.. and contains no policy that is no longer marked as managed': compare deletes an installed policy exactly when its statement is
    not among the candidates (R1), so the clause stands on which statements the candidate reader selects — active, annotated with a
    comment that *is* the bgpfu-fltr annotation, default reject.  C16's decision on that reader, recorded here."""
    from .c15 import _Rename
    from . import c16
    c16.selection_rules(_Rename(chk, "C16/R", "C01/R7:C16/R"), fx)


def r8_success_means_acknowledged(chk, fx):
    """'When an agent run reports success ..' is a premise about the router: the run returned Ok only if every step, the commit above all,
    was positively acknowledged.  What counts as an acknowledgement is the classification of the replies of the operations the run
    uses (an <ok/> next to an rpc-error of severity error is not one): C04/R6's decision, recorded here."""
    from .c15 import _Rename
    from . import c04
    c04.r6_acknowledgement(_Rename(chk, "C04/R6", "C01/R8:C04/R6"), fx)


def r1_compare(chk, fx):
    n, t, m, scr, rows = AC.decision_table(fx)
    chk.analysed(n)
    want = {
        ("present/ranges=Some", "present"): "update", ("present/ranges=Some", "absent"): "update",
        ("present/ranges=None", "present"): "none", ("present/ranges=None", "absent"): "none",
        ("absent", "present"): "delete", ("absent", "absent"): ("unreachable", "none"),
    }
    for (e, i, arm, kind) in rows:
        w = want[(e, i)]
        ok = kind == w or (isinstance(w, tuple) and kind in w)
        chk.instance("C01/R1", "compare(%s, %s) => %s" % (e, i, kind), n, loc_of(arm.get("sp")) if arm else None, holds=ok,
                     key="C01/R1 compare (%s,%s)=>%s" % (e, i, kind))
        if kind == "update" and arm is not None:
            check_wiring(chk, n, arm, i)
    chk.floor("C01/R1 compare abstract cases", len(rows), 6)
    if any((arm or {}).get("collections") for (_, _, arm, _) in rows):
        # the table was obtained by evaluating compare as a whole on finite maps (one name per case): that every name of either map
        # is decided is part of that evaluation
        chk.instance("C01/R1", "compare evaluated on finite abstract maps (one representative name per case): every name of either map is decided", n,
                     None, holds=True)
        return
    # cross-check of the two evaluators on the form both can read
    coll_agrees = False
    try:
        rows2 = AC.decision_table_collections(fx)
        same = {(e, i): k for (e, i, _, k) in rows} == {(e, i): k for (e, i, _, k) in rows2} or \
            all(k == dict(((e2, i2), k2) for (e2, i2, _, k2) in rows2).get((e, i)) or (e, i) == ("absent", "absent") for (e, i, _, k) in rows)
        chk.instance("C01/R1", "the collection-level evaluation of compare (finite abstract maps) gives the same table", n, None, holds=same,
                     key="C01/R1 compare evaluators-disagree", detail=None if same else str([(e, i, k) for (e, i, _, k) in rows2]))
        want2 = {("present/ranges=Some", "present"): "update", ("present/ranges=Some", "absent"): "update", ("present/ranges=None", "present"): "none",
                 ("present/ranges=None", "absent"): "none", ("absent", "present"): "delete"}
        coll_agrees = same and all(dict(((e, i), k) for (e, i, _, k) in rows2).get(key) == v for key, v in want2.items())
    except F.AnchorLost:
        pass
    if coll_agrees:
        # every representative name of either map received its decision when compare was run on the finite maps: the name set it works
        # over is the union, however it is built (chain + collect, collect + extend, two passes)
        chk.instance("C01/R1", "names = keys(evaluated) ∪ keys(installed): established by the collection-level evaluation (every name of either map is decided)",
                     n, None, holds=True)
        return
    # names = union of both key sets: the iterator the decision closure is applied to derives from keys(self.map) and keys(installed.map)
    from vlib import absint as A
    cname = AC.find_compare(fx)
    tt = fx.thir[cname]
    paths = A.Interp(fx, crates=(AGENT,), no_inline=(n,)).explore(cname)
    recvs = []
    for p in paths:
        for ev in p.trace:
            if ev[0] == "call" and any(isinstance(a, tuple) and a[0] == "closure" and a[1] == n for a in ev[2]):
                recvs.append((ev[1], ev[2][0]))
            # loop form: the decision is the body of a `for` over the names (the lookups are in compare itself)
            if n == cname and ev[0] == "next" and ev[2] == "Some" and any(x[0] == "term" and T.short(x[1], 2) == "HashMap::keys" for x in A.walk_value(ev[1])):
                recvs.append(("Iterator::map", ev[1]))
    ok = bool(recvs)
    detail = None
    for fnm, r in recvs:
        txt = A.vstr(r)
        keys = sorted({A.vstr(x[2][0]) for x in A.walk_value(r) if x[0] == "term" and T.short(x[1], 2) == "HashMap::keys" and x[2]})
        both = any("self" in k and k.endswith(".map") for k in keys) and any("installed" in k and k.endswith(".map") for k in keys)
        dropping = [T.short(x[1], 2) for x in A.walk_value(r) if x[0] == "term" and T.short(x[1], 2) in DROPPING]
        if not both or dropping or T.short(fnm, 2) not in ("Iterator::filter_map", "Iterator::map", "Iterator::flat_map"):
            ok = False
            detail = "%s over %s" % (T.short(fnm, 2), txt[:200])
    chk.instance("C01/R1", "names = keys(evaluated) ∪ keys(installed): the decision is taken for every name of either map", tt["def"], loc_of(tt.get("sp")),
                 holds=ok, key="C01/R1 compare names-union", detail=detail)


DROPPING = ("Iterator::filter", "Iterator::take", "Iterator::skip", "Iterator::take_while", "Iterator::skip_while", "Iterator::step_by", "Iterator::nth",
            "HashSet::intersection", "HashSet::difference", "HashSet::symmetric_difference", "Iterator::zip")


def check_wiring(chk, n, arm, i_case):
    """ipv4 <- (installed.ipv4, ranges.0); ipv6 <- (installed.ipv6, ranges.1); (old, new) order — read off the abstract result."""
    from vlib import absint as A
    vals = arm.get("values") or [arm.get("value")]
    v = vals[0]
    upd = A.payload0(v) if v is not None and A.is_opt(v) and v[2] == "Some" else None
    fs = A.fields_of(upd) if upd else {}
    for fam in ("ipv4", "ipv6"):
        want_old = A.some(("sym", "old_" + fam)) if i_case == "present" else A.NONE
        ok, d = True, None
        # on every path of the case (a fork means the result depends on something besides the case: e.g. whether a set is empty)
        for vv in vals:
            u = A.payload0(vv) if vv is not None and A.is_opt(vv) and vv[2] == "Some" else None
            dd = A.fields_of(u).get(fam) if u else None
            df = A.fields_of(dd) if dd is not None else {}
            good = dd is not None and dd[0] == "adt" and dd[1].endswith("policies::Differences") and df.get("old") == want_old and df.get("new") == ("sym", "new_" + fam)
            if not good:
                ok, d = False, dd
            elif d is None:
                d = dd
        chk.instance("C01/R1", "Update.%s = Differences{old: %s installed %s, new: evaluated %s}" % (fam, "Some" if i_case == "present" else "None", fam, fam), n,
                     loc_of(arm.get("sp")), holds=ok, detail=A.vstr(d) if d is not None else "no %s field" % fam,
                     key="C01/R1 compare wiring %s installed=%s" % (fam, i_case))
    nm = fs.get("name")
    # .. i.e. the key both maps were looked up with (whatever the variable is called, closure parameter or loop variable)
    ok = nm is not None and (A.vstr(nm) in (arm.get("keys") or ()) or A.vstr(nm) in ("«param:name»", "«var:name»"))
    chk.instance("C01/R1", "Update.name is the policy's own name (%s)" % (A.vstr(nm) if nm is not None else None), n, loc_of(arm.get("sp")), holds=bool(ok),
                 key="C01/R1 compare update-name installed=%s" % i_case)
    fe = fs.get("filter_expr")
    chk.instance("C01/R1", "Update.filter_expr is the evaluated policy's expression", n, loc_of(arm.get("sp")), holds=fe == ("sym", "filter_expr"),
                 key="C01/R1 compare update-filter_expr installed=%s" % i_case)


def _bind_name(p):
    while p is not None and p.get("k") == "Deref":
        p = p["sub"]
    if p is not None and p.get("k") == "Bind":
        return p["name"]
    return None


def r2_family(chk, fx):
    fn, trees = AC.family_trees(fx)
    chk.analysed(fn)
    term_req = AC.required_elements(fx, "<" + FETCH + "Term<'i> as " + FETCH + "BorrowedReadXml<'i>>::borrowed_read_xml")
    from_req = AC.required_elements(fx, "<" + FETCH + "TermFrom<'i> as " + FETCH + "BorrowedReadXml<'i>>::borrowed_read_xml")
    rf_req = AC.required_elements(fx, "<" + FETCH + "RouteFilter<'i> as " + FETCH + "BorrowedReadXml<'i>>::borrowed_read_xml")
    chk.extra["reader_requirements"] = {"term": sorted(term_req), "from": sorted(from_req), "route-filter": sorted(rf_req)}
    chk.floor("C01/R2 reader requirement sets", min(len(term_req), len(from_req), len(rf_req)), 1)
    samples = {}
    n_cases = 0
    for (afi, label), nodes in sorted(trees.items()):
        fam = {"Ipv4": "inet", "Ipv6": "inet6"}[afi]
        key_case = "%s %s" % (fam, label)
        if isinstance(nodes, str):
            chk.instance("C01/R2", "emission for %s could not be derived" % key_case, fn, None, holds=False, detail=nodes,
                         key="C01/R2 Differences::write_xml undecided %s" % key_case)
            continue
        n_cases += 1
        samples[key_case] = XE.render(nodes)
        old_nonempty = "Some(≠∅)" in label
        new_empty = "new=∅" in label
        terms = [x for x in nodes if x.get("tag") == "term"]
        others = [x for x in nodes if x.get("tag") != "term"]
        chk.instance("C01/R2", "%s: only <term> elements are emitted at family level" % key_case, fn, None, holds=not others,
                     key="C01/R2 family-level-non-term %s" % key_case)
        # (b) delete exactly when old non-empty and new empty
        want_delete = old_nonempty and new_empty
        dels = [x for x in terms if AC.has_attr(x, "delete", "delete")]
        live = [x for x in terms if not AC.has_attr(x, "delete")]
        chk.instance("C01/R2", "%s: term delete=\"delete\" %s" % (key_case, "emitted" if want_delete else "not emitted"), fn, None,
                     holds=(len(dels) == 1) == want_delete and len(dels) <= 1, key="C01/R2 term-delete %s" % key_case)
        if not new_empty:
            chk.instance("C01/R2", "%s: the family's term is written" % key_case, fn, None, holds=len(live) == 1,
                         key="C01/R2 term-missing %s" % key_case)
        for x in dels:
            nm = AC.text_lit(AC.child(x, "name"))
            chk.instance("C01/R2", "%s: deleted term is identified by <name>%s</name>" % (key_case, fam), fn, None, holds=nm == fam,
                         key="C01/R2 deleted-term-name %s" % key_case)
        # (a) live terms satisfy the agent's own reader
        for x in live:
            nm = AC.child(x, "name")
            fr = AC.child(x, "from")
            th = AC.child(x, "then")
            famn = AC.child(fr, "family") if fr else None
            acc = AC.child(th, "accept") if th else None
            have = {"name": nm, "from": fr, "then": th, "accept": acc, "family": famn}
            missing = sorted(e for e in (term_req | from_req) if have.get(e, True) is None)
            chk.instance("C01/R2", "%s: live term has what the agent's Term reader requires %s" % (key_case, sorted(term_req | from_req)), fn,
                         loc_of(x.get("sp")), holds=not missing, key="C01/R2 live-term-unreadable %s" % key_case,
                         detail=("missing: %s — the agent's reader of the installed configuration rejects this term" % missing) if missing else None)
            ok = AC.text_lit(nm) == fam and AC.text_lit(famn) == fam if (nm and famn) else False
            if nm and famn:
                chk.instance("C01/R2", "%s: <name> and <family> both read '%s' (reader requires name == family)" % (key_case, fam), fn, None,
                             holds=ok, key="C01/R2 term-name-family %s" % key_case)
            # (c) route-filter stars
            rfs = [c for c in (fr.get("children", []) if fr else []) if c.get("tag") == "route-filter"]
            stars = sorted((("delete" if AC.has_attr(c, "delete", "delete") else "add"), c.get("star")) for c in rfs)
            if "old=None" in label:
                want = [("add", ("iter", "NEW"))]
            else:
                want = [("add", ("difference", "NEW", "OLD")), ("delete", ("difference", "OLD", "NEW"))]
            chk.instance("C01/R2", "%s: route-filters written = %s" % (key_case, stars), fn, None, holds=stars == sorted(want),
                         key="C01/R2 route-filter-sets %s" % key_case, detail="expected %s" % sorted(want))
            for c in rfs:
                kids = [k.get("tag") for k in c.get("children", [])]
                ok = kids == ["address", "prefix-length-range"]
                chk.instance("C01/R2", "%s: route-filter leaves %s (reader requires %s via the Junos normalisation)" % (key_case, kids, sorted(rf_req)),
                             fn, None, holds=ok and rf_req <= {"address", "prefix-length-range"}, key="C01/R2 route-filter-leaves %s" % key_case)
                if ok:
                    at = str(c["children"][0].get("text"))
                    pt = str(c["children"][1].get("text"))
                    vok = "PrefixRange::prefix(elem(" in at and "PrefixRange::lower(elem(" in pt and "PrefixRange::upper(elem(" in pt \
                        and pt.index("PrefixRange::lower(") < pt.index("PrefixRange::upper(") and "'escaped'" in at and "'escaped'" in pt
                    chk.instance("C01/R2", "%s: route-filter writes range.prefix(), then range.lower()..range.upper()" % key_case, fn, None,
                                 holds=vok, key="C01/R2 route-filter-values %s" % key_case)
    chk.extra["family_cases_derived"] = n_cases
    chk.extra["family_emission_samples"] = {k: v for k, v in list(samples.items())[:6]}
    # (d) what Ranges::diff / iter / is_empty *are* is part of the derivation: they are inlined down to the HashSet operation, the stars above
    # are ("difference", X, Y) = HashSet::difference(X.inner, Y.inner) in that receiver/argument order
    chk.instance("C01/R2", "set operations are resolved down to HashSet::{iter,difference,is_empty} on the Ranges' own set (no other adaptor on the way)", fn,
                 None, holds=all(not isinstance(v, str) for v in trees.values()), key="C01/R2 set-operations resolved")


def r3_envelope(chk, fx):
    fn, env = AC.envelope_trees(fx)
    chk.analysed(fn)
    for var, nodes in env.items():
        if isinstance(nodes, str):
            chk.instance("C01/R3", "envelope for %s could not be derived" % var, fn, None, holds=False, detail=nodes,
                         key="C01/R3 envelope undecided %s" % var)
            continue
        chk.extra.setdefault("envelope_samples", {})[var] = XE.render(nodes)
        ok = len(nodes) == 1 and nodes[0]["tag"] == "configuration" and len(nodes[0]["children"]) == 1 \
            and nodes[0]["children"][0]["tag"] == "policy-options" and len(nodes[0]["children"][0]["children"]) == 1 \
            and nodes[0]["children"][0]["children"][0]["tag"] == "policy-statement"
        chk.instance("C01/R3", "%s payload is configuration/policy-options/policy-statement" % var, fn, None, holds=ok,
                     key="C01/R3 envelope root %s" % var)
        if not ok:
            continue
        ps = nodes[0]["children"][0]["children"][0]
        seq = [(c.get("tag") or ("write_xml " + (str(c["recv"][1]) if isinstance(c.get("recv"), tuple) else "?"))) for c in ps["children"]]
        if var == "Delete":
            ok = seq == ["name"] and AC.has_attr(ps, "delete", "delete")
            chk.instance("C01/R3", "Delete: policy-statement[delete=delete] with <name> only (got %s)" % seq, fn, None, holds=ok,
                         key="C01/R3 envelope Delete")
        else:
            ok = seq == ["name", "write_xml self.ipv4", "write_xml self.ipv6", "then"] and not AC.has_attr(ps, "delete")
            th = ps["children"][-1] if ps["children"] else {}
            ok = ok and [c.get("tag") for c in th.get("children", [])] == ["reject"]
            chk.instance("C01/R3", "Update: name, ipv4 term, ipv6 term, then/reject in that order (got %s)" % seq, fn, None, holds=ok,
                         key="C01/R3 envelope Update")
        nm = AC.child(ps, "name")
        chk.instance("C01/R3", "%s: <name> carries the update's own policy name" % var, fn, None,
                     holds=nm is not None and "«NAME»" in str(nm.get("text")) and "'escaped'" in str(nm.get("text")), key="C01/R3 envelope name %s" % var)


# ---------------------------------------------------------------------------------------------
# C01/R4 — the value path of the agent's reader of its own installed state ("every state the agent installs can be
# read back"): the installed set that compare() diffs against must be the *whole* set of route-filters Junos returns,
# with address / length bounds taken from the elements the writer put them in.
# ---------------------------------------------------------------------------------------------
ITER_OK = ("Iterator::collect", "Iterator::map", "slice::iter", "IntoIterator::into_iter", "Deref::deref", "Vec::iter",
           "Result::map", "Result::map_err")


def _chain(e):
    """Outermost-first list of (short fn name, node) following the first argument; ends with the root expression."""
    out = []
    e = T.peel(e)
    while e.get("k") == "Call" and e.get("fn") and e.get("args"):
        out.append((T.short(e["fn"], 2), e))
        e = T.peel(e["args"][0])
    return out, e


def _closure_thir(fx, node):
    d = node.get("def") if node.get("k") == "Closure" else None
    return fx.thir.get(d) if d else None


def _template_pieces(s):
    """Decode rustc's packed format_args template (as far as the lossy JSON allows): list of str | ARG."""
    out, i = [], 0
    while i < len(s):
        c = ord(s[i])
        if c == 0:
            break
        if s[i] == "�" or c >= 0x80:
            out.append(None)
            i += 1
            continue
        out.append(s[i + 1:i + 1 + c])
        i += 1 + c
    return out


def _tuple_binds(pat):
    """(name0, name1) of a 2-tuple pattern of plain bindings."""
    while pat is not None and pat.get("k") == "Deref":
        pat = pat["sub"]
    if pat is None or pat.get("k") != "Leaf" or len(pat.get("sub", [])) != 2:
        return None
    names = {}
    for s in pat["sub"]:
        names[s["field"]] = _bind_name(s["pat"])
    return names.get("0"), names.get("1")


def _var_under(e, allowed=("str::parse", "Context::context", "Deref::deref", "Into::into", "From::from", "str::trim")):
    """The variable / field path an expression derives from through value-preserving conversions only."""
    e = T.peel(e)
    while True:
        if e.get("k") == "Try":
            e = T.peel(e["arg"])
        elif e.get("k") == "Call" and e.get("fn") and T.short(e["fn"], 2) in allowed and e.get("args"):
            e = T.peel(e["args"][0])
        else:
            break
    return X.ntext(e)


def r4_installed_reader(chk, fx):
    tir = None
    for n in fx.thir:
        if n.endswith("::try_into_ranges") and "TermFrom" in n:
            tir = n
    if tir is None:
        raise F.AnchorLost("TermFrom::try_into_ranges not found")
    chk.analysed(tir)
    t = fx.thir[tir]
    body = T.user_body(t)
    tail = body.get("expr") if body.get("k") == "Block" else body
    ch, root = _chain(tail)
    names = [c[0] for c in ch]
    bad = [x for x in names if x not in ITER_OK]
    ok = X.ntext(root) == "self.route_filters" and not bad and "Iterator::collect" in names and "Iterator::map" in names
    chk.instance("C01/R4", "try_into_ranges converts every installed route-filter (chain: %s over %s)" % (" <- ".join(names), X.ntext(root)), tir,
                 loc_of(t.get("sp")), holds=ok, key="C01/R4 try_into_ranges iterates-all-route-filters",
                 detail=("unrecognised adaptor(s) %s: a filter/skip/take/dedup here makes the installed set the agent diffs against "
                         "smaller than what is installed" % bad) if bad else None)
    # the per-route-filter closure
    mp = [c[1] for c in ch if c[0] == "Iterator::map"]
    clo = _closure_thir(fx, T.peel(mp[0]["args"][1])) if mp else None
    if clo is None:
        chk.instance("C01/R4", "per-route-filter conversion closure found", tir, None, holds=False, key="C01/R4 try_into_ranges closure unrecognised form")
        return
    cb = T.norm(clo["body"])
    wl = [c for c in T.calls(cb) if c["fn"].endswith("::with_length_range")]
    ok = len(wl) == 1
    chk.instance("C01/R4", "one PrefixRange::with_length_range call builds the range", clo["def"], loc_of(clo.get("sp")), holds=ok,
                 key="C01/R4 try_into_ranges with_length_range unrecognised form")
    if not ok:
        return
    w = wl[0]
    # what reaches with_length_range, read off the explored paths of the closure (however the splitting and parsing is spelled): the base
    # is the parsed <address>; the bounds are the two halves of prefix_length_range split once at the separator, parsed, in that order
    from vlib import absint as A
    import re as _re
    seen = set()
    for p in A.Interp(fx, crates=(AGENT,), max_paths=800).explore(clo["def"]):
        for e in p.trace:
            if e[0] == "call" and e[1].endswith("::with_length_range") and len(e[2]) >= 2:
                seen.add((A.vstr(e[2][0]), A.vstr(e[2][1])))
    bsrc, order_ok, sep = None, False, None
    if len(seen) == 1:
        bv, rv = list(seen)[0]
        m = _re.fullmatch(r"(?:\w+::)*\w+\(«param:(\w+)»\.address\)→Ok\.0", bv)
        bsrc = "%s.address" % m.group(1) if m and "parse" in bv else bv[:60]
        m2 = _re.fullmatch(r"RangeInclusive::new\(str::parse\(str::split_once\(«param:(\w+)»\.prefix_length_range, '(.)'\)→Some\.0\.0\)→Ok\.0, "
                           r"str::parse\(str::split_once\(«param:\1»\.prefix_length_range, '\2'\)→Some\.0\.1\)→Ok\.0\)", rv)
        if m2:
            order_ok, sep = True, m2.group(2)
    chk.instance("C01/R4", "range base is parsed from the route-filter's <address> (%s)" % bsrc, clo["def"], loc_of(w.get("sp")),
                 holds=bool(bsrc) and bsrc.endswith(".address"), key="C01/R4 try_into_ranges base-from-address")
    chk.instance("C01/R4", "length bounds keep their order: split_once(prefix_length_range, %r) -> (l,u) -> (parse l, parse u) -> lower..=upper" % sep,
                 clo["def"], loc_of(w.get("sp")), holds=bool(order_ok), key="C01/R4 try_into_ranges bounds-order",
                 detail=None if order_ok else str(sorted(seen))[:200])
    # writer/reader agreement on the leaf format
    wr = None
    # the template is in write_route_filter or in a private helper of the payload writer it calls (any non-test body of policies::load
    # with a two-placeholder format template is a candidate; the one with the reader's separator between the placeholders is it)
    cands = []
    for n, tt in sorted(fx.thir.items()):
        if "::policies::load::" in n and "::tests::" not in n:
            for c in T.walk(tt["body"]):
                if c.get("k") == "Lit" and c.get("lk") == "bytes" and (c.get("sp") or {}).get("m") in ("format", "format_args"):
                    if "policies::load::write_route_filter" in n:
                        wr = (n, c)
                    ps = _template_pieces(c["v"])
                    if sum(1 for x in ps if x is None) == 2:
                        cands.append((n, c))
    if wr is None:
        called = {c.get("fn") for n, tt in fx.thir.items() if "policies::load::write_route_filter" in n for c in T.find(T.norm(tt["body"]), "Call") if c.get("fn")}
        reach = [(n, c) for (n, c) in cands if any(n == f or n.startswith(f + "::{closure") or T.strip_generics(n) == T.strip_generics(f) for f in called)]
        if len(reach) == 1:
            wr = reach[0]
    if wr is None:
        raise F.AnchorLost("write_route_filter: prefix-length-range format template not found")
    pieces = _template_pieces(wr[1]["v"])
    args = [i for i, p in enumerate(pieces) if p is None]
    ok = len(args) == 2 and sep is not None
    if ok:
        before = "".join(p for p in pieces[:args[0]] if p)
        between = "".join(p for p in pieces[args[0] + 1:args[1]] if p)
        after = "".join(p for p in pieces[args[1] + 1:] if p)
        ok = between.count(str(sep)) == 1 and str(sep) not in before and str(sep) not in after
    chk.instance("C01/R4", "writer's prefix-length-range template %r has the reader's separator %r exactly once, between lower and upper" % (
        ["{}" if p is None else p for p in pieces], sep), wr[0], loc_of(wr[1].get("sp")), holds=ok, key="C01/R4 length-range format writer/reader agreement")
    # RouteFilter / TermFrom readers: which element feeds which field
    for (rd, want) in (("RouteFilter<'i>", {"address": "address", "prefix_length_range": "choice-value"}),
                       ("TermFrom<'i>", {"family": "family"})):
        rn = "<" + FETCH + rd + " as " + FETCH + "BorrowedReadXml<'i>>::borrowed_read_xml"
        rt = fx.thir.get(rn)
        if rt is None:
            raise F.AnchorLost("reader %s not found" % rn)
        chk.analysed(rn)
        got = {}
        for m in T.find(T.norm(rt["body"]), "Match"):
            for a in m["arms"]:
                g = X.ntext(a["guard"]) if a.get("guard") else ""
                el = None
                import re
                mm = re.search(r'local_name\(tag\)\),b"([^"]+)"\)', g)
                if mm:
                    el = mm.group(1)
                if el is None:
                    continue
                for asg in T.find(a["body"], "Assign"):
                    lhs = T.peel(asg["lhs"])
                    if lhs.get("k") == "Var" and "read_text" in X.ntext(asg["rhs"]):
                        # innermost enclosing element wins: nested arms are visited later and overwrite
                        inner_arm_el = el
                        got.setdefault(lhs["name"], set()).add(inner_arm_el)
        for field, elname in want.items():
            src = got.get(field, set())
            # a nested arm's assignment is seen under both the outer and the inner element; the inner one must be the wanted one
            ok = elname in src and src <= {elname, "choice-ident"}
            chk.instance("C01/R4", "%s.%s is the text of <%s> (assigned under %s)" % (rd.split("<")[0], field, elname, sorted(src)), rn, loc_of(rt.get("sp")),
                         holds=ok, key="C01/R4 %s field %s source" % (rd.split("<")[0], field))
        # struct literal wires each local to its own field
        lit = [a for a in T.find(T.norm(rt["body"]), "Adt") if a["adt"].endswith("fetch::" + rd.split("<")[0])]
        ok = len(lit) == 1
        if ok:
            for f in lit[0]["fields"]:
                ok = ok and _var_under(f["expr"], allowed=("Option::ok_or", "Option::ok_or_else")) == f["name"]
        chk.instance("C01/R4", "%s{..} stores each collected value in the field of the same name" % rd.split("<")[0], rn, loc_of(rt.get("sp")), holds=ok,
                     key="C01/R4 %s literal wiring" % rd.split("<")[0])
    # every <route-filter> is pushed, unconditionally
    rn = "<" + FETCH + "TermFrom<'i> as " + FETCH + "BorrowedReadXml<'i>>::borrowed_read_xml"
    rt = fx.thir[rn]
    pushes = []
    for m in T.find(T.norm(rt["body"]), "Match"):
        for a in m["arms"]:
            g = X.ntext(a["guard"]) if a.get("guard") else ""
            if 'b"route-filter"' in g:
                only_name = g.count("PartialEq::eq") == 1 and "And" not in g and "Or" not in g
                ps = [c for c in T.calls(a["body"]) if c["fn"].endswith("Vec::<T, A>::push") or T.short(c["fn"], 2) == "Vec::push"]
                conditional = bool(T.find(a["body"], "If")) or any(mm is not m for mm in T.find(a["body"], "Match") if not str(mm.get("src", "")).startswith(("TryDesugar", "AwaitDesugar")))
                pushes.append((only_name, len(ps), conditional, a))
    ok = len(pushes) == 1 and pushes[0][0] and pushes[0][1] == 1 and not pushes[0][2]
    if ok:
        p = [c for c in T.calls(pushes[0][3]["body"]) if T.short(c["fn"], 2) == "Vec::push"][0]
        ok = X.ntext(p["args"][0]) == "route_filters"
    chk.instance("C01/R4", "every <route-filter> of a term is read and pushed (arm guarded by the element name only, one unconditional push)", rn,
                 loc_of(pushes[0][3].get("sp")) if pushes else None, holds=ok, key="C01/R4 TermFrom pushes-every-route-filter")
    # Maybe<Installed>: family arm table
    _installed_family_table(chk, fx)


def _installed_family_table(chk, fx):
    """inet -> Installed.ipv4 = the term's <from> as Ipv4 ranges, inet6 -> Installed.ipv6 = the same as Ipv6 ranges.  Decided on the explored
    paths of Maybe<Installed>::read_xml (the term reader returns one symbolic term, `try_into_ranges::<A>` an opaque value carrying A):
    on every path of one pass over a <term> that assumed the term's family equal to exactly one literal, exactly one loop-carried variable
    receives the ranges of that family's address type, made from that term's <from>; and after the loop the variable that received the
    Ipv4 ranges ends in field `ipv4` of the result, the other in `ipv6`.  Helpers the dispatch is moved into are inlined."""
    from vlib import absint as A
    import re
    rn = None
    for n in fx.thir:
        if n.endswith("::read_xml") and "Maybe<" + AGENT + "::policies::Installed>" in n:
            rn = n
    if rn is None:
        raise F.AnchorLost("reader Maybe<Installed>::read_xml not found")
    rt = fx.thir[rn]
    chk.analysed(rn)

    def hook(fn, args, node, interp):
        g = node.get("gargs") or []
        if fn.endswith("borrowed_read_xml") and g and "fetch::Term<" in g[0]:
            return A.ok(("sym", "TERM"))
        if fn.endswith("::try_into_ranges"):
            return A.ok(("term", "RANGES:" + (g[-1] if g else "?"), (args[0],)))
    paths = A.Interp(fx, hook=hook, crates=(AGENT,), max_paths=6000).explore(rn)
    fam = {}
    n_it = 0
    order_dep = set()
    carried_slots = {a[1] for p in paths if p.end == "iter-end" for a in p.assigns() if "RANGES:" in A.vstr(a[2])}
    for p in paths:
        if p.end != "iter-end":
            continue    # a pass over one child element that ran to its end (error exits store nothing)
        asg = {(a[1], A.vstr(a[2])) for a in p.assigns() if "RANGES:" in A.vstr(a[2])}
        lits = sorted({m.group(1) for k, v in p.assume.items() if v is True for m in [re.match(r'eq:«TERM»\.from\.family:"(\w+)"$', k)] if m})
        if len(lits) != 1:
            if asg and not lits:
                fam.setdefault("(any family)", set()).update(asg)
            continue
        n_it += 1
        fam.setdefault(lits[0], set()).update(asg or {(None, "nothing")})
        # a term is taken for its family whatever was read before it, except that its own slot must still be empty: Junos lists the
        # terms in the order they were created (inet6 first for a policy that gained IPv4 later), and the agent must read back every
        # state it installed.  A condition on the *other* family's slot makes the result depend on that order.
        own = {a[0] for a in asg}
        for k in p.assume:
            for v in re.findall(r"«loop:(\w+)»", k):
                if v not in own and v in carried_slots and asg:
                    order_dep.add((lits[0], v))
    var = {}
    ok = True
    for lit_, afi in (("inet", "ip::Ipv4"), ("inet6", "ip::Ipv6")):
        got = fam.get(lit_, set())
        good = len(got) == 1 and list(got)[0][0] is not None and list(got)[0][1] == "Some(RANGES:%s(«TERM».from))" % afi
        ok = ok and good
        if good:
            var[afi] = list(got)[0][0]
    ok = ok and set(fam) == {"inet", "inet6"} and len(set(var.values())) == 2
    shown = {k: sorted(v, key=str) for k, v in sorted(fam.items())}
    chk.instance("C01/R4", "installed term table: inet -> ipv4 = term.from as Ipv4 ranges, inet6 -> ipv6 = term.from as Ipv6 ranges (%s)" % shown, rn,
                 loc_of(rt.get("sp")), holds=ok, key="C01/R4 Maybe<Installed> family table")
    chk.instance("C01/R4", "a term is accepted for its family independently of the other family's slot (terms may come in either order)", rn, loc_of(rt.get("sp")),
                 holds=not order_dep, key="C01/R4 Maybe<Installed> term-order-dependent",
                 detail=None if not order_dep else "accepting the %s term is conditioned on `%s`: a policy whose terms Junos lists in the other order cannot be read back" % sorted(order_dep)[0])
    chk.floor("C01/R4 paths over one <term> with a decided family", n_it, 2)
    # the collected sets end in the field of their family (absent family = empty set)
    n = 0
    wired = True
    for p in paths:
        if p.end not in ("return", "fallthrough") or not (A.is_res(p.ret) and p.ret[2] == "Ok"):
            continue
        for x in A.walk_value(p.ret):
            if isinstance(x, tuple) and x and x[0] == "adt" and str(x[1]).endswith("policies::Installed") and not A.is_opt(x):
                n += 1
                txt = A.vstr(x)
                for field, afi in (("ipv4", "ip::Ipv4"), ("ipv6", "ip::Ipv6")):
                    m = re.search(r"\b%s: ((?:[^,{}()]|\([^()]*\))*)" % field, txt)
                    want = var.get(afi)
                    other = var.get("ip::Ipv6" if afi == "ip::Ipv4" else "ip::Ipv4")
                    val = m.group(1).strip() if m else ""
                    absent = p.assume.get("variant:«loop:%s»" % want) == "None" and val == "Default::default()"
                    if not (m and want and ("«loop:%s»" % want in val or absent) and "«loop:%s»" % other not in val):
                        wired = False
    if var and len(var) == 2:
        chk.instance("C01/R4", "Installed{ipv4, ipv6} takes the collected sets (absent family = empty set)", rn, loc_of(rt.get("sp")), holds=wired and n > 0,
                     key="C01/R4 Maybe<Installed> literal wiring")


# ---------------------------------------------------------------------------------------------
def r5_installed_statement(chk, fx):
    """Every policy-statement the agent installs ends in the default `then reject` — with two, one or no family terms (an evaluated
    policy whose families are both empty is installed as name + then/reject only).  The installed-state reader must hand each of them
    back: `compare` produces a Delete only for names it finds in the installed state, and an Update's old side only from there.
    Decided on the paths of Maybe<Installed>::read_xml after its element loop (loop-carried variables symbolic): with the flag that the
    <reject/> arm sets true, no path returns Ok(Maybe(None)), whatever the term variables hold."""
    from vlib import absint as A
    name = None
    for n in fx.thir:
        if n.endswith("::read_xml") and "Maybe<" + AGENT + "::policies::Installed>" in n:
            name = n
    if name is None:
        raise F.AnchorLost("Maybe<Installed>::read_xml not found")
    chk.analysed(name)
    paths = A.Interp(fx, crates=(AGENT,), max_paths=6000).explore(name)
    from .c16 import reject_flags
    flags = reject_flags(paths)
    if not flags:
        raise F.AnchorLost("Maybe<Installed>::read_xml: the arm recognising <reject> sets no flag")
    loops = sorted({(e[2] or {}).get("l", 0) for p in paths for e in p.trace if e[0] == "loop-exit"})
    if not loops:
        raise F.AnchorLost("Maybe<Installed>::read_xml: no element loop")
    outer = loops[0]
    n = 0
    for p in paths:
        ex = [e for e in p.trace if e[0] == "loop-exit"]
        if p.end not in ("return", "fallthrough") or not ex or (ex[-1][2] or {}).get("l", 0) != outer:
            continue
        vals = [v for v in (p.assumed_bool("«loop:%s»" % f) for f in flags) if v is not None]
        if not vals or not all(vals):
            continue
        if not (A.is_res(p.ret) and p.ret[2] == "Ok"):
            continue
        n += 1
        inner = A.payload0(p.ret)
        got = [x for x in A.walk_value(inner) if A.is_opt(x)][:1]
        ok = bool(got) and got[0][2] == "Some"
        case = ", ".join("%s=%s" % (k[9:-1], v) for k, v in sorted(p.assume.items()) if k.startswith("variant:«loop:"))
        chk.instance("C01/R5", "installed statement with the default reject is read back (%s) => %s" % (case, A.vstr(p.ret)[:70]), name,
                     loc_of(fx.thir[name].get("sp")), holds=ok, key="C01/R5 Maybe<Installed>::read_xml statement-with-default-reject-dropped (%s)" % case,
                     detail=None if ok else "a statement the agent installed itself vanishes from the installed state: it is never deleted once "
                     "unmanaged, and updates are computed against nothing")
    chk.floor("C01/R5 post-loop Ok paths with the reject flag set", n, 1)


# ---------------------------------------------------------------------------------------------
def r6_term_name_is_family(chk, fx):
    """The agent writes each family's ranges into the term named after the family (R2a) and addresses its deletes to that term.  Reading
    the installed state back, a term is taken for "the inet term" only if it *is* it: its name equals its <family>.  A reader that
    goes by the family alone takes a foreign term's ranges for its own — deletes then go to a term that does not hold them, and the
    agent's own term can end up accepting without a route-filter.  Decided on the Ok paths of Term::borrowed_read_xml: each assumed
    the stored name equal to the family read from <from>."""
    from vlib import absint as A
    name = None
    for n in fx.thir:
        if n.endswith("::borrowed_read_xml") and "policies::fetch::Term<" in n:
            name = n
    if name is None:
        raise F.AnchorLost("Term::borrowed_read_xml not found")
    chk.analysed(name)
    paths = A.Interp(fx, crates=(AGENT,), max_paths=8000, no_inline=("TermFrom",)).explore(name)
    n_ok = 0
    for p in paths:
        if p.end in ("iter-end", "abort") or not (A.is_res(p.ret) and p.ret[2] == "Ok"):
            continue
        n_ok += 1
        eq = None
        for k, v in p.assume.items():
            # a comparison between the family held by one loop-carried value (the parsed <from>) and another loop-carried value (the
            # text of <name>), whatever the variables are called
            import re as _re
            if isinstance(v, bool) and ".family" in k and len(set(_re.findall(r"«loop:(\w+)»", k))) >= 2:
                if k.startswith("PartialEq::eq("):
                    eq = v
                elif k.startswith("PartialEq::ne("):
                    eq = not v
        chk.instance("C01/R6", "an installed term is accepted only if its <name> equals its <family>", name, loc_of(fx.thir[name].get("sp")), holds=eq is True,
                     key="C01/R6 Term::borrowed_read_xml name-family-agreement",
                     detail=None if eq is True else "the Ok path does not compare the term's name with its family")
    chk.floor("C01/R6 Ok paths of the term reader", n_ok, 1)
