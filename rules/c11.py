"""C11 — Filter-expression evaluation equals RPSL set semantics over the IRR data (structural clauses only).

The equality itself is a statement about run-time data in three external crates and is NOT decided.  What this
repository's own 240 lines (lib/src/query.rs, the print loop of the CLI) contribute — and can silently get wrong — are
the clauses the property's own rationale names: "losing a family, a member or a response".  Each is a shape of the code:

  R1  family completeness   — wherever routes are requested for an AS, they are requested for both address families,
                              for the same AS (irrc 0.1.0 has no combined query: Ipv4Routes / Ipv6Routes are the only
                              origin queries);
  R2  response completeness — every response of a pipeline reaches collect_results through `map` only (no filter / take /
                              skip / step_by / take_while ...), and the mapping closure passes the item's content on
                              unchanged;
  R3  operand identity      — the name a resolver queries is the name it was asked to resolve (its own parameter; for
                              the per-member route queries, the member the server returned);
  R4  member recursion      — set membership is requested with the *recursive* query variants (nested sets), unless the
                              requesting function itself iterates;
  R5  delivery              — the CLI prints every range of the evaluated set (no adaptor between ranges() and the print).
"""
import re
from vlib import facts as F, thir as T, xmlgrammar as X, absint as A
from vlib.report import loc_of
from .c15 import lock_version

EXPLANATION = (
    "Structural necessary conditions only (the set equality over IRR data is not decided). C11/R1: in every body of the library that "
    "builds Query::Ipv4Routes(x) the same body builds Query::Ipv6Routes(x) with the same operand, and vice versa — a lost address "
    "family is invisible to every test. C11/R2: every Pipeline::responses() stream reaches Evaluator::collect_results through "
    "Iterator::map only (or, for the single-object filter-set lookup, find_map over collect_result), and the mapping closures are "
    "Result::map(resp, ResponseItem::into_content): no response is filtered, truncated or rewritten on the way. C11/R3: each resolver "
    "queries the very name it was asked for (AsSet -> AsSetMembersRecursive(as_set), RouteSet -> RouteSetMembersRecursive(route_set), "
    "AutNum -> Ipv4Routes/Ipv6Routes(*autnum), FilterSet -> RpslObject(FilterSet, filter_set.to_string())), and the per-member route "
    "queries use the member the response carried. C11/R4: set membership uses the recursive query variants (nested and cyclic sets "
    "are expanded by the server). C11/R5: the CLI prints every element of evaluate(..).ranges(). NOT decided (not applicable to this "
    "technique): the rpsl crate's AST evaluation and set algebra, irrc's pipelining / response parsing, generic-ip's prefix-set "
    "arithmetic, and therefore the equality of the result with the RPSL denotation for any concrete database."
)

ROUTE_Q = ("Ipv4Routes", "Ipv6Routes")
NONREC = {"AsSetMembers": "AsSetMembersRecursive", "RouteSetMembers": "RouteSetMembersRecursive"}
MAP_OK = ("Evaluator::collect_results", "Iterator::map", "Pipeline::responses")
FIND_OK = ("Option::unwrap_or_else", "Iterator::find_map", "Pipeline::responses")
VALUE_PRESERVING = ("Clone::clone", "ToString::to_string", "Deref::deref", "Into::into", "From::from", "ResponseItem::into_content", "ToOwned::to_owned")


def lib_bodies(fx):
    out = []
    for n, t in sorted(fx.thir.items()):
        if t.get("crate") != "bgpfu" or "::tests::" in n:
            continue
        if (t.get("sp") or {}).get("m"):
            continue
        out.append((n, t, T.user_body(t)))
    return out


def query_adts(body):
    return [a for a in T.find(body, "Adt") if a["adt"].endswith("irrc::query::Query") or a["adt"].endswith("irrc::Query")]


def operand(e):
    """Expression an operand derives from, through value-preserving conversions; as canonical text."""
    e = T.peel(e)
    while e.get("k") == "Call" and e.get("fn") and T.short(e["fn"], 2) in VALUE_PRESERVING and e.get("args"):
        e = T.peel(e["args"][0])
    return X.ntext(e)


def chain_of(e):
    out = []
    e = _peel_try(e)
    while e.get("k") == "Call" and e.get("fn") and e.get("args"):
        nm = T.short(e["fn"], 2)
        out.append((nm, e))
        # receiver is the first argument except for Evaluator::collect_results(this, iter)
        e = _peel_try(e["args"][1] if nm in ("Evaluator::collect_results", "Evaluator::collect_result") and len(e["args"]) > 1 else e["args"][0])
    return out, e


def _peel_try(e):
    e = T.peel(e)
    while e.get("k") == "Try":
        e = T.peel(e["arg"])
    return e


def label(name):
    """Stable readable name of a library body: `Resolver<AsSet>::resolve::{closure#0}..`."""
    m = re.search(r"Resolver<'_, ([\w:]+),", name)
    tail = name.split(">>::", 1)[1] if ">>::" in name else T.short(T.strip_generics(name), 3)
    return ("Resolver<%s>::%s" % (T.short(m.group(1), 1), tail)) if m else tail


def run(ctx):
    chk, fx = ctx.chk, ctx.facts
    chk.explanation = EXPLANATION
    ver = lock_version("irrc")
    chk.extra["locked_versions"] = {"irrc": ver, "rpsl": lock_version("rpsl")}
    chk.assumptions += [
        "irrc %s: Query::Ipv4Routes / Query::Ipv6Routes are the only queries returning prefixes by origin AS (no combined-family query)" % ver,
        "irrc %s: the *Recursive member queries are expanded by the IRR server, including nested and cyclic sets" % ver,
        "rpsl %s Evaluator::collect_results keeps every Ok item and every item whose error sink_error refuses (C03/R3 decides which)" % lock_version("rpsl"),
    ]
    chk.instance("C11/R0", "irrc is the version whose Query enum was read (0.1.0)", "Cargo.lock", None, holds=ver == "0.1.0",
                 key="C11/R0 irrc version changed to %s: re-read its Query enum" % ver)
    res = resolvers(fx)
    chk.floor("C11 resolver impls", len(res), 4)
    for ty, rn in sorted(res.items()):
        chk.analysed(rn)
        paths = explore_resolver(fx, rn)
        resolver_rules(chk, fx, ty, rn, paths)
    r4_recursive(chk, fx)
    r5_cli(chk, fx)
    r6_agent_delivery(chk, fx)


QUERY_ADT = ("irrc::query::Query", "irrc::Query")
WANT_QUERY = {"AsSet": ["AsSetMembersRecursive"], "RouteSet": ["RouteSetMembersRecursive"], "AutNum": ["Ipv4Routes", "Ipv6Routes"], "FilterSet": ["RpslObject"]}
ITER_DROPPING = ("Iterator::filter", "Iterator::take", "Iterator::skip", "Iterator::take_while", "Iterator::skip_while", "Iterator::step_by", "Iterator::nth",
                 "Iterator::map_while", "Iterator::zip", "Iterator::scan", "Iterator::filter_map", "Iterator::last", "Iterator::next", "Iterator::rev")


def resolvers(fx):
    out = {}
    for n in fx.thir:
        m = re.match(r"^<bgpfu::query::RpslEvaluator as rpsl::expr::eval::Resolver<'_, rpsl::names::(\w+),.*>>::resolve$", n)
        if m:
            out[m.group(1)] = n
    return out


def strip_conv(v):
    while isinstance(v, tuple) and v[0] == "term" and T.short(v[1], 2) in VALUE_PRESERVING and v[2]:
        v = v[2][0]
    return v


def is_query(v, variant=None):
    return isinstance(v, tuple) and v[0] == "adt" and v[1].endswith(QUERY_ADT) and (variant is None or v[2] == variant)


def explore_resolver(fx, rn, havoc=False):
    """Run the resolver with the connection wrapper looked through; every path's trace lists the queries built and how the responses are consumed."""
    def hook(fn, args, node, interp):
        s2 = T.short(fn, 2)
        if s2 == "RpslEvaluator::with_connection":
            interp.trace.append(("call", fn, (args[0],), node.get("sp")))
            return interp.apply(args[1], [args[0], ("sym", "CONN")], node, 0)
        if s2 in ("Connection::pipeline_from_initial",):
            # the per-member closure is applied to a symbolic member response
            interp.trace.append(("call", fn, tuple(args), node.get("sp")))
            if len(args) >= 3:
                r = interp.apply(args[2], [A.ok(("sym", "MEMBER_ITEM"))], node, 0)
                interp.trace.append(("member-queries", r))
            return ("sym", "PIPELINE")
        if s2 == "Iterator::find_map" and len(args) == 2:
            # first element for which the closure yields Some(..): evaluate the closure on a symbolic element
            if interp.choose(2, "find_map") == 1:
                return A.NONE
            from_responses = A.mentions(args[0], lambda x: x[0] == "term" and T.short(x[1], 2) == "Pipeline::responses")
            el = A.ok(("sym", "RESPONSE")) if from_responses else ("term", "elem", (args[0],))
            r = interp.apply(args[1], [el], node, 0)
            k, pv = interp._known(r, True)
            if k != "Some":
                raise A._Infeasible()
            return A.some(pv)
        if s2 == "Iterator::next" and args and A.mentions(args[0], lambda x: x[0] == "term" and T.short(x[1], 2) == "Pipeline::responses"):
            # `for resp in pipeline.responses()`: one symbolic response per iteration, as for find_map
            c = interp.choose(3, "next-response")
            if c == 1:
                interp.trace.append(("next", args[0], "None"))
                return A.NONE
            interp.trace.append(("next", args[0], "Some" if c == 0 else "Some-failed"))
            return A.some(A.ok(("sym", "RESPONSE"))) if c == 0 else A.some(A.err(("sym", "RESPONSE_ERR")))
        if s2 == "Pipeline::pop" and args:
            # `while let Some(response) = pipeline.pop()`: per iteration the pipeline is exhausted, or hands out one response — a good
            # one or a failed one (which collect_result may sink: C03's subject; here only what happens to the *other* responses)
            c = interp.choose(3, "pop-response")
            if c == 0:
                interp.trace.append(("next", args[0], "None"))
                return A.NONE
            interp.trace.append(("next", args[0], "Some" if c == 1 else "Some-failed"))
            return A.some(A.ok(("sym", "RESPONSE"))) if c == 1 else A.some(A.err(("sym", "RESPONSE_ERR")))
        if s2 in ("Evaluator::collect_result",) and len(args) >= 2:
            # Result<T,E> -> Result<Option<T>,E>: Ok(x) => Ok(Some(x)); errors are C03's subject
            k, p = interp._known(args[1], False)
            interp.trace.append(("call", fn, tuple(args), node.get("sp")))
            if k == "Err":
                # a failed response: tolerated (sunk: Ok(None)) or propagated — which, sink_error decides (C03/R3)
                if interp.choose(2, "sunk") == 0:
                    interp.trace.append(("sunk", args[1]))
                    return A.ok(A.NONE)
                return A.err(("sym", "SUNK_OR_ERR"))
            return A.ok(A.some(p)) if k == "Ok" else ("sym", "SUNK_OR_ERR")
        return None
    it = A.Interp(fx, hook=hook, crates=("bgpfu",), max_paths=4000, havoc_loops=havoc)
    it.model_iterators = False
    it.havoc_collections = havoc
    return it.explore(rn)


def queries_in(p):
    """Every Query value built on a path (anywhere in the trace)."""
    out = []
    for e in p.trace:
        vals = list(e[2]) if e[0] in ("call", "enter") else [e[1]] if e[0] == "member-queries" else []
        for v in vals:
            for x in A.walk_value(v):
                if is_query(x):
                    out.append(x)
    if p.ret is not None:
        out += [x for x in A.walk_value(p.ret) if is_query(x)]
    uniq = []
    for q in out:
        if q not in uniq:
            uniq.append(q)
    return uniq


def resolver_rules(chk, fx, ty, rn, paths):
    t = fx.thir[rn]
    it = fx.fn_item(rn)
    pname = (it.get("params") or [None, None])[1]
    want = WANT_QUERY.get(ty)
    if want is None:
        chk.instance("C11/R3", "Resolver<%s> has a reference row" % ty, rn, loc_of(t.get("sp")), holds=False, key="C11/R3 Resolver<%s> unaudited" % ty)
        return
    qs_all = []
    for p in paths:
        for q in queries_in(p):
            if q not in qs_all:
                qs_all.append(q)
    direct = [q for q in qs_all if not A.mentions(q, lambda x: x == ("sym", "MEMBER_ITEM"))]
    member = [q for q in qs_all if A.mentions(q, lambda x: x == ("sym", "MEMBER_ITEM"))]
    # R3: operand identity
    for variant in want:
        found = [q for q in direct if q[2] == variant]
        idx = 1 if variant == "RpslObject" else 0
        ops = [A.vstr(strip_conv(dict(q[3]).get(str(idx), ("unit",)))) for q in found]
        ok = len(found) == 1 and pname is not None and ops == ["«param:%s»" % pname]
        chk.instance("C11/R3", "Resolver<%s>: Query::%s is built from the name being resolved (`%s`; operand %s)" % (ty, variant, pname, ops), rn,
                     loc_of(t.get("sp")), holds=ok, key="C11/R3 Resolver<%s> %s operand" % (ty, variant))
    extra = [q[2] for q in direct if q[2] not in want]
    if extra:
        chk.instance("C11/R3", "Resolver<%s> builds no other query (%s)" % (ty, extra), rn, loc_of(t.get("sp")), holds=False,
                     key="C11/R3 Resolver<%s> extra query %s" % (ty, sorted(set(extra))))
    if ty == "FilterSet":
        found = [q for q in direct if q[2] == "RpslObject"]
        cls = A.vstr(dict(found[0][3]).get("0")) if found else "?"
        chk.instance("C11/R3", "filter-set lookup asks for the filter-set object class (%s)" % cls, rn, None, holds=cls.endswith("FilterSet"),
                     key="C11/R3 Resolver<FilterSet> object class")
        # the stored expression: the first mp-filter attribute of a FilterSet object, unchanged — read off the paths that return Ok(expr)
        oks = [p for p in paths if A.is_res(p.ret) and p.ret[2] == "Ok" and not A.mentions(p.ret, lambda x: (x[0] == "term" and T.short(x[1], 2) == "str::parse")
                                                                                               or x == ("sym", "SUNK_OR_ERR"))]
        good = bool(oks)
        for p in oks:
            v = A.vstr(A.payload0(p.ret))
            # Ok(expr): expr = the MpFilter payload of an attribute of the FilterSet payload of the response's own content
            good = good and "→MpFilter.0" in v and "→FilterSet.0" in v and "ResponseItem::into_content(«RESPONSE»)" in v
        chk.instance("C11/R3", "a filter-set resolves to its own mp-filter attribute, unchanged", rn, None, holds=good, key="C11/R3 Resolver<FilterSet> attribute")
    # R1 (members): a member that was delivered (Ok item) always gets its route queries — no path of the per-member closure over a
    # successful item ends without them (a "seen already" filter, a budget, a condition on evaluator state)
    mq = [(p, e[1]) for p in paths for e in p.trace if e[0] == "member-queries"]
    if mq:
        skipped = [(p, r) for (p, r) in mq if not any(is_query(x) for x in A.walk_value(r)) and not A.mentions(r, lambda x: x == ("sym", "SUNK_OR_ERR"))]
        chk.instance("C11/R1", "Resolver<%s>: every delivered member gets its route queries (%d member paths)" % (ty, len(mq)), rn, loc_of(t.get("sp")),
                     holds=not skipped, key="C11/R1 Resolver<%s> member-skipped" % ty,
                     detail=None if not skipped else "on a path the per-member closure yields %s: that member's prefixes are missing from the set" % A.vstr(skipped[0][1])[:80])
    # R1: family completeness — wherever routes are requested, for both families of the same AS
    for group, label in ((direct, "for the resolved name"), (member, "per member")):
        v4 = sorted(A.vstr(dict(q[3]).get("0")) for q in group if q[2] == "Ipv4Routes")
        v6 = sorted(A.vstr(dict(q[3]).get("0")) for q in group if q[2] == "Ipv6Routes")
        if v4 or v6:
            ok = v4 == v6
            chk.instance("C11/R1", "Resolver<%s>: routes are requested %s for both address families of the same AS (v4 for %s, v6 for %s)" % (ty, label, v4, v6), rn,
                         loc_of(t.get("sp")), holds=ok, key="C11/R1 Resolver<%s>::resolve family-lost %s" % (ty, label),
                         detail=None if ok else "one address family of an AS's routes is never requested: the evaluated set silently lacks it")
    if ty == "AsSet":
        ok = bool(member) and all(A.vstr(dict(q[3]).get("0")) in ("ResponseItem::into_content(«MEMBER_ITEM»)", "«MEMBER_ITEM»") for q in member)
        chk.instance("C11/R3", "per-member route queries use the member the response carried (%s)" % sorted({A.vstr(dict(q[3]).get("0")) for q in member}), rn,
                     loc_of(t.get("sp")), holds=ok, key="C11/R3 Resolver<AsSet> member operand")
        # both member queries are produced on one and the same path (neither is conditional on the other)
        both = any(len([q for q in queries_in(p) if q in member]) >= 2 for p in paths)
        chk.instance("C11/R1", "neither family's per-member request is conditional", rn, loc_of(t.get("sp")), holds=both,
                     key="C11/R1 Resolver<AsSet>::resolve family-conditional")
    # R2: response completeness
    n = 0
    for p in paths:
        for e in p.trace:
            if e[0] == "call" and T.short(e[1], 2) in ("Evaluator::collect_results",):
                n += 1
                itv = e[2][1] if len(e[2]) > 1 else None
                names = [T.short(x[1], 2) for x in A.walk_value(itv) if x[0] == "term"] if itv is not None else []
                bad = [x for x in names if x in ITER_DROPPING]
                # the responses come from responses(), or one at a time from pop() (a loop over the pipeline: pop_form_rules)
                src = "Pipeline::responses" in names or A.mentions(itv, lambda x: x == ("sym", "RESPONSE"))
                maps = [x for x in A.walk_value(itv) if x[0] == "term" and T.short(x[1], 2) == "Iterator::map"]
                mp_ok = True
                for m in maps:
                    sub = A.Interp(fx, crates=("bgpfu",))
                    sub.trace, sub.assume, sub._script, sub._pos, sub._taken, sub._alts, sub._sym, sub._occ = [], {}, [], 0, [], [], 0, {}
                    r = sub.apply(m[2][1], [A.ok(("sym", "ITEM"))], {"sp": None}, 0)
                    mp_ok = mp_ok and A.vstr(r) in ("Ok(ResponseItem::into_content(«ITEM»))",)
                    r2 = sub.apply(m[2][1], [A.err(("sym", "E"))], {"sp": None}, 0)
                    mp_ok = mp_ok and A.vstr(r2) == "Err(«E»)"
                ok = src and not bad and mp_ok
                chk.instance("C11/R2", "Resolver<%s>: every response reaches collect_results unchanged (%s)" % (ty, " <- ".join(names[:5])), rn, loc_of(e[3]),
                             holds=ok, key="C11/R2 Resolver<%s>::resolve responses-adaptor %s" % (ty, ",".join(bad) or ("rewritten" if not mp_ok else "no-responses")),
                             detail=None if ok else "an adaptor between responses() and collect_results drops, reorders or rewrites responses: members / prefixes are lost silently")
                break
    looped = False
    if ty in ("AsSet", "RouteSet", "AutNum") and any(e[0] == "next" and e[2] == "Some-failed" for p in paths for e in p.trace):
        looped = pop_form_rules(chk, fx, ty, rn)
    if ty in ("AsSet", "RouteSet", "AutNum"):
        chk.instance("C11/R2", "Resolver<%s> collects its responses with collect_results%s" % (ty, " (or one by one in a loop that accumulates them)" if looped else ""), rn, None,
                     holds=n >= 1 or looped, key="C11/R2 Resolver<%s> no collect_results" % ty)


def pop_form_rules(chk, fx, ty, rn):
    """The responses taken off the pipeline one at a time in a loop (`while let Some(r) = pipeline.pop()`).  Every response must be
    looked at: (a) a response whose error was sunk (tolerated) is followed by the next one — the loop goes round, it does not end;
    (b) what a good response yields is added to a collection carried round the loop; (c) when the pipeline is exhausted the resolver
    returns that collection.  Decided on explored paths with the loop-carried variables symbolic."""
    t = fx.thir[rn]
    paths = [p for p in explore_resolver(fx, rn, havoc=True) if p.end != "abort"]
    acc = set()
    n_ok = n_sunk = 0
    for p in paths:
        nx = [e for e in p.trace if e[0] == "next"]
        if not nx:
            continue
        kind = nx[-1][2]
        if kind == "Some-failed":
            # collect_result(Err(e)): Err(e') escapes with `?` (the whole resolution fails: fine) or Ok(None) = sunk
            sunk = any(e[0] == "sunk" for e in p.trace)
            if not sunk:
                continue
            n_sunk += 1
            chk.instance("C11/R2", "Resolver<%s>: after a tolerated (sunk) response the next response is taken" % ty, rn, loc_of(t.get("sp")), holds=p.end == "iter-end",
                         key="C11/R2 Resolver<%s>::resolve responses-adaptor stops-at-sunk-response" % ty,
                         detail=None if p.end == "iter-end" else "the loop ends (%s) at the first tolerated error: the responses still in the pipeline — the other address family — are never collected" % p.end)
        elif kind == "Some":
            # what the response yields: collect_results over it, or (item by item) the response's own content
            ext = [c for c in p.calls("Vec::extend") + p.calls("Extend::extend") + p.calls("Vec::push") + p.calls("Vec::append") + p.calls("HashSet::extend") + p.calls("BTreeSet::extend")
                   + p.calls("HashSet::insert") + p.calls("BTreeSet::insert")
                   if len(c[2]) == 2 and c[2][0][0] == "sym" and c[2][0][1].startswith("loop:") and A.mentions(c[2][1], lambda x: x == ("sym", "RESPONSE"))]
            if p.end == "iter-end":
                n_ok += 1
                chk.instance("C11/R2", "Resolver<%s>: what a good response yields is added to the collection carried round the loop" % ty, rn, loc_of(t.get("sp")),
                             holds=bool(ext), key="C11/R2 Resolver<%s>::resolve responses-adaptor result-not-accumulated" % ty)
                acc |= {c[2][0][1][5:] for c in ext}
    chk.floor("C11/R2 Resolver<%s> pop-loop paths with a good response" % ty, n_ok, 1)
    for p in paths:
        nx = [e for e in p.trace if e[0] == "next"]
        if nx and nx[-1][2] == "None" and A.is_res(p.ret) and p.ret[2] == "Ok":
            good = any(A.mentions(p.ret, lambda x, v=v: x == ("sym", "loop:" + v)) for v in acc)
            chk.instance("C11/R2", "Resolver<%s>: when the pipeline is exhausted the accumulated collection is the result (%s)" % (ty, A.vstr(p.ret)[:60]), rn,
                         loc_of(t.get("sp")), holds=good, key="C11/R2 Resolver<%s>::resolve responses-adaptor accumulated-result-not-returned" % ty)
    return n_ok > 0


def r4_recursive(chk, fx):
    bodies = lib_bodies(fx)
    seen = {}
    for name, t, body in bodies:
        for a in query_adts(body):
            seen.setdefault(a["variant"], []).append((name, a))
    for v in ("AsSetMembersRecursive", "RouteSetMembersRecursive"):
        chk.instance("C11/R4", "set membership is requested with Query::%s" % v, "bgpfu::query", loc_of(seen[v][0][1].get("sp")) if v in seen else None,
                     holds=v in seen, key="C11/R4 %s not used" % v)
    for v, rec in NONREC.items():
        for (name, a) in seen.get(v, []):
            root = name.split("::{closure")[0]
            loops = any(fx.mir[n2].loop_heads() for n2 in fx.mir if n2 == root or n2.startswith(root + "::{closure"))
            chk.instance("C11/R4", "Query::%s (direct members only) is used by a function that iterates itself" % v, name, loc_of(a.get("sp")), holds=bool(loops),
                         key="C11/R4 %s non-recursive membership in %s" % (v, T.short(T.strip_generics(root), 3)),
                         detail="members of nested sets are never expanded: use %s or expand client-side" % rec)


def r5_cli(chk, fx):
    """The CLI prints every range of the evaluated set: on the path where evaluation succeeds, what is iterated is ranges() of the
    evaluator's result, with no adaptor in between, and each element is printed with Display."""
    mn = "bgpfu_cli::cli::main"
    if mn not in fx.thir:
        raise F.AnchorLost(mn)
    chk.analysed(mn)
    t = fx.thir[mn]
    printed = []

    def bare(v):
        while isinstance(v, tuple) and v[0] == "term" and T.short(v[1], 2) in A.ITER_IDENTITY and v[2]:
            v = v[2][0]
        return v

    def hook(fn, args, node, interp):
        s2 = T.short(fn, 2)
        args = [bare(a) for a in args] if s2 in ("Iterator::for_each", "Iterator::try_for_each", "Iterator::next") else args
        if s2 in ("io::_print", "io::_eprint"):
            interp.trace.append(("print", s2, tuple(args), node.get("sp")))
            return ("unit",)
        if s2 in ("Iterator::for_each", "Iterator::try_for_each") and len(args) == 2:
            interp.trace.append(("iterate", args[0], node.get("sp")))
            interp.apply(args[1], [("term", "elem", (args[0],))], node, 0)
            return ("unit",)
        if s2 == "Iterator::next" and args:
            seen = [e for e in interp.trace if e[0] == "iterate" and e[1] == args[0]]
            if seen:
                return A.NONE
            interp.trace.append(("iterate", args[0], node.get("sp")))
            return A.some(("term", "elem", (args[0],)))
        return None
    it = A.Interp(fx, hook=hook, crates=("bgpfu_cli",), max_paths=3000, no_inline=("tracing", "Cli::parse"))
    it.model_iterators = False
    paths = it.explore(mn)
    ok, names = False, ()
    pr_ok = False
    for p in paths:
        its = [e for e in p.trace if e[0] == "iterate"]
        prs = [e for e in p.trace if e[0] == "print" and e[1] == "io::_print"]
        if not its:
            continue
        names = tuple(T.short(x[1], 2) for x in A.walk_value(its[0][1]) if x[0] == "term")
        root_ok = len(its) == 1 and names[:1] == ("PrefixSet::ranges",) and "RpslEvaluator::evaluate" in names and not [n for n in names if n.startswith("Iterator::")]
        ok = ok or root_ok
        pr_ok = pr_ok or (len(prs) == 1 and "new_display(elem(PrefixSet::ranges(" in A.vstr(("tuple", prs[0][2])))
    chk.instance("C11/R5", "the CLI iterates evaluate(..).ranges() itself (no adaptor): %s" % " <- ".join(names[:4]), mn, loc_of(t.get("sp")), holds=ok,
                 key="C11/R5 cli print chain")
    chk.instance("C11/R5", "each range is printed with its Display form", mn, loc_of(t.get("sp")), holds=pr_ok, key="C11/R5 cli print closure")


# ---------------------------------------------------------------------------------------------
def r6_agent_delivery(chk, fx):
    """'.. and the agent installs exactly that set': between the evaluation and the router lie (a) the evaluator's connection, which
    must survive a failed resolution or every later policy of the run evaluates to nothing (C17/R1's decision on with_connection), and
    (b) the compare table, which must turn every evaluated policy into an update carrying the evaluated sets against the installed
    ones (C01/R1's decision table).  Both are shared rules, recorded here under C11/R6."""
    from . import c01, c17
    from .c15 import _Rename
    c17.r1_restore(_Rename(chk, "C17/R1", "C11/R6:conn"), fx, fx.body(c17.WC))
    c01.r1_compare(_Rename(chk, "C01/R1", "C11/R6:compare"), fx)
    # which response errors are dropped from a result instead of failing it (the set is exact only if nothing but "this AS has no
    # routes in this family" and single unparsable items is tolerated): C03/R3's decision on sink_error, recorded here
    from . import c03
    c03.r3_sink(_Rename(chk, "C03/R3", "C11/R6:sink"), fx)
    # (c) what the evaluator returned is what the agent goes on with: Ok(set) becomes ranges = Some(partition of that set) on every path
    # (an evaluation that succeeded with the empty set is a result — the installed filters must be emptied — not a failure), and every
    # candidate is evaluated: C03/R2's decision on Candidate::evaluate and Policies::evaluate
    c03.r2_eval(_Rename(chk, "C03/R2", "C11/R6:eval"), fx)
    # (d) a name denotes the same set wherever and however often it occurs in an expression: resolving it reads and writes no evaluator
    # state but the connection slot (a "seen already" set, a negative cache, a cycle guard that remembers finished expansions make the
    # second occurrence resolve differently): C17/R3's decision, recorded here
    c17.r3_stateless(_Rename(chk, "C17/R3", "C11/R6:state"), fx)
