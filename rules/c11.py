"""C11 — Filter-expression evaluation equals RPSL set semantics over the IRR data (structural clauses only).

The equality itself is a statement about run-time data in three external crates and is NOT decided.  What this
repository's own 240 lines (lib/src/query.rs, the print loop of the CLI) contribute — and can silently get wrong — are
the clauses the property's own rationale names: "losing a family, a member or a response".  Each is a shape of the code:

  R1  family completeness   — wherever routes are requested for an AS, they are requested for both address families,
                              for the same AS (irrc 0.1.0 has no combined query: Ipv4Routes / Ipv6Routes are the only
                              origin queries);
  R2  response completeness — every response of a pipeline reaches collect_results through `map` only (no filter / take /
                              skip / step_by / take_while ...), and the mapping closure passes the item's content on
                              unchanged;
  R3  operand identity      — the name a resolver queries is the name it was asked to resolve (its own parameter; for
                              the per-member route queries, the member the server returned);
  R4  member recursion      — set membership is requested with the *recursive* query variants (nested sets), unless the
                              requesting function itself iterates;
  R5  delivery              — the CLI prints every range of the evaluated set (no adaptor between ranges() and the print).
"""
import re
from vlib import facts as F, thir as T, xmlgrammar as X
from vlib.report import loc_of
from .c15 import lock_version

EXPLANATION = (
    "Structural necessary conditions only (the set equality over IRR data is not decided). C11/R1: in every body of the library that "
    "builds Query::Ipv4Routes(x) the same body builds Query::Ipv6Routes(x) with the same operand, and vice versa — a lost address "
    "family is invisible to every test. C11/R2: every Pipeline::responses() stream reaches Evaluator::collect_results through "
    "Iterator::map only (or, for the single-object filter-set lookup, find_map over collect_result), and the mapping closures are "
    "Result::map(resp, ResponseItem::into_content): no response is filtered, truncated or rewritten on the way. C11/R3: each resolver "
    "queries the very name it was asked for (AsSet -> AsSetMembersRecursive(as_set), RouteSet -> RouteSetMembersRecursive(route_set), "
    "AutNum -> Ipv4Routes/Ipv6Routes(*autnum), FilterSet -> RpslObject(FilterSet, filter_set.to_string())), and the per-member route "
    "queries use the member the response carried. C11/R4: set membership uses the recursive query variants (nested and cyclic sets "
    "are expanded by the server). C11/R5: the CLI prints every element of evaluate(..).ranges(). NOT decided (not applicable to this "
    "technique): the rpsl crate's AST evaluation and set algebra, irrc's pipelining / response parsing, generic-ip's prefix-set "
    "arithmetic, and therefore the equality of the result with the RPSL denotation for any concrete database."
)

ROUTE_Q = ("Ipv4Routes", "Ipv6Routes")
NONREC = {"AsSetMembers": "AsSetMembersRecursive", "RouteSetMembers": "RouteSetMembersRecursive"}
MAP_OK = ("Evaluator::collect_results", "Iterator::map", "Pipeline::responses")
FIND_OK = ("Option::unwrap_or_else", "Iterator::find_map", "Pipeline::responses")
VALUE_PRESERVING = ("Clone::clone", "ToString::to_string", "Deref::deref", "Into::into", "From::from", "ResponseItem::into_content", "ToOwned::to_owned")


def lib_bodies(fx):
    out = []
    for n, t in sorted(fx.thir.items()):
        if t.get("crate") != "bgpfu" or "::tests::" in n:
            continue
        if (t.get("sp") or {}).get("m"):
            continue
        out.append((n, t, T.user_body(t)))
    return out


def query_adts(body):
    return [a for a in T.find(body, "Adt") if a["adt"].endswith("irrc::query::Query") or a["adt"].endswith("irrc::Query")]


def operand(e):
    """Expression an operand derives from, through value-preserving conversions; as canonical text."""
    e = T.peel(e)
    while e.get("k") == "Call" and e.get("fn") and T.short(e["fn"], 2) in VALUE_PRESERVING and e.get("args"):
        e = T.peel(e["args"][0])
    return X.ntext(e)


def chain_of(e):
    out = []
    e = _peel_try(e)
    while e.get("k") == "Call" and e.get("fn") and e.get("args"):
        nm = T.short(e["fn"], 2)
        out.append((nm, e))
        # receiver is the first argument except for Evaluator::collect_results(this, iter)
        e = _peel_try(e["args"][1] if nm in ("Evaluator::collect_results", "Evaluator::collect_result") and len(e["args"]) > 1 else e["args"][0])
    return out, e


def _peel_try(e):
    e = T.peel(e)
    while e.get("k") == "Try":
        e = T.peel(e["arg"])
    return e


def label(name):
    """Stable readable name of a library body: `Resolver<AsSet>::resolve::{closure#0}..`."""
    m = re.search(r"Resolver<'_, ([\w:]+),", name)
    tail = name.split(">>::", 1)[1] if ">>::" in name else T.short(T.strip_generics(name), 3)
    return ("Resolver<%s>::%s" % (T.short(m.group(1), 1), tail)) if m else tail


def run(ctx):
    chk, fx = ctx.chk, ctx.facts
    chk.explanation = EXPLANATION
    ver = lock_version("irrc")
    chk.extra["locked_versions"] = {"irrc": ver, "rpsl": lock_version("rpsl")}
    chk.assumptions += [
        "irrc %s: Query::Ipv4Routes / Query::Ipv6Routes are the only queries returning prefixes by origin AS (no combined-family query)" % ver,
        "irrc %s: the *Recursive member queries are expanded by the IRR server, including nested and cyclic sets" % ver,
        "rpsl %s Evaluator::collect_results keeps every Ok item and every item whose error sink_error refuses (C03/R3 decides which)" % lock_version("rpsl"),
    ]
    chk.instance("C11/R0", "irrc is the version whose Query enum was read (0.1.0)", "Cargo.lock", None, holds=ver == "0.1.0",
                 key="C11/R0 irrc version changed to %s: re-read its Query enum" % ver)
    bodies = lib_bodies(fx)
    chk.floor("C11 library bodies", len(bodies), 20)
    r1_families(chk, bodies)
    r2_responses(chk, fx, bodies)
    r3_operands(chk, fx, bodies)
    r4_recursive(chk, fx, bodies)
    r5_cli(chk, fx)


def r1_families(chk, bodies):
    n = 0
    for name, t, body in bodies:
        qs = [a for a in query_adts(body) if a["variant"] in ROUTE_Q]
        if not qs:
            continue
        n += 1
        chk.analysed(name)
        by = {v: sorted(operand(a["fields"][0]["expr"]) for a in qs if a["variant"] == v) for v in ROUTE_Q}
        ok = by["Ipv4Routes"] == by["Ipv6Routes"] and bool(by["Ipv4Routes"])
        chk.instance("C11/R1", "routes are requested for both address families of the same AS (v4 for %s, v6 for %s)" % (by["Ipv4Routes"], by["Ipv6Routes"]),
                     name, loc_of(qs[0].get("sp")), holds=ok, key="C11/R1 %s family-lost" % label(name),
                     detail=None if ok else "one address family of an AS's routes is never requested: the evaluated set silently lacks it")
        # both requests are siblings of one expression (array literal or one push chain): neither is conditional on the other
        conds = [x for x in T.walk(body) if x.get("k") in ("If", "Match") and not str(x.get("src", "")).startswith(("TryDesugar", "AwaitDesugar"))
                 and any(a in list(T.walk(x)) for a in qs)]
        chk.instance("C11/R1", "neither family's request is conditional", name, loc_of(qs[0].get("sp")), holds=not conds,
                     key="C11/R1 %s family-conditional" % label(name))
    chk.floor("C11/R1 bodies requesting routes", n, 2)


def r2_responses(chk, fx, bodies):
    n = 0
    for name, t, body in bodies:
        rs = [c for c in T.calls(body) if T.short(c["fn"], 2) == "Pipeline::responses"]
        if not rs:
            continue
        chk.analysed(name)
        # outermost call expression whose receiver chain ends in responses()
        tops = []
        for c in T.calls(body):
            ch, root = chain_of(c)
            if ch and ch[-1][0] == "Pipeline::responses":
                tops.append((len(ch), ch))
        if not tops:
            chk.instance("C11/R2", "responses() feeds a recognised consumer", name, loc_of(rs[0].get("sp")), holds=False,
                         key="C11/R2 %s responses unrecognised form" % label(name))
            continue
        ch = max(tops, key=lambda x: x[0])[1]
        names = tuple(c[0] for c in ch)
        n += 1
        ok = names == MAP_OK or names == FIND_OK
        chk.instance("C11/R2", "every response reaches its consumer: %s" % " <- ".join(names), name, loc_of(ch[0][1].get("sp")), holds=ok,
                     key="C11/R2 %s responses-adaptor %s" % (label(name), "<-".join(x for x in names if x not in MAP_OK + FIND_OK)),
                     detail=None if ok else "an adaptor between responses() and collect_results drops or reorders responses: members / prefixes are lost silently")
        if names == MAP_OK:
            clo = T.peel(ch[1][1]["args"][1])
            cb = fx.thir.get(clo.get("def")) if clo.get("k") == "Closure" else None
            txt = X.ntext(T.user_body(cb)) if cb else "?"
            ok2 = bool(re.match(r"^Result::map\((resp|response|\w+),ResponseItem::into_content\)$", txt))
            chk.instance("C11/R2", "the mapping closure passes each item's content on unchanged (%s)" % txt[:80], clo.get("def", name), loc_of(clo.get("sp")),
                         holds=ok2, key="C11/R2 %s map-closure rewrites items" % label(name))
    chk.floor("C11/R2 response streams", n, 4)


def r3_operands(chk, fx, bodies):
    """resolver parameter name -> queries built from it"""
    want = {
        "rpsl::names::AsSet": [("AsSetMembersRecursive", 0)],
        "rpsl::names::RouteSet": [("RouteSetMembersRecursive", 0)],
        "rpsl::names::AutNum": [("Ipv4Routes", 0), ("Ipv6Routes", 0)],
        "rpsl::names::FilterSet": [("RpslObject", 1)],
    }
    n = 0
    for ty, qs in sorted(want.items()):
        res = [nm for nm in fx.mir if nm.startswith("<bgpfu::query::RpslEvaluator as rpsl::expr::eval::Resolver<'_, %s," % ty) and nm.endswith("::resolve")]
        if len(res) != 1:
            raise F.AnchorLost("resolver for %s (%d found)" % (ty, len(res)))
        rn = res[0]
        it = fx.fn_item(rn)
        params = list(it.get("params", []))
        pname = params[1] if len(params) > 1 else None
        sub = [(nm, b) for nm, t, b in bodies if nm == rn or nm.startswith(rn + "::{closure")]
        for (variant, idx) in qs:
            found = [a for nm, b in sub for a in query_adts(b) if a["variant"] == variant]
            n += 1
            ok = len(found) == 1 and pname is not None and operand(found[0]["fields"][idx]["expr"]) == pname
            chk.instance("C11/R3", "Resolver<%s>: Query::%s is built from the name being resolved (`%s`; operand %s)" % (
                T.short(ty, 1), variant, pname, [operand(a["fields"][idx]["expr"]) for a in found]), rn, loc_of(found[0].get("sp")) if found else None,
                holds=ok, key="C11/R3 Resolver<%s> %s operand" % (T.short(ty, 1), variant))
        if ty == "rpsl::names::FilterSet":
            found = [a for nm, b in sub for a in query_adts(b) if a["variant"] == "RpslObject"]
            cls = X.ntext(found[0]["fields"][0]["expr"]) if found else "?"
            chk.instance("C11/R3", "filter-set lookup asks for the filter-set object class (%s)" % cls, rn, None, holds=cls.endswith("RpslObjectClass::FilterSet"),
                         key="C11/R3 Resolver<FilterSet> object class")
            # the stored expression: first mp-filter attribute of a FilterSet object, cloned unchanged
            txt = " ".join(X.ntext(b) for nm, b in sub)
            ok = "ifletRpslAttribute::MpFilter(expr)=attr{Option::Some(Clone::clone(expr))}else{Option::None}" in txt and "ifletRpslObject::FilterSet(" in txt
            chk.instance("C11/R3", "a filter-set resolves to its own mp-filter attribute, unchanged", rn, None, holds=ok, key="C11/R3 Resolver<FilterSet> attribute")
    # per-member route queries in the as-set resolver use the member the response carried
    asr = [nm for nm in fx.mir if nm.startswith("<bgpfu::query::RpslEvaluator as rpsl::expr::eval::Resolver<'_, rpsl::names::AsSet,") and nm.endswith("::resolve")][0]
    for nm, t, b in bodies:
        if not nm.startswith(asr + "::{closure"):
            continue
        qs = [a for a in query_adts(b) if a["variant"] in ROUTE_Q]
        if not qs:
            continue
        lets = {T.pat_str(s["pat"]): s["init"] for s in T.walk(b) if s.get("k") == "LetStmt" and s.get("init") is not None}
        srcs = set()
        for a in qs:
            o = operand(a["fields"][0]["expr"])
            if o in lets:
                o = operand(lets[o])
            srcs.add(o)
        pn = [T.pat_str(p["pat"]) for p in t.get("params", []) if p.get("pat") is not None]
        ok = len(srcs) == 1 and pn and srcs == {pn[-1]}
        n += 1
        chk.instance("C11/R3", "per-member route queries use the member the response carried (%s; closure parameter %s)" % (sorted(srcs), pn), nm,
                     loc_of(qs[0].get("sp")), holds=bool(ok), key="C11/R3 Resolver<AsSet> member operand")
    chk.floor("C11/R3 operand instances", n, 6)


def r4_recursive(chk, fx, bodies):
    seen = {}
    for name, t, body in bodies:
        for a in query_adts(body):
            seen.setdefault(a["variant"], []).append((name, a))
    for v in ("AsSetMembersRecursive", "RouteSetMembersRecursive"):
        chk.instance("C11/R4", "set membership is requested with Query::%s" % v, "bgpfu::query", loc_of(seen[v][0][1].get("sp")) if v in seen else None,
                     holds=v in seen, key="C11/R4 %s not used" % v)
    for v, rec in NONREC.items():
        for (name, a) in seen.get(v, []):
            root = name.split("::{closure")[0]
            loops = any(fx.mir[n2].loop_heads() for n2 in fx.mir if n2 == root or n2.startswith(root + "::{closure"))
            chk.instance("C11/R4", "Query::%s (direct members only) is used by a function that iterates itself" % v, name, loc_of(a.get("sp")), holds=bool(loops),
                         key="C11/R4 %s non-recursive membership in %s" % (v, T.short(T.strip_generics(root), 3)),
                         detail="members of nested sets are never expanded: use %s or expand client-side" % rec)


def r5_cli(chk, fx):
    cands = [n for n in fx.thir if n == "bgpfu_cli::cli::main"]
    if len(cands) != 1:
        raise F.AnchorLost("bgpfu_cli::cli::main")
    t = fx.thir[cands[0]]
    chk.analysed(cands[0])
    body = T.user_body(t)
    fe = [c for c in T.calls(body) if T.short(c["fn"], 2) in ("Iterator::for_each", "Iterator::try_for_each")]
    ok = False
    names = ()
    if len(fe) == 1:
        ch, root = chain_of(fe[0])
        names = tuple(c[0] for c in ch)
        ok = names[:2] == ("Iterator::for_each", "PrefixSet::ranges") and "RpslEvaluator::evaluate" in names and \
            all(x in ("Iterator::for_each", "PrefixSet::ranges", "RpslEvaluator::evaluate", "RpslEvaluator::new", "Cli::host") for x in names)
    chk.instance("C11/R5", "the CLI prints every range of the evaluated set (%s)" % " <- ".join(names), cands[0], loc_of(fe[0].get("sp")) if fe else None,
                 holds=ok, key="C11/R5 cli print chain")
    if fe:
        clo = T.peel(fe[0]["args"][1])
        cb = fx.thir.get(clo.get("def")) if clo.get("k") == "Closure" else None
        txt = X.ntext(T.user_body(cb)) if cb else ""
        pn = [T.pat_str(p["pat"]) for p in (cb or {}).get("params", []) if p.get("pat") is not None]
        ok2 = bool(pn) and ("Argument::new_display(args.0)" in txt or "new_display" in txt) and ("letargs=(%s)" % pn[-1]) in txt and "_print" in txt
        chk.instance("C11/R5", "each range is printed with its Display form", clo.get("def", "?"), loc_of(clo.get("sp")), holds=ok2, key="C11/R5 cli print closure",
                     detail=txt[:160] if not ok2 else None)
