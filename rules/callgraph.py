"""Workspace call graph over MIR bodies (resolved callees + closures/coroutines created in a body)."""
from vlib import facts as F


def edges(fx, name):
    b = fx.mir[name]
    out = set()
    for c in b.calls():
        for n in (c.rdef, c.defn):
            if n and n in fx.mir:
                out.add(n)
        # trait method with default body, generic: match by def name
    for bl in b.blocks:
        for s in bl["stmts"]:
            if s["k"] == "assign" and s["rv"]["k"] == "agg":
                for k in ("closure", "coroutine"):
                    d = s["rv"].get(k)
                    if d and d in fx.mir:
                        out.add(d)
            if s["k"] == "assign":
                for o in b.rv_operands(s["rv"])[0]:
                    if o.get("c") == "const" and o.get("def") in fx.mir:
                        out.add(o["def"])
        t = bl["term"]
        if t["k"] == "call":
            for a in t["args"]:
                if a.get("c") == "const" and a.get("def") in fx.mir:
                    out.add(a["def"])
                if a.get("c") == "const" and a.get("rdef") in fx.mir:
                    out.add(a["rdef"])
    # nested bodies of an fn are only reachable through the aggregates above, except async fn wrappers:
    for n in fx.mir:
        if n.startswith(name + "::{closure#0}") and n.count("{closure") == name.count("{closure") + 1 and fx.mir[n].coroutine:
            out.add(n)
    return out


def trait_impl_targets(fx, call):
    """For an unresolved trait-method call: every workspace impl of that method (over-approximation)."""
    if call.rdef or not call.trait or not call.defn:
        return set()
    meth = call.defn.split("::")[-1]
    out = set()
    for n in fx.mir:
        if n.startswith("<") and (" as %s" % call.trait) in n and n.endswith(">::" + meth):
            out.add(n)
    return out


def reachable(fx, roots, follow_traits=True):
    seen = set()
    stack = [r for r in roots if r in fx.mir]
    while stack:
        n = stack.pop()
        if n in seen:
            continue
        seen.add(n)
        for m in edges(fx, n):
            if m not in seen:
                stack.append(m)
        if follow_traits:
            for c in fx.mir[n].calls():
                for m in trait_impl_targets(fx, c):
                    if m not in seen:
                        stack.append(m)
    return seen
