"""C09 — Requests use only what the server's advertised capabilities permit.

TABLE rules against an RFC 6241 §8 reference (operation requirements, parameter gates, capability URIs),
GUARD (a gate really gates, on the *server* capability set), control-dependence of builder stores on gate success,
WHO (operations are built only by their builders), OKDOM (nothing sent when building failed).
"""
import re
from vlib import facts as F, thir as T, absint as A
from vlib.report import loc_of

OPMOD = "netconf::message::rpc::operation"
OP_TRAIT = OPMOD + "::Operation"

EXPLANATION = (
    "[Method] R2-R6 are decided by abstract interpretation: every public builder setter is run for every value of its capability-gated parameter with Requirements::check as the only undecided call; the setter must return Ok exactly on the paths where check(RFC 6241 reference requirement for that value, the server's capabilities) was true, and no other requirement may gate it; Operation::new, Url::try_new and Session::rpc likewise. Helper functions, constants and the check-to-Result idiom are free. "
    "C09/R1 (TABLE): for every impl of Operation the REQUIRED_CAPABILITIES const (read from its THIR) equals the RFC 6241 §8 "
    "reference keyed by the operation's NAME; an operation without a reference row is reported. C09/R2 (TABLE): the "
    "variant->Requirements tables of Datastore::try_as_source/target/lock_target, Filter::try_use, TestOption/ErrorOption::try_use, "
    "commit::Builder::try_use_confirmed/persist and cancel_commit::Builder::persist_id equal the reference; Requirements::check is "
    "None->true, One->contains, Any->any, All->all. C09/R3 (GUARD): in every gate Ok(..) is dominated by the true edge of "
    "Requirements::check applied to Context::server_capabilities (not the client's). C09/R4: every store of a capability-gated "
    "parameter into a builder field executes only under the success of the gate the reference assigns to that setter "
    "(closure passed to Result::map on the gate's result, `?` on it, or the check's true edge); unaudited public setters taking "
    "gated types are reported. C09/R5 (WHO): operation structs are constructed only in their Builder::finish / Default / Clone, "
    "Url only in Url::try_new, and Operation::new runs the builder only under the operation-level check. C09/R6 (OKDOM): "
    "Session::rpc sends only through the success edge of O::new. C09/R7 (TABLE): Capability::from_str's pattern table and "
    "Capability::uri agree with each other and with the IANA capability URNs. Both directions of the property reduce to "
    "equality with the reference tables. Not decided: iri-string's URI splitting (trusted)."
)

# ---- reference: RFC 6241 §8 (and the Junos XML management protocol capability) ---------------------------
NONE = "None"
OP_REF = {
    "get": NONE, "get-config": NONE, "edit-config": NONE, "copy-config": NONE, "delete-config": NONE,
    "lock": NONE, "unlock": NONE, "kill-session": NONE, "close-session": NONE,
    "commit": "One(Candidate)", "discard-changes": "One(Candidate)",
    "cancel-commit": "One(ConfirmedCommitV1_1)",
    "validate": "Any(ValidateV1_0,ValidateV1_1)",
}
JUNOS_REQ = "One(JunosXmlManagementProtocol)"

GATE_REF = {
    OPMOD + "::Datastore::try_as_source": {"Running": NONE, "Candidate": "One(Candidate)", "Startup": "One(Startup)"},
    OPMOD + "::Datastore::try_as_target": {"Running": "One(WritableRunning)", "Candidate": "One(Candidate)", "Startup": "One(Startup)"},
    OPMOD + "::Datastore::try_as_lock_target": {"Running": NONE, "Candidate": "One(Candidate)", "Startup": "One(Startup)"},
    OPMOD + "::Filter::try_use": {"Subtree": NONE, "XPath": "One(XPath)"},
    OPMOD + "::edit_config::TestOption::try_use": {"TestThenSet": "Any(ValidateV1_0,ValidateV1_1)", "Set": "Any(ValidateV1_0,ValidateV1_1)",
                                                  "TestOnly": "One(ValidateV1_1)"},
    OPMOD + "::edit_config::ErrorOption::try_use": {"StopOnError": NONE, "ContinueOnError": NONE, "RollbackOnError": "One(RollbackOnError)"},
}
FIXED_GATE_REF = {
    OPMOD + "::commit::Builder::<'_>::try_use_confirmed": "Any(ConfirmedCommitV1_0,ConfirmedCommitV1_1)",
    OPMOD + "::commit::Builder::<'_>::try_use_persist": "One(ConfirmedCommitV1_1)",
    OPMOD + "::cancel_commit::Builder::<'_>::persist_id": "One(ConfirmedCommitV1_1)",
}
# setter -> gate that must have succeeded before its store
SETTER_GATE = {
    ("get_config", "source"): "Datastore::try_as_source",
    ("get_config", "filter"): "Filter::try_use",
    ("get", "filter"): "Filter::try_use",
    ("edit_config", "target"): "Datastore::try_as_target",
    ("edit_config", "url"): "Url::try_new",
    ("edit_config", "error_option"): "ErrorOption::try_use",
    ("edit_config", "test_option"): "TestOption::try_use",
    ("copy_config", "target"): "Datastore::try_as_target",
    ("copy_config", "source"): "Datastore::try_as_source",
    ("delete_config", "target"): "Datastore::try_as_target",
    ("delete_config", "url"): "Url::try_new",
    ("lock", "target"): "Datastore::try_as_lock_target",
    ("validate", "source"): "Datastore::try_as_source",
    ("commit", "confirmed"): "try_use_confirmed",
    ("commit", "confirm_timeout"): "try_use_confirmed",
    ("commit", "persist"): "try_use_persist",
    ("commit", "persist_id"): "try_use_persist",
    ("cancel_commit", "persist_id"): "Requirements::check",
}
UNGATED_SETTERS = {("edit_config", "config"), ("edit_config", "default_operation"), ("copy_config", "config"),
                   ("validate", "config"), ("kill_session", "session_id")}
GATED_PARAM_TYPES = ("operation::Datastore", "operation::Filter", "edit_config::TestOption", "edit_config::ErrorOption",
                     "operation::Url")

URI_REF = {
    ("urn", None, "ietf:params:netconf:base:1.0"): "Base(Base::V1_0)",
    ("urn", None, "ietf:params:netconf:base:1.1"): "Base(Base::V1_1)",
    ("urn", None, "ietf:params:netconf:capability:writable-running:1.0"): "WritableRunning",
    ("urn", None, "ietf:params:netconf:capability:candidate:1.0"): "Candidate",
    ("urn", None, "ietf:params:netconf:capability:confirmed-commit:1.0"): "ConfirmedCommitV1_0",
    ("urn", None, "ietf:params:netconf:capability:confirmed-commit:1.1"): "ConfirmedCommitV1_1",
    ("urn", None, "ietf:params:netconf:capability:rollback-on-error:1.0"): "RollbackOnError",
    ("urn", None, "ietf:params:netconf:capability:validate:1.0"): "ValidateV1_0",
    ("urn", None, "ietf:params:netconf:capability:validate:1.1"): "ValidateV1_1",
    ("urn", None, "ietf:params:netconf:capability:startup:1.0"): "Startup",
    ("urn", None, "ietf:params:netconf:capability:url:1.0"): "Url",
    ("urn", None, "ietf:params:netconf:capability:xpath:1.0"): "XPath",
    ("http", "xml.juniper.net", "/netconf/junos/1.0"): "JunosXmlManagementProtocol",
}


_FX = [None]


def _follow_const(e, depth=0):
    """A plain (non-trait) named constant stands for its initialiser."""
    e = T.peel(e)
    while e.get("k") == "Const" and not e.get("self_ty") and _FX[0] is not None and e.get("def") in _FX[0].thir and depth < 4:
        e = T.peel(_FX[0].thir[e["def"]]["body"])
        depth += 1
    return e


def req_norm(e):
    """Canonical text of a Requirements expression: None | One(X) | Any(X,Y) | All(X,Y)."""
    e = _follow_const(e)
    if e.get("k") != "Adt" or not e["adt"].endswith("capabilities::Requirements"):
        return "?" + T.expr_str(e)
    v = e["variant"]
    if v == "None":
        return NONE
    inner = _follow_const(e["fields"][0]["expr"])
    caps = []
    if inner.get("k") == "Array":
        caps = [cap_name(x) for x in inner["fields"]]
    else:
        caps = [cap_name(inner)]
    if v in ("Any", "All"):
        caps = sorted(caps)
    return "%s(%s)" % (v, ",".join(caps))


def cap_name(e):
    e = _follow_const(e)
    if e.get("k") == "Adt" and e["adt"].endswith("capabilities::Capability"):
        return e["variant"]
    return "?" + T.expr_str(e)


def run(ctx):
    chk, fx = ctx.chk, ctx.facts
    _FX[0] = fx
    chk.explanation = EXPLANATION
    chk.assumptions += [
        "reference tables: RFC 6241 §8.2-8.9 (capabilities and the operations/parameters they enable), §10.4 capability URNs; Junos operations require http://xml.juniper.net/netconf/junos/1.0",
        "iri-string splits a URI into scheme/authority/path/query/fragment per RFC 3986",
    ]
    r1_operations(chk, fx)
    r2_check_semantics(chk, fx)
    r34_setters(chk, fx)
    r5_who(chk, fx)
    r6_rpc(chk, fx)
    r7_uris(chk, fx)
    r7_url_query_arguments(chk, fx)
    r8_builders_start_unset(chk, fx)


# ---------------------------------------------------------------------------------------------
def op_impls(fx):
    return [it for it in fx.item_list if it["kind"] == "Impl" and it.get("trait") == OP_TRAIT]


def r1_operations(chk, fx):
    n = 0
    for it in op_impls(fx):
        name_c = [a for a in it["assoc"] if a.endswith("::NAME")]
        req_c = [a for a in it["assoc"] if a.endswith("::REQUIRED_CAPABILITIES")]
        if not req_c and (OP_TRAIT + "::REQUIRED_CAPABILITIES") in fx.thir:
            # not stated by the impl: the trait's default applies
            req_c = [OP_TRAIT + "::REQUIRED_CAPABILITIES"]
        if not name_c or not req_c:
            raise F.AnchorLost("impl Operation for %s lacks NAME / REQUIRED_CAPABILITIES" % it["self"])
        tn, tr = fx.thir.get(name_c[0]), fx.thir.get(req_c[0])
        if tn is None or tr is None:
            raise F.AnchorLost("no THIR for consts of %s" % it["self"])
        nm = T.peel(tn["body"])
        name = nm.get("v") if nm.get("k") == "Lit" else None
        req = req_norm(tr["body"])
        n += 1
        if name is None:
            chk.instance("C09/R1", "operation NAME of %s is a string literal" % it["self"], it["qdef"], loc_of(it.get("sp")),
                         holds=False, key="C09/R1 %s NAME-not-literal" % T.strip_generics(it["self"]))
            continue
        if "::junos::" in it["self"]:
            want = JUNOS_REQ
        else:
            want = OP_REF.get(name)
        if want is None:
            chk.instance("C09/R1", "<%s> has no row in the RFC 6241 reference table" % name, it["qdef"], loc_of(it.get("sp")),
                         holds=False, key="C09/R1 unaudited-operation %s" % name)
            continue
        chk.instance("C09/R1", "<%s> requires %s (reference: %s)" % (name, req, want), req_c[0], loc_of(tr.get("sp")),
                     holds=req == want, key="C09/R1 operation-requirement %s" % name)
    chk.floor("C09/R1 Operation impls", n, 19)


# ---------------------------------------------------------------------------------------------
def gate_table(t, fx=None, variants=()):
    """variant -> requirement from `let required_capabilities = match self {..}`; or a fixed requirement.

    The table may live in a private helper (`self.required_capabilities(flag)`): the helper's match is then evaluated per variant
    with its parameters bound to the literal arguments of the call (arm guards over bool parameters are evaluated)."""
    body = T.user_body(t)
    lets = [s for s in T.walk(body) if s.get("k") == "LetStmt" and T.pat_str(s["pat"]) == "required_capabilities"]
    if len(lets) != 1:
        return None, None
    init = T.peel(lets[0]["init"])
    if init.get("k") == "Match":
        rows = {}
        for a in init["arms"]:
            for v in pat_variants(a["pat"]):
                rows.setdefault(v, req_norm(a["body"]))
        return rows, None
    if init.get("k") == "Call" and fx is not None and init.get("fn") in fx.thir and variants:
        rows = _table_via_helper(fx, init, variants)
        if rows is not None:
            return rows, None
        return None, None
    return None, req_norm(init)


def _table_via_helper(fx, call, variants, depth=0):
    ht = fx.thir[call["fn"]]
    params = [T.pat_str(p["pat"]) for p in ht.get("params", []) if p.get("pat") is not None]
    if len(params) != len(call["args"]):
        return None
    env = {}
    self_param = None
    for pn, a in zip(params, call["args"]):
        a = T.peel(a)
        if a.get("k") == "Lit" and isinstance(a.get("v"), bool):
            env[pn] = a["v"]
        elif a.get("k") == "Var" and a["name"] == "self":
            self_param = pn
        else:
            return None
    if self_param is None:
        return None
    body = T.user_body(ht)
    e = T.peel(body.get("expr") if body.get("k") == "Block" and not body.get("stmts") else body)
    if e.get("k") != "Match" or T.expr_str(T.peel(e["scrut"])) != self_param:
        return None
    rows = {}
    for v in variants:
        hit = None
        for a in e["arms"]:
            pv = pat_variants(a["pat"])
            if v not in pv and "_" not in pv:
                continue
            g = a.get("guard")
            if g is not None:
                val = _eval_bool(g, env)
                if val is None:
                    return None
                if not val:
                    continue
            hit = a
            break
        if hit is None:
            return None
        rows[v] = req_norm(hit["body"])
    return rows


def _eval_bool(e, env):
    e = T.peel(e)
    k = e.get("k")
    if k == "Var":
        return env.get(e["name"])
    if k == "Lit" and isinstance(e.get("v"), bool):
        return e["v"]
    if k == "Unary" and e.get("op") == "Not":
        v = _eval_bool(e["arg"], env)
        return None if v is None else (not v)
    if k == "Logical":
        a, b = _eval_bool(e["lhs"], env), _eval_bool(e["rhs"], env)
        if a is None or b is None:
            return None
        return (a and b) if e["op"] == "And" else (a or b)
    return None


def pat_variants(p):
    k = p.get("k")
    if k == "Variant":
        return [p["variant"]]
    if k == "Or":
        out = []
        for x in p["pats"]:
            out += pat_variants(x)
        return out
    if k in ("Deref",):
        return pat_variants(p["sub"])
    if k == "Bind" and p.get("sub"):
        return pat_variants(p["sub"])
    return ["_"]


def r2_gate_tables(chk, fx):
    n = 0
    for fn, ref in sorted(GATE_REF.items()):
        t = fx.thir_body(fn)
        chk.analysed(fn)
        rows, fixed = gate_table(t, fx, tuple(ref))
        if rows is None:
            chk.instance("C09/R2", "%s: requirement table of unrecognised form" % T.short(fn, 2), fn, loc_of(t.get("sp")), holds=False,
                         key="C09/R2 %s unrecognised-form" % T.short(fn, 3))
            n += len(ref)
            continue
        for v, want in sorted(ref.items()):
            got = rows.get(v, rows.get("_"))
            n += 1
            chk.instance("C09/R2", "%s: %s => %s (reference %s)" % (T.short(fn, 2), v, got, want), fn, loc_of(t.get("sp")),
                         holds=got == want, key="C09/R2 %s %s" % (T.short(fn, 3), v))
        for v in rows:
            if v not in ref and v != "_":
                chk.instance("C09/R2", "%s: variant %s has no reference row" % (T.short(fn, 2), v), fn, loc_of(t.get("sp")), holds=False,
                             key="C09/R2 %s unaudited-variant %s" % (T.short(fn, 3), v))
    for fn, want in sorted(FIXED_GATE_REF.items()):
        t = fx.thir_body(fn)
        chk.analysed(fn)
        rows, fixed = gate_table(t)
        n += 1
        chk.instance("C09/R2", "%s requires %s (reference %s)" % (T.short(fn, 3), fixed, want), fn, loc_of(t.get("sp")),
                     holds=fixed == want, key="C09/R2 %s requirement" % T.short(T.strip_generics(fn), 3))
    chk.floor("C09/R2 gate table rows", n, 19)
    # Requirements::check
    t = fx.thir_body("netconf::capabilities::Requirements::check")
    body = T.user_body(t)
    ms = T.find(body, "Match")
    rows = {}
    if ms:
        for a in ms[0]["arms"]:
            for v in pat_variants(a["pat"]):
                rows[v] = T.expr_str(a["body"])
    want = {"None": lambda s: s == "true",
            "One": lambda s: s.startswith("Capabilities::contains("),
            "Any": lambda s: s.startswith("Iterator::any(") and closures_are_contains(fx, t),
            "All": lambda s: s.startswith("Iterator::all(") and closures_are_contains(fx, t)}
    for v, pred in want.items():
        got = rows.get(v)
        chk.instance("C09/R2", "Requirements::check: %s => %s" % (v, got), t["def"], loc_of(t.get("sp")),
                     holds=got is not None and pred(got), key="C09/R2 Requirements::check %s" % v)
    # Capabilities::contains is set membership
    b = fx.body("netconf::capabilities::Capabilities::contains")
    cs = [c for n, bb in fx.mir.items() if n == b.name or n.startswith(b.name + "::{closure") for c in bb.calls()
          if not c.macro and not (c.sp.get("m") or "").startswith("tracing")]
    chk.instance("C09/R2", "Capabilities::contains = HashSet::contains(&self.inner, elem)", b.name, None,
                 holds=len(cs) == 1 and cs[0].is_fn("HashSet::<T, S>::contains", "HashSet::<T, S, A>::contains"),
                 key="C09/R2 Capabilities::contains")


def closures_are_contains(fx, t):
    """Every (non-logging) closure of Requirements::check is exactly `capabilities.contains(requirement)`."""
    n = 0
    for name, tt in fx.thir.items():
        if name.startswith(t["def"] + "::{closure") and (tt.get("sp") or {}).get("m") is None:
            txt = T.expr_str(T.user_body(tt)).replace(" ", "").replace("&", "").replace("*", "")
            if not txt:
                continue
            n += 1
            if txt not in ("Capabilities::contains(capabilities,requirement)", "{Capabilities::contains(capabilities,requirement)}"):
                return False
    return n >= 2


def closure_text(fx, t, s):
    out = s
    for n, tt in fx.thir.items():
        if n.startswith(t["def"] + "::{closure"):
            out += " " + T.expr_str(tt["body"])
    return out


# ---------------------------------------------------------------------------------------------
def r3_gates_gate(chk, fx):
    fns = list(GATE_REF) + [OPMOD + "::cancel_commit::Builder::<'_>::persist_id"]
    n = 0
    for fn in fns:
        b = fx.body(fn)
        chk.analysed(fn)
        checks = b.calls_to("capabilities::Requirements::check", user_only=True)
        if len(checks) != 1:
            chk.instance("C09/R3", "%s calls Requirements::check exactly once" % T.short(fn, 3), fn, None, holds=False,
                         key="C09/R3 %s check-count" % T.short(T.strip_generics(fn), 3))
            continue
        ck = checks[0]
        org = b.backward_origins(F.op_base(ck.args[1]), through_call=lambda c: c.is_fn("Deref::deref"))
        srcs = [o["call"] for o in org if o["k"] == "call" and o["call"] is not None]
        server = bool(srcs) and all(c.is_fn("Context::server_capabilities") for c in srcs)
        n += 1
        chk.instance("C09/R3", "%s checks against the *server's* capabilities" % T.short(fn, 3), fn, ck.loc(), holds=server,
                     key="C09/R3 %s capability-set" % T.short(T.strip_generics(fn), 3))
        # the requirement handed to check() is the table's value
        rq = b.backward_origins(F.op_base(ck.args[0]), through_call=lambda c: False)
        named = F.op_base(ck.args[0]) is not None and any(b.locals[v].get("name") == "required_capabilities" for v in b._last_visited)
        chk.instance("C09/R3", "%s checks the requirement computed from the table" % T.short(fn, 3), fn, ck.loc(), holds=named,
                     key="C09/R3 %s checked-requirement" % T.short(T.strip_generics(fn), 3))
        for (bi, si, s) in b.ok_aggs():
            n += 1
            chk.instance("C09/R3", "%s returns Ok only on the check's true edge" % T.short(fn, 3), fn, loc_of(s.get("sp")),
                         holds=b.guarded_by_call(bi, ck, want=True), key="C09/R3 %s Ok-unguarded" % T.short(T.strip_generics(fn), 3))
    # commit::Builder::try_use: check(...).then_some(()).ok_or(Err)
    fn = OPMOD + "::commit::Builder::<'_>::try_use"
    t = fx.thir_body(fn)
    s = T.expr_str(T.user_body(t)).replace(" ", "").replace("&", "").replace("*", "").lstrip("{")
    ok = s.startswith("Option::ok_or(bool::then_some(Requirements::check(required_capabilities,Context::server_capabilities(self.ctx)),()),")
    n += 1
    chk.instance("C09/R3", "commit::Builder::try_use = check(required, server_capabilities).then_some(()).ok_or(Err)", fn, loc_of(t.get("sp")),
                 holds=ok, key="C09/R3 commit::Builder::try_use form", detail=None if ok else s[:200])
    for g in ("try_use_confirmed", "try_use_persist"):
        fn2 = OPMOD + "::commit::Builder::<'_>::" + g
        b = fx.body(fn2)
        cs = b.calls_to("commit::Builder::<'_>::try_use", user_only=True)
        ok = len(cs) == 1 and any(b.locals[v].get("name") == "required_capabilities" for v in (b.backward_slice(F.op_base(cs[0].args[1]))[1]))
        ret = any(o["k"] == "call" and o["call"] is not None and o["call"].bb == cs[0].bb for o in b.backward_origins(0)) if cs else False
        n += 1
        chk.instance("C09/R3", "%s returns try_use(required_capabilities, ..)" % g, fn2, None, holds=ok and ret,
                     key="C09/R3 commit::Builder::%s forwards" % g)
    # Url::try_new: Ok(Url) only if a scheme of an advertised :url capability equals the URL's scheme
    fn = OPMOD + "::Url::try_new"
    t = fx.thir_body(fn)
    s = T.expr_str(T.user_body(t))
    cl = closure_text(fx, t, "")
    ok = "Context::server_capabilities" in s and "Option::ok_or_else(Iterator::find(" in s.replace("\n", "") and "Result::map(" in s \
        and "Capability::Url" in cl and "scheme_str" in cl
    n += 1
    chk.instance("C09/R3", "Url::try_new: Url built only via find(scheme of an advertised :url capability == url.scheme).ok_or_else(Err).map(..)",
                 fn, loc_of(t.get("sp")), holds=ok, key="C09/R3 Url::try_new form")
    chk.floor("C09/R3 gate obligations", n, 18)


# ---------------------------------------------------------------------------------------------
def builder_setters(fx):
    out = []
    for it in fx.item_list:
        if it["kind"] != "AssocFn" or it.get("vis") != "Public":
            continue
        d = it["def"]
        m = re.match(r"^" + re.escape(OPMOD) + r"::(?:junos::)?(\w+)::Builder::<[^>]*>::(\w+)$", d) or \
            re.match(r"^" + re.escape(OPMOD) + r"::(?:junos::)?(\w+)::Builder::(\w+)$", d)
        if not m:
            continue
        if it.get("impl_trait"):
            continue
        out.append((m.group(1), m.group(2), it))
    return out


def stores_in(fx, fn_name):
    """(body, bb, stmt) for every store into a field of the builder (`self.<f> = ..`) in fn and its closures."""
    out = []
    for n, b in fx.mir.items():
        if n == fn_name or n.startswith(fn_name + "::{closure"):
            for bi, bl in enumerate(b.blocks):
                if bl.get("cleanup"):
                    continue
                for s in bl["stmts"]:
                    if s["k"] != "assign":
                        continue
                    pls = []
                    if s["pl"].get("p"):
                        pls.append(s["pl"])
                    if s["rv"]["k"] == "ref" and s["rv"]["bk"] == "mut" and s["rv"]["pl"].get("p"):
                        pls.append(s["rv"]["pl"])
                    for pl in pls:
                        fields = [p for p in pl["p"] if p.startswith(".") and not p[1:].isdigit()]
                        if not fields:
                            continue
                        if pl["l"] != 1:
                            continue
                        out.append((b, bi, s, fields[-1][1:]))
    return out


def r4_setters(chk, fx):
    setters = builder_setters(fx)
    chk.floor("C09/R4 public builder setters", len(setters), 20)
    n = 0
    for (mod, name, it) in sorted(setters, key=lambda x: (x[0], x[1])):
        fn = it["def"]
        junos = "::junos::" in fn
        gated_param = any(any(g in ty for g in GATED_PARAM_TYPES) for ty in it["inputs"][1:])
        gate = SETTER_GATE.get((mod, name))
        if junos:
            # Junos builders: operation-level requirement only; must not take standard gated parameter types
            chk.instance("C09/R4", "junos::%s::Builder::%s takes no capability-gated parameter type" % (mod, name), fn,
                         loc_of(it.get("sp")), holds=not gated_param, key="C09/R4 junos::%s::%s gated-param-unaudited" % (mod, name))
            continue
        if gate is None:
            ok = (mod, name) in UNGATED_SETTERS and not gated_param
            if not ok and not gated_param and name not in ("url",):
                # an unknown setter with ungated types: report as unaudited (fail closed)
                chk.instance("C09/R4", "%s::Builder::%s is not in the audited setter table" % (mod, name), fn, loc_of(it.get("sp")),
                             holds=(mod, name) in UNGATED_SETTERS, key="C09/R4 %s::%s unaudited-setter" % (mod, name))
            else:
                chk.instance("C09/R4", "%s::Builder::%s needs no capability gate" % (mod, name), fn, loc_of(it.get("sp")), holds=ok,
                             key="C09/R4 %s::%s gated-param-without-gate" % (mod, name))
            continue
        n += 1
        ok, why = setter_gated(fx, fn, gate)
        chk.instance("C09/R4", "%s::Builder::%s stores its parameter only after %s succeeded" % (mod, name, gate), fn,
                     loc_of(it.get("sp")), holds=ok, detail=why, key="C09/R4 %s::Builder::%s store-not-gated-by %s" % (mod, name, gate))
        if (mod, name) == ("delete_config", "target"):
            b = fx.body(fn)
            aggs = [s for (bi, si, s) in b.aggs_of("error::Error") if s["rv"]["variant"] == "DeleteRunningConfig"]
            chk.instance("C09/R4", "delete_config target rejects the running datastore", fn, loc_of(it.get("sp")), holds=bool(aggs),
                         key="C09/R4 delete_config::target running-not-rejected")
    chk.floor("C09/R4 gated setters", n, 18)
    # every key of the reference exists (a removed setter is fine; a renamed one shows up as unaudited above)


def setter_gated(fx, fn, gate):
    b = fx.body(fn)
    stores = stores_in(fx, fn)
    if not stores:
        return False, "no store found"
    gate_calls = [c for c in b.calls() if not c.macro and c.is_fn(gate)]
    for (sb, bi, s, field) in stores:
        if field in ("ctx", "_ctx"):
            continue
        if sb.name == fn:
            # store in the setter body: dominated by the gate's success
            ok = False
            for g in gate_calls:
                if g.is_fn("Requirements::check"):
                    ok = ok or sb.guarded_by_call(bi, g, want=True)
                else:
                    ok = ok or sb.ok_dominates(g, bi)
            if not ok:
                # idiom B: value = param.map(|x| gate(x)).transpose()?  -- gate inside the mapping closure
                l = F.op_base(s["rv"].get("op", {})) if s["rv"]["k"] == "use" else None
                if l is not None:
                    org = sb.backward_origins(l, through_call=lambda c: c.is_fn("Try::branch", "Option::<std::result::Result<T, E>>::transpose", "transpose"))
                    for o in org:
                        c = o.get("call")
                        if o["k"] == "call" and c is not None and c.is_fn("Option::<T>::map"):
                            k = closure_of(fx, sb, c)
                            if k is not None and [x for x in k.calls() if x.is_fn(gate)] and returns_call(k, gate):
                                e = sb.ok_edge_of(c, pass_through=tuple(F.PASS_THROUGH) + ("transpose",))
                                if e is not None and sb.edge_dominates(sb._switch_block_of(e[0]), e[1], bi):
                                    ok = True
            if not ok:
                return False, "store to .%s in the setter body is not dominated by the success of %s" % (field, gate)
        else:
            # store inside a closure: the closure must be the argument of Result::map on the gate's result
            parent = fx.mir.get(sb.name.rsplit("::{closure", 1)[0])
            if parent is None:
                return False, "closure parent not found"
            ok = False
            for c in parent.calls():
                if c.is_fn("Result::<T, E>::map", "Result::<T, E>::and_then") and closure_of(fx, parent, c) is sb:
                    org = parent.backward_origins(F.op_base(c.args[0]), through_call=lambda x: x.is_fn("Result::<T, E>::map_err"))
                    srcs = [o["call"] for o in org if o["k"] == "call" and o["call"] is not None]
                    if srcs and all(x.is_fn(gate) for x in srcs):
                        ok = True
            if not ok:
                return False, "closure storing .%s is not the Ok-continuation of %s" % (field, gate)
    if gate.endswith("check"):
        return True, None
    if not gate_calls:
        # idiom B has the gate in a closure
        inner = [c for n, k in fx.mir.items() if n.startswith(fn + "::{closure") for c in k.calls() if c.is_fn(gate)]
        if not inner:
            return False, "gate %s is never called" % gate
    return True, None


def closure_of(fx, b, call):
    l = F.op_base(call.args[-1])
    if l is None:
        return None
    for o in b.backward_origins(l, through_call=lambda c: False):
        if o["k"] == "agg" and o["rv"].get("closure"):
            return fx.mir.get(o["rv"]["closure"])
    return None


def returns_call(k, gate):
    for o in k.backward_origins(0, through_call=lambda c: False):
        if o["k"] == "call" and o["call"] is not None and o["call"].is_fn(gate):
            return True
    return False


# ---------------------------------------------------------------------------------------------
# R2 / R3 / R4 — decided by abstract interpretation of every public builder setter (helpers, gates and constants inlined): a setter
# returns Ok(builder) exactly on the paths where Requirements::check(<the reference requirement for this parameter value>,
# <the SERVER's capabilities>) was true.  Independent of where the requirement table lives and of how the check result is turned
# into a Result.
# ---------------------------------------------------------------------------------------------
REQ_ADT = "netconf::capabilities::Requirements"
DS = {"Running": NONE, "Candidate": "One(Candidate)", "Startup": "One(Startup)"}
SETTER_REQ = {
    ("get_config", "source"): DS,
    ("get_config", "filter"): {"None": NONE, "Subtree": NONE, "XPath": "One(XPath)"},
    ("get", "filter"): {"None": NONE, "Subtree": NONE, "XPath": "One(XPath)"},
    ("edit_config", "target"): dict(DS, Running="One(WritableRunning)"),
    ("edit_config", "error_option"): {"StopOnError": NONE, "ContinueOnError": NONE, "RollbackOnError": "One(RollbackOnError)"},
    ("edit_config", "test_option"): {"TestThenSet": "Any(ValidateV1_0,ValidateV1_1)", "Set": "Any(ValidateV1_0,ValidateV1_1)", "TestOnly": "One(ValidateV1_1)"},
    ("edit_config", "url"): "URL",
    ("copy_config", "target"): dict(DS, Running="One(WritableRunning)"),
    ("copy_config", "source"): DS,
    ("delete_config", "target"): dict(DS, Running="REJECT"),
    ("delete_config", "url"): "URL",
    ("lock", "target"): DS,
    ("validate", "source"): DS,
    ("commit", "confirmed"): "Any(ConfirmedCommitV1_0,ConfirmedCommitV1_1)",
    ("commit", "confirm_timeout"): "Any(ConfirmedCommitV1_0,ConfirmedCommitV1_1)",
    ("commit", "persist"): "One(ConfirmedCommitV1_1)",
    ("commit", "persist_id"): "One(ConfirmedCommitV1_1)",
    ("cancel_commit", "persist_id"): "One(ConfirmedCommitV1_1)",
}


def req_text(fx, v):
    """Canonical text of an abstract Requirements value: None | One(X) | Any(X,Y) | All(X,Y)."""
    if v[0] == "const":
        d = v[1]
        if len(v) > 2 and d.startswith(OP_TRAIT + "::"):
            # <X as Operation>::CONST: the value is the one of X's impl (the trait's default only if the impl states none);
            # for `Self` inside the trait's own methods it is whatever the implementing operation declares
            st = v[2]
            impl = [it for it in op_impls(fx) if it["self"] == st or T.strip_generics(it["self"]) == T.strip_generics(st)]
            if st == "Self" or not impl:
                return "?const:" + T.short(d, 2)
            own = [a for a in impl[0]["assoc"] if a.endswith("::" + d.rsplit("::", 1)[1])]
            d = own[0] if own else d
        t = fx.thir.get(d)
        return req_norm(t["body"]) if t is not None else "?const:" + T.short(d, 2)
    if v[0] == "adt" and v[1].endswith("capabilities::Requirements"):
        if v[2] == "None":
            return NONE
        inner = A.payload0(v)
        caps = []
        items = inner[2] if inner[0] == "term" and inner[1] == "array" else (inner,)
        for c in items:
            if c[0] == "adt" and c[1].endswith("capabilities::Capability"):
                caps.append(c[2])
            elif c[0] == "const":
                caps.append("?" + T.short(c[1], 2))
            else:
                caps.append("?" + A.vstr(c)[:30])
        if v[2] in ("Any", "All"):
            caps = sorted(caps)
        return "%s(%s)" % (v[2], ",".join(caps))
    return "?" + A.vstr(v)[:60]


def check_hook(fx):
    def hook(fn, args, node, interp):
        if T.short(fn, 2) == "Requirements::check" and len(args) == 2:
            rt = req_text(fx, args[0])
            interp.trace.append(("check", rt, args[1], node.get("sp")))
            if rt == NONE:
                return A.lit(True)
            return ("term", "CHECK", (("lit", rt), args[1]))
        return None
    return hook


def checks_on(p):
    """[(requirement text, capability-set text, outcome)] of the capability checks made on a path."""
    out = []
    for e in p.trace:
        if e[0] == "check":
            key = A.vstr(("term", "CHECK", (("lit", e[1]), e[2])))
            out.append((e[1], A.vstr(e[2]), True if e[1] == NONE else p.assume.get(key)))
    return out


def variants_of_enum(fx, path):
    for it in fx.item_list:
        if it["kind"] == "Enum" and it["def"] == path:
            return [(v["name"], len(v.get("fields", []))) for v in it["variants"]]
    raise F.AnchorLost("enum %s" % path)


def param_cases(fx, ty):
    """[(label, abstract value)] for a setter parameter type."""
    ty = ty.strip()
    if ty.startswith("std::option::Option<"):
        inner = ty[len("std::option::Option<"):-1]
        sub = param_cases(fx, inner)
        if len(sub) == 1 and sub[0][0] == "*":
            return [("*", ("sym", "PARAM"))]
        return [("None", A.NONE)] + [(lab, A.some(v)) for lab, v in sub]
    for enum in (OPMOD + "::Datastore", OPMOD + "::Filter", OPMOD + "::edit_config::TestOption", OPMOD + "::edit_config::ErrorOption"):
        if ty == enum:
            return [(name, ("adt", enum, name, tuple((str(i), ("sym", "PAYLOAD%d" % i)) for i in range(nf)))) for name, nf in variants_of_enum(fx, enum)]
    return [("*", ("sym", "PARAM"))]


def r2_check_semantics(chk, fx):
    # Requirements::check
    t = fx.thir_body("netconf::capabilities::Requirements::check")
    body = T.user_body(t)
    ms = T.find(body, "Match")
    rows = {}
    if ms:
        for a in ms[0]["arms"]:
            for v in pat_variants(a["pat"]):
                rows[v] = T.expr_str(a["body"])
    want = {"None": lambda s: s == "true",
            "One": lambda s: s.startswith("Capabilities::contains("),
            "Any": lambda s: s.startswith("Iterator::any(") and closures_are_contains(fx, t),
            "All": lambda s: s.startswith("Iterator::all(") and closures_are_contains(fx, t)}
    for v, pred in want.items():
        got = rows.get(v)
        chk.instance("C09/R2", "Requirements::check: %s => %s" % (v, got), t["def"], loc_of(t.get("sp")),
                     holds=got is not None and pred(got), key="C09/R2 Requirements::check %s" % v)
    b = fx.body("netconf::capabilities::Capabilities::contains")
    cs = [c for n, bb in fx.mir.items() if n == b.name or n.startswith(b.name + "::{closure") for c in bb.calls()
          if not c.macro and not (c.sp.get("m") or "").startswith("tracing")]
    chk.instance("C09/R2", "Capabilities::contains = HashSet::contains(&self.inner, elem)", b.name, None,
                 holds=len(cs) == 1 and cs[0].is_fn("HashSet::<T, S>::contains", "HashSet::<T, S, A>::contains"),
                 key="C09/R2 Capabilities::contains")


def r34_setters(chk, fx):
    setters = builder_setters(fx)
    chk.floor("C09/R4 public builder setters", len(setters), 20)
    n_gated = n_rows = 0
    for (mod, name, it) in sorted(setters, key=lambda x: (x[0], x[1])):
        fn = it["def"]
        junos = "::junos::" in fn
        gated_param = any(any(g in ty for g in GATED_PARAM_TYPES) for ty in it["inputs"][1:])
        ref = SETTER_REQ.get((mod, name))
        if junos:
            chk.instance("C09/R4", "junos::%s::Builder::%s takes no capability-gated parameter type" % (mod, name), fn,
                         loc_of(it.get("sp")), holds=not gated_param, key="C09/R4 junos::%s::%s gated-param-unaudited" % (mod, name))
            continue
        if ref is None:
            ok = (mod, name) in UNGATED_SETTERS and not gated_param
            if not ok and not gated_param and name not in ("url",):
                chk.instance("C09/R4", "%s::Builder::%s is not in the audited setter table" % (mod, name), fn, loc_of(it.get("sp")),
                             holds=(mod, name) in UNGATED_SETTERS, key="C09/R4 %s::%s unaudited-setter" % (mod, name))
            else:
                chk.instance("C09/R4", "%s::Builder::%s needs no capability gate" % (mod, name), fn, loc_of(it.get("sp")), holds=ok,
                             key="C09/R4 %s::%s gated-param-without-gate" % (mod, name))
            continue
        n_gated += 1
        chk.analysed(fn)
        cases = param_cases(fx, it["inputs"][1]) if len(it["inputs"]) > 1 else [("*", ("sym", "PARAM"))]
        for (label, val) in cases:
            want = ref if isinstance(ref, str) else ref.get(label)
            if want is None:
                chk.instance("C09/R2", "%s::Builder::%s(%s): parameter value has no reference row" % (mod, name, label), fn, loc_of(it.get("sp")), holds=False,
                             key="C09/R2 %s::%s unaudited-variant %s" % (mod, name, label))
                continue
            n_rows += 1
            itp = A.Interp(fx, hook=check_hook(fx), crates=("netconf",), max_paths=3000, no_inline=("Requirements::check",))
            try:
                paths = itp.explore(fn, args=[("sym", "BUILDER"), val])
            except A.Undecided as ex:
                chk.instance("C09/R4", "%s::Builder::%s(%s) could not be explored" % (mod, name, label), fn, None, holds=False,
                             key="C09/R4 %s::Builder::%s undecided" % (mod, name), detail=str(ex)[:200])
                continue
            verdict(chk, fx, mod, name, label, want, fn, it, paths)
    chk.floor("C09/R4 gated setters", n_gated, 18)
    chk.floor("C09/R2 requirement rows (setter x parameter value)", n_rows, 30)


def verdict(chk, fx, mod, name, label, want, fn, it, paths):
    oks = [p for p in paths if A.is_res(p.ret) and p.ret[2] == "Ok"]
    errs = [p for p in paths if A.is_res(p.ret) and p.ret[2] == "Err"]
    # an iteration of a loop that merely goes round is not an exit of the function
    other = [p for p in paths if p not in oks and p not in errs and p.end != "iter-end"]
    who = "%s::Builder::%s(%s)" % (mod, name, label)
    base_key = "%s::Builder::%s" % (mod, name)
    if other:
        chk.instance("C09/R4", "%s returns a Result on every path" % who, fn, loc_of(it.get("sp")), holds=False, key="C09/R4 %s unrecognised form %s" % (base_key, label),
                     detail="; ".join("%s %s" % (p.end, A.vstr(p.ret)[:60] if p.ret else None) for p in other[:3]))
        return
    if want == "REJECT":
        chk.instance("C09/R4", "%s is rejected outright (Err on every path)" % who, fn, loc_of(it.get("sp")), holds=bool(errs) and not oks,
                     key="C09/R4 delete_config::target running-not-rejected")
        return
    if want == "URL":
        # Ok only if the URL's scheme equals a scheme of an advertised :url capability of the SERVER
        good = bool(oks) and bool(errs)
        for p in oks:
            eqs = [k for k, v in p.assume.items() if v is True and "scheme_str" in k and ("PartialEq::eq" in k or k.startswith("eq:"))]
            good = good and any("server_capabilities" in k and ("Url" in k) for k in eqs) and not any("client_capabilities" in k for k in eqs)
        chk.instance("C09/R3", "%s: Ok only if the URL's scheme equals a scheme of a :url capability the server advertised" % who, fn, loc_of(it.get("sp")),
                     holds=good, key="C09/R4 %s store-not-gated-by Url::try_new" % base_key)
        return
    # every capability check on an Ok path is the reference one, against the server's set, and came out true
    good, why = bool(oks), None
    for p in oks:
        cs = checks_on(p)
        mine = [c for c in cs if c[0] == want]
        foreign = [c for c in cs if c[0] != want and c[0] != NONE]
        if want != NONE and not mine:
            good, why = False, "Ok is reached without checking %s (checks on the path: %s)" % (want, [c[0] for c in cs] or "none")
        if foreign:
            good, why = False, "Ok additionally depends on %s, which RFC 6241 does not require here" % sorted({c[0] for c in foreign})
        for c in mine:
            if c[2] is not True:
                good, why = False, "Ok is reached although the check of %s did not succeed" % want
            if "server_capabilities" not in c[1] or "client_capabilities" in c[1]:
                good, why = False, "the check is made against %s, not the server's capability set" % c[1][:60]
    chk.instance("C09/R2", "%s requires %s (RFC 6241 reference) — and nothing else" % (who, want), fn, loc_of(it.get("sp")), holds=good,
                 key="C09/R2 %s %s" % (base_key, label), detail=why)
    if want != NONE:
        # the failed check really fails the setter
        refused = [p for p in paths if any(c[0] == want and c[2] is False for c in checks_on(p))]
        chk.instance("C09/R3", "%s: when the server does not advertise %s the setter returns Err (nothing is stored in a usable builder)" % (who, want), fn,
                     loc_of(it.get("sp")), holds=bool(refused) and all(p in errs for p in refused), key="C09/R4 %s store-not-gated-by %s" % (base_key, want))


# ---------------------------------------------------------------------------------------------
def r5_who(chk, fx):
    ops = {}
    for it in op_impls(fx):
        if it.get("self_adt"):
            ops[it["self_adt"]] = it
    n = 0
    for name, b in fx.mir.items():
        if b.crate != "netconf":
            continue
        for bi, bl in enumerate(b.blocks):
            if bl.get("cleanup"):
                continue
            for s in bl["stmts"]:
                if s["k"] != "assign" or s["rv"]["k"] != "agg":
                    continue
                adt = s["rv"].get("adt")
                if adt in ops:
                    n += 1
                    ok = ("operation::Builder<" in name and name.endswith("::finish")) or "as std::default::Default>::default" in name \
                        or "as std::clone::Clone>::clone" in name
                    chk.instance("C09/R5", "%s constructed only by its Builder::finish / Default" % T.short(adt, 1), name,
                                 loc_of(s.get("sp")), holds=ok, key="C09/R5 %s built-in %s" % (T.short(adt, 1), T.strip_generics(name)))
                elif adt == OPMOD + "::Url":
                    n += 1
                    ok = name.startswith(OPMOD + "::Url::try_new") or "as std::clone::Clone>::clone" in name
                    chk.instance("C09/R5", "Url constructed only in Url::try_new", name, loc_of(s.get("sp")), holds=ok,
                                 key="C09/R5 Url built-in %s" % T.strip_generics(name))
    chk.floor("C09/R5 operation/Url construction sites", n, 19)
    # Operation::new: the builder runs only under the operation-level check of the operation's own REQUIRED_CAPABILITIES
    on = OP_TRAIT + "::new"
    t = fx.thir_body(on)
    paths = A.Interp(fx, hook=check_hook(fx), crates=("netconf",), no_inline=("Requirements::check",)).explore(on)
    good, why = bool(paths), None
    seen_true = seen_false = False
    for p in paths:
        cs = checks_on(p)
        built = [e for e in p.trace if e[0] in ("call", "enter") and (e[1].endswith("Builder::build") or e[1].endswith("Builder::new") or e[1] == "<indirect>")]
        if len(cs) != 1 or "REQUIRED_CAPABILITIES" not in cs[0][0] or "server_capabilities" not in cs[0][1]:
            good, why = False, "checks on a path: %s" % cs
            continue
        if cs[0][2] is True:
            seen_true = True
            if not built:
                good, why = False, "check passed but the builder is not run"
        else:
            seen_false = True
            if built or not (A.is_res(p.ret) and p.ret[2] == "Err" and "UnsupportedOperation" in A.vstr(p.ret)):
                good, why = False, "check failed but %s" % ("the builder is run" if built else "the result is %s" % A.vstr(p.ret)[:80])
    chk.instance("C09/R5", "Operation::new: the builder closure runs iff Self::REQUIRED_CAPABILITIES.check(server capabilities) is true; otherwise "
                 "Err(UnsupportedOperation)", on, loc_of(t.get("sp")), holds=good and seen_true and seen_false, key="C09/R5 Operation::new form", detail=why)
    chk.instance("C09/R5", "Operation::new checks Self::REQUIRED_CAPABILITIES", on, loc_of(t.get("sp")), holds=good, key="C09/R5 Operation::new checked-const")
    # no impl overrides Operation::new
    for it in op_impls(fx):
        over = [a for a in it["assoc"] if a.endswith("::new")]
        chk.instance("C09/R5", "impl Operation for %s does not override new()" % T.short(it["self"], 1), it["qdef"], loc_of(it.get("sp")),
                     holds=not over, key="C09/R5 Operation::new overridden-by %s" % T.strip_generics(it["self"]))


def r6_rpc(chk, fx):
    """Session::rpc by path exploration: the request is put on the wire only when O::new(&self.context, build_fn) returned Ok(operation), and what is
    sent is built from that very operation; when validation fails nothing is sent and the error is returned."""
    un = "netconf::session::Session::<T>::rpc::{closure#0}::{closure#0}"
    if un not in fx.thir:
        raise F.AnchorLost("Session::rpc user coroutine")
    chk.analysed(un)

    def hook(fn, args, node, interp):
        s2 = T.short(fn, 2)
        if s2 == "Operation::new":
            interp.trace.append(("call", fn, tuple(args), node.get("sp")))
            return ("sym", "VALIDATED")
        if s2 == "Mutex::lock":
            return ("sym", "GUARD")
        if s2 == "ClientMsg::send":
            interp.trace.append(("call", fn, tuple(args), node.get("sp")))
            return ("term", "async-ready", (("sym", "SENT"),))
        return None
    it = A.Interp(fx, hook=hook, crates=("netconf",), max_paths=3000, no_inline=("Session::<T>::recv", "ClientMsg::send", "Operation::new"))
    it.model_iterators = False
    paths = it.explore(un)
    news = [p for p in paths if p.calls("Operation::new")]
    if not news:
        raise F.AnchorLost("Session::rpc: O::new call")
    bad_new = [p for p in paths if p.assume.get("variant:«VALIDATED»") == "Err" or "Ok" in p.assume.get("notvariant:«VALIDATED»", ())]
    good_new = [p for p in paths if p.assume.get("variant:«VALIDATED»") == "Ok"]
    sent_without = [p for p in paths if p.calls("ClientMsg::send") and p not in good_new]
    ok = bool(bad_new) and bool(good_new) and not sent_without and all(A.is_res(p.ret) and p.ret[2] == "Err" and not p.calls("ClientMsg::send") for p in bad_new)
    chk.instance("C09/R6", "Session::rpc sends only through the success edge of O::new(&self.context, build_fn)", un, None, holds=ok,
                 key="C09/R6 Session::rpc send-not-okdom-by-O::new")
    ctx_ok = all(A.vstr(c[2][0]).endswith(".context") and "self" in A.vstr(c[2][0]) for p in news for c in p.calls("Operation::new"))
    chk.instance("C09/R6", "the context given to O::new is the session's own", un, None, holds=ctx_ok, key="C09/R6 Session::rpc context-origin")
    op = ("payload", ("sym", "VALIDATED"), "Ok", "0")
    sends = [c for p in good_new for c in p.calls("ClientMsg::send")]
    ok = bool(sends) and all(A.mentions(c[2][0], lambda x: x == op) for c in sends)
    chk.instance("C09/R6", "the request put on the wire is the one O::new validated", un, None, holds=ok, key="C09/R6 Session::rpc sent-request-origin")


# ---------------------------------------------------------------------------------------------
def r7_uris(chk, fx):
    t = fx.thir_body("<netconf::capabilities::Capability as std::str::FromStr>::from_str")
    chk.analysed(t["def"])
    ms = T.find(T.user_body(t), "Match")
    if not ms:
        raise F.AnchorLost("Capability::from_str: no match")
    m = ms[0]
    scr = T.expr_str(m["scrut"]).replace(" ", "")
    chk.instance("C09/R7", "from_str matches on (scheme, authority, path, query, fragment)", t["def"], loc_of(m.get("sp")),
                 holds=all(x in scr for x in ("scheme_str", "authority_str", "path_str", "query_str", "fragment")) and
                 scr.index("scheme_str") < scr.index("authority_str") < scr.index("path_str") < scr.index("query_str") < scr.index("fragment("),
                 key="C09/R7 from_str scrutinee")
    got = {}
    n = 0
    for a in m["arms"]:
        p = a["pat"]
        if p.get("k") != "Leaf":
            continue
        subs = [s["pat"] for s in p["sub"]]
        if len(subs) != 5:
            continue
        scheme = T.const_pat_value(subs[0])
        auth = None
        if subs[1].get("k") == "Variant" and subs[1]["variant"] == "Some":
            auth = T.const_pat_value(subs[1]["sub"][0]["pat"])
        path = T.const_pat_value(subs[2])
        query = T.pat_str(subs[3])
        frag = T.pat_str(subs[4])
        res = T.peel(a["body"])
        var = None
        for x in T.find(a["body"], "Adt"):
            if x["adt"].endswith("capabilities::Capability"):
                var = x["variant"]
                if var == "Base":
                    var = "Base(%s)" % T.expr_str(x["fields"][0]["expr"])
        got[(scheme, auth, path)] = (var, query, frag)
    for key, want in sorted(URI_REF.items(), key=lambda kv: str(kv)):
        n += 1
        g = got.get(key)
        q_ok = g is not None and (g[1] == "Option::None" if want != "Url" else g[1].startswith("Option::Some(")) and g[2] == "Option::None"
        chk.instance("C09/R7", "%s:%s%s => %s" % (key[0], ("//" + key[1]) if key[1] else "", key[2], g[0] if g else None), t["def"], None,
                     holds=g is not None and g[0] == want and q_ok, key="C09/R7 from_str %s" % key[2])
    for key in got:
        if key not in URI_REF:
            chk.instance("C09/R7", "from_str arm %s has no reference row" % (key,), t["def"], None, holds=False,
                         key="C09/R7 from_str unaudited %s" % (key[2],))
    chk.floor("C09/R7 URI rows", n, 13)
    # inverse table
    t2 = fx.thir_body("netconf::capabilities::Capability::uri")
    ms = T.find(T.user_body(t2), "Match")
    inv = {}
    if ms:
        for a in ms[0]["arms"]:
            for v in pat_variants(a["pat"]):
                lits = [x["v"] for x in T.walk(a["body"]) if x.get("k") == "Lit" and x.get("lk") in ("str", "bytes")]
                inv[v] = lits
    tb = fx.thir_body("netconf::capabilities::Base::uri")
    base = {}
    for a in T.find(T.user_body(tb), "Match")[0]["arms"]:
        for v in pat_variants(a["pat"]):
            base["Base(Base::%s)" % v] = [x["v"] for x in T.walk(a["body"]) if x.get("k") == "Lit" and x.get("lk") == "str"]
    for key, var in sorted(URI_REF.items(), key=lambda kv: str(kv)):
        uri = "%s:%s%s" % (key[0], ("//" + key[1]) if key[1] else "", key[2])
        lits = base.get(var) if var.startswith("Base(") else inv.get(var)
        if var == "Url":
            ok = bool(lits) and any((uri + "?scheme=") in l for l in lits)
        else:
            ok = lits == [uri]
        chk.instance("C09/R7", "uri(%s) = %s (inverse of from_str)" % (var, lits), t2["def"], None, holds=ok,
                     key="C09/R7 uri %s" % var)


# ---------------------------------------------------------------------------------------------
def r7_url_query_arguments(chk, fx):
    """The :url capability URI carries its schemes in the `scheme=` argument of a query that may hold further arguments
    (`?scheme=ftp,file&max-size=65536`).  Necessary for reading them off: the query is separated at '&' before `scheme=` is looked for —
    a parser that strips a `scheme=` prefix from the whole query glues the rest onto the last scheme (which then matches no URL: requests
    the server permits are refused)."""
    fs = "<netconf::capabilities::Capability as std::str::FromStr>::from_str"
    bodies = [b for n, b in sorted(fx.mir.items()) if n == fs or n.startswith(fs + "::{closure")]
    if not bodies:
        raise F.AnchorLost("Capability::from_str not found")
    seps = []
    for b in bodies:
        for c in b.calls():
            if c.macro or not c.is_fn("str::<impl str>::split", "str::<impl str>::split_terminator", "str::<impl str>::rsplit", "str::<impl str>::split_once",
                                      "str::<impl str>::splitn", "str::<impl str>::split_inclusive"):
                continue
            for a in c.args[1:]:
                if a.get("c") == "const" and "&" in str(a.get("v", "")) and (a.get("ty") in ("char", "&str") or "str" in str(a.get("ty"))):
                    seps.append(c)
    chk.instance("C09/R7", "the arguments of the :url capability's query are separated at '&' (%d split site(s))" % len(seps), fs, seps[0].loc() if seps else None,
                 holds=bool(seps), key="C09/R7 url-capability query-not-separated")


def run_thorough(ctx):
    """Compile-fail witnesses (type-level remainder of C09/R5): rustdoc compile_fail tests with error codes, plus compiling twins."""
    import os
    import re
    import shutil
    import subprocess
    from vlib import gen
    chk = ctx.chk
    wdir = os.path.join(gen.VERIF, "witness")
    shutil.copy(os.path.join(gen.REPO, "Cargo.lock"), os.path.join(wdir, "Cargo.lock"))
    env = dict(os.environ, CARGO_NET_OFFLINE="true", CARGO_TARGET_DIR=os.path.join(gen.WORK, "target", "witness"))
    env.pop("RUSTC_WORKSPACE_WRAPPER", None)
    r = subprocess.run(["cargo", "+nightly", "test", "--doc", "--offline"], cwd=wdir, env=env, capture_output=True, text=True)
    out = r.stdout + r.stderr
    tests = re.findall(r"^test (src/lib\.rs - .*?) \.\.\. (\w+)", out, flags=re.M)
    if not tests:
        raise F.AnchorLost("compile-fail witnesses did not run: %s" % out[-400:])
    for name, res in tests:
        kind = "compile_fail witness" if "compile fail" in name else "compiling twin"
        chk.instance("C09/R5", "%s: %s" % (kind, name.replace("src/lib.rs - ", "")), "verif-witness", None, holds=res == "ok",
                     key="C09/R5 witness %s" % re.sub(r" \(line \d+\)", "", name.replace("src/lib.rs - ", "")))
    chk.floor("C09/R5 witnesses", len(tests), 9)
    chk.extra["witness_cmd"] = "cargo +nightly test --doc --offline (in /verif/witness, path-depends on /repo/netconf)"


# ---------------------------------------------------------------------------------------------
def r8_builders_start_unset(chk, fx):
    """Every capability-gated parameter reaches the operation only through its setter (R3/R4).  That is only worth something if the
    builder does not start out with a value: a parameter pre-set in Builder::new (a 'sensible default' target, say) is sent without
    ever having met the check.  Decided on the value Builder::new returns: each gated field is unset (None / Required{None} / false /
    the type's Default, which the writers leave implicit)."""
    n = 0
    for name in sorted(fx.thir):
        if not (name.startswith("<" + OPMOD + "::") and "as " + OPMOD + "::Builder<" in name and name.endswith("::new")):
            continue
        mod = name[len("<" + OPMOD + "::"):].split("::")[0]
        gated = {f for (m, f) in SETTER_REQ if m == mod}
        if not gated:
            continue
        paths = [p for p in A.Interp(fx, crates=("netconf",)).explore(name) if p.end != "abort" and p.ret is not None]
        chk.analysed(name)
        for p in paths:
            fs = A.fields_of(p.ret) if p.ret[0] == "adt" else {}
            for f in sorted(gated):
                if f not in fs:
                    continue
                n += 1
                v = fs[f]
                txt = A.vstr(v)
                unset = txt in ("None", "false", "Default::default()", "Required{value: None}") or (A.is_opt(v) and v[2] == "None")
                table = SETTER_REQ.get((mod, f))
                if not unset and isinstance(table, dict):
                    # a pre-set value that needs no capability (reference table) is harmless
                    variants = [x[2] for x in A.walk_value(v) if x[0] == "adt" and x[2] in table]
                    if "Default::default()" in txt and not variants:
                        variants = []
                    unset = bool(variants) and all(table[x] == NONE for x in variants)
                chk.instance("C09/R8", "%s::Builder::new leaves the gated parameter `%s` unset (%s)" % (mod, f, txt[:40]), name, loc_of(fx.thir[name].get("sp")),
                             holds=unset, key="C09/R8 %s::Builder::new presets %s" % (mod, f),
                             detail=None if unset else "the pre-set value never passes the capability check its setter applies")
    chk.floor("C09/R8 gated builder fields", n, 12)
