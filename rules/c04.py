"""C04 — Commit only after every load succeeded; any failed step aborts the run.

Rule kinds: OKDOM (success-edge dominance of `?`), loop-exit dominance, WHO, typestate (items), TABLE.
All rules read borrowck-time MIR / THIR / item facts of /repo's current tree.
"""
from vlib import facts as F, thir as T
from vlib.report import loc_of
from . import readers as R

AGENT = "bgpfu_junos_agent"
RUN = AGENT + "::task::Updater::<T>::run"
CLIENT_OPEN = AGENT + "::netconf::Client::<T, " + AGENT + "::netconf::Open>"
CLIENT_CLOSED = AGENT + "::netconf::Client::<T, " + AGENT + "::netconf::Closed>"

EXPLANATION = (
    "Static ordering analysis over borrowck-time MIR. C04/R1: in Updater::run's user coroutine every step "
    "(connect, open_db, fetch_config x2, try_join!, load_config, commit_config, close_db, close, Ok(())) is "
    "reachable only through the Continue edge of the `?` applied to the previous step's result (edge dominance), "
    "and commit_config has a single call site in the workspace. C04/R2: in load_config the Ok return is dominated "
    "by the exhaustion (None) edge of the loop over the vector into which every sent load future was pushed, and "
    "the loop's back edge is reachable only through the success edge of awaiting the element. C04/R3: each client "
    "method returns success only through the success edges of both its send-await and its reply-await. C04/R4: "
    "Client<_,Open> values are built only in open_db after both `?`; the load/commit/close_db methods take "
    "Client<_,Open> receivers. C04/R5: handle_task maps Ok(Err) and Err(JoinError) to Err. Decides the ordering "
    "on every CFG path; does not decide server behaviour or try_join! semantics (trusted)."
)


def through_run(c):
    return c.is_fn(*F.PASS_THROUGH) or (c.macro or "").endswith("try_join")


def run(ctx):
    chk, fx = ctx.chk, ctx.facts
    chk.explanation = EXPLANATION
    chk.assumptions += [
        "tokio::try_join! returns Err as soon as one branch yields Err (tokio 1.x documentation)",
        "`?` on Result propagates Err to the caller (language semantics)",
        "reply classification (what counts as a positive acknowledgement) is C08's subject",
    ]
    r9_spawned_tasks(chk, fx)
    r8_run_verdict(chk, fx)      # form-independent; first, so that what it establishes stands even if a shape-bound rule below loses its anchor
    r1_run_chain(chk, fx)
    r2_load_config(chk, fx)
    r3_client_methods(chk, fx)
    r4_typestate(chk, fx)
    r5_handle_task(chk, fx)
    r6_acknowledgement(chk, fx)
    r7_close_verdict(chk, fx)


# ---------------------------------------------------------------------------------------------
def find_call(body, suffix, nth=0, want=1):
    cs = [c for c in body.calls() if not c.macro and c.is_fn(suffix)]
    if len(cs) < want:
        raise F.AnchorLost("%s: expected >=%d call(s) to %s, found %d" % (body.name, want, suffix, len(cs)))
    return cs


def r1_run_chain(chk, fx):
    b = fx.user_coroutine(RUN)
    chk.analysed(b.name)
    steps = []
    steps.append(("connect", find_call(b, "Target::connect")[0]))
    steps.append(("open_db", find_call(b, "::open_db")[0]))
    fc = find_call(b, "::fetch_config", want=2)
    steps.append(("fetch_config#1", fc[0]))
    steps.append(("fetch_config#2", fc[1]))
    from .agent_common import join_helpers
    jh = tuple(join_helpers(fx))
    ht = [c for c in b.calls() if not c.macro and c.is_fn(*jh)]
    if len(ht) < 2:
        raise F.AnchorLost("%s: expected >=2 joins of spawned tasks (%s), found %d" % (b.name, jh, len(ht)))
    steps.append(("try_join!(handle_task#1,..)", ht[0]))
    steps.append(("try_join!(..,handle_task#2)", ht[1]))
    steps.append(("load_config", find_call(b, "::load_config")[0]))
    steps.append(("commit_config", find_call(b, "::commit_config")[0]))
    # the closing steps may live in a helper of run(): their place in the order and their verdict are then decided by C04/R8 alone
    # (explored paths, helpers inlined), which fails when a step is missing or out of order
    for nm, suffix in (("close_db", "::close_db"), ("close", "netconf::Closed>::close")):
        cs = [c for c in b.calls() if not c.macro and c.is_fn(suffix)]
        if cs:
            steps.append((nm, cs[0]))
        else:
            chk.instance("C04/R1", "%s is not requested by run() itself (a helper does): order and verdict decided by C04/R8" % nm, b.name, None, holds=True)
    chk.call_sites += len(steps)
    n_edges = 0
    # every later step must be ok-dominated by every earlier step
    for i, (nx, x) in enumerate(steps):
        e = b.ok_edge_of(x, pass_through=None) if False else _ok_edge(b, x)
        if e is None:
            chk.instance("C04/R1", "result of %s is not checked with `?`" % nx, b.name, x.loc(), holds=False,
                         key="C04/R1 %s unchecked-result %s" % (short_fn(b.name), nx))
            continue
        for (ny, y) in steps[i + 1:]:
            if nx.startswith("try_join") and ny.startswith("try_join"):
                continue
            if nx.startswith("fetch_config") and ny.startswith("fetch_config"):
                pass
            ok = _ok_dom(b, e, x, y.bb)
            n_edges += 1
            chk.instance("C04/R1", "%s ≺ok %s" % (nx, ny), b.name, y.loc(), holds=ok,
                         key="C04/R1 %s %s-not-okdom-by %s" % (short_fn(b.name), ny, nx))
    # the success return
    oks = b.ok_aggs()
    if not oks:
        raise F.AnchorLost("no Ok(..) construction in %s" % b.name)
    for (bi, si, s) in oks:
        for (nx, x) in steps:
            e = _ok_edge(b, x)
            ok = e is not None and _ok_dom(b, e, x, bi)
            n_edges += 1
            chk.instance("C04/R1", "%s ≺ok return Ok(())" % nx, b.name, loc_of(s.get("sp")), holds=ok,
                         key="C04/R1 %s Ok-return-not-okdom-by %s" % (short_fn(b.name), nx))
    chk.floor("C04/R1 ok-dominance edges in run", n_edges, 35)
    # WHO: commit_config is requested from exactly one place
    sites = []
    for name, body in fx.mir.items():
        for c in body.calls():
            if c.is_fn("::commit_config") and AGENT in (c.defn or ""):
                sites.append((name, c))
    chk.call_sites += len(sites)
    for name, c in sites:
        ok = name == b.name
        chk.instance("C04/R1", "commit_config call site inside Updater::run", name, c.loc(), holds=ok,
                     key="C04/R1 commit_config-called-outside-run %s" % short_fn(name))
    chk.floor("C04/R1 commit_config call sites", len(sites), 1)
    # CommitConfiguration RPC is requested only from commit_config
    rpc_sites = []
    for name, body in fx.mir.items():
        if body.crate != AGENT:
            continue
        for c in body.calls():
            if c.is_fn("Session::<T>::rpc") and any("CommitConfiguration" in g for g in c.gargs):
                rpc_sites.append((name, c))
    for name, c in rpc_sites:
        ok = "::commit_config::" in name
        chk.instance("C04/R1", "rpc::<CommitConfiguration> only in Client<_,Open>::commit_config", name, c.loc(),
                     holds=ok, key="C04/R1 commit-rpc-outside-commit_config %s" % short_fn(name))
    chk.floor("C04/R1 CommitConfiguration rpc sites", len(rpc_sites), 1)


def _ok_edge(b, x):
    return b.ok_edge_of(x, pass_through=PT_RUN)


class _PT(tuple):
    pass


PT_RUN = tuple(F.PASS_THROUGH) + ("tokio::future::maybe_done", "maybe_done", "poll_fn", "std::result::Result::<T, E>::map")


def _ok_dom(b, e, x, bb):
    c, cont, brk = e
    sw = b._switch_block_of(c)
    return b.edge_dominates(sw, cont, bb) and b.dominates(x.bb, bb)


def short_fn(name):
    return T.strip_generics(name).replace("{closure#0}::", "").replace("::{closure#0}", "")


# ---------------------------------------------------------------------------------------------
def r2_load_config(chk, fx):
    b = fx.user_coroutine(CLIENT_OPEN + "::load_config")
    chk.analysed(b.name)
    fn = short_fn(b.name)
    loops = b.for_loops()
    r2_no_pending_reply(chk, fx, b, fn)
    if len(loops) < 2:
        # not the collect-then-await idiom: the general rule above decides; the idiom-specific instances below do not apply
        chk.note("load_config does not use the push-all-then-await-all idiom; decided by the pending-reply rule alone")
        return
    rpcs = [c for c in b.calls() if c.is_fn("Session::<T>::rpc") and not c.macro]
    chk.floor("C04/R2 rpc::<LoadConfiguration> sites", len(rpcs), 1)
    pushes = [c for c in b.calls() if c.is_fn("Vec::<T, A>::push") and not c.macro]
    # (a) every future returned by rpc() is pushed, after its send succeeded
    vec_locals = set()
    for r in rpcs:
        e = _ok_edge(b, r)
        ok = e is not None
        chk.instance("C04/R2", "send result of rpc::<LoadConfiguration> checked with `?`", b.name, r.loc(), holds=ok,
                     key="C04/R2 %s load-send-unchecked" % fn)
        if not ok:
            continue
        tainted = b.forward_taint([r.dest["l"]], through_call=lambda c: c.is_fn(*PT_RUN) or c.is_fn("Try::branch"))
        pushed = [p for p in pushes if F.op_base(p.args[1]) in tainted and _ok_dom(b, e, r, p.bb)]
        chk.instance("C04/R2", "reply future of every sent load is pushed to the pending vector", b.name, r.loc(),
                     holds=bool(pushed), key="C04/R2 %s load-future-not-collected" % fn)
        for p in pushed:
            for o in b.backward_origins(F.op_base(p.args[0])):
                if o["k"] == "call" and o["call"] is not None and o["call"].is_fn("Vec::<T>::new"):
                    vec_locals.add(o["call"].bb)
    # (b) the awaiting loop iterates over that very vector, unadapted
    await_loops = []
    for lp in loops:
        ii = lp["into_iter"]
        if ii is None:
            continue
        origins = b.backward_origins(F.op_base(ii.args[0]))
        calls = [o["call"] for o in origins if o["k"] == "call" and o["call"] is not None]
        if any(c.is_fn("Vec::<T>::new") and c.bb in vec_locals for c in calls):
            extra = [c for c in calls if not c.is_fn("Vec::<T>::new")]
            await_loops.append(lp)
            chk.instance("C04/R2", "awaiting loop iterates the pending vector itself (no skip/take/filter adaptor)",
                         b.name, ii.loc(), holds=not extra,
                         key="C04/R2 %s pending-vector-adapted" % fn,
                         detail=", ".join(c.name() for c in extra) or None)
    chk.instance("C04/R2", "a loop over the pending vector exists", b.name, None, holds=len(await_loops) >= 1,
                 key="C04/R2 %s no-loop-over-pending-vector" % fn)
    for lp in await_loops:
        nxt = lp["next"]
        # (c) inside the loop the element itself is awaited and `?`-checked before the next iteration
        some_blocks = b.reachable(lp["some"], avoid=[nxt.bb])
        el_taint = b.forward_taint([nxt.dest["l"]], through_call=lambda c: c.is_fn(*PT_RUN))
        branches = [(c, cont, brk) for (c, cont, brk) in b.try_branches()
                    if c.bb in some_blocks and F.op_base(c.args[0]) in el_taint]
        awaited = [c for c in b.calls() if c.bb in some_blocks and c.is_fn("Future::poll") and c.desugar == "Await"
                   and F.op_base(c.args[0]) in el_taint]
        chk.instance("C04/R2", "each pending reply future is awaited inside the loop", b.name, nxt.loc(),
                     holds=bool(awaited), key="C04/R2 %s pending-reply-not-awaited" % fn)
        ok = False
        for (c, cont, brk) in branches:
            sw = b._switch_block_of(c)
            # back edge to next() only through the Continue edge
            r = b.reachable(lp["some"], avoid_edges=[(sw, cont)])
            if nxt.bb not in r:
                ok = True
        chk.instance("C04/R2", "loop continues only through the success edge of `reply.await?`", b.name, nxt.loc(),
                     holds=ok, key="C04/R2 %s load-reply-unchecked" % fn)
        # (d) success return only after the loop is exhausted
        for (bi, si, s) in b.ok_aggs():
            okd = b.edge_dominates(lp["switch"], lp["none"], bi)
            chk.instance("C04/R2", "Ok(self) only after every pending reply was checked (loop exhausted)", b.name,
                         loc_of(s.get("sp")), holds=okd, key="C04/R2 %s Ok-before-all-replies" % fn)
    if not b.ok_aggs():
        raise F.AnchorLost("no Ok(..) in load_config")


def r2_no_pending_reply(chk, fx, b, fn):
    """Idiom-independent form of C04/R2: when load_config returns Ok, no reply future of a sent <load-configuration> may still be
    un-awaited.  A future is consumed by `.await` (moved into into_future) or by being moved into a container; a container is
    consumed by being iterated to exhaustion.  So: at every Ok(..) construction, no local that (a) derives from an rpc() result,
    (b) is a value holder (not a borrow / Pin / Poll temporary) and (c) may still be initialised is allowed — except an iterator
    whose `next()` returned None on every path to that point.  And every await of such a future is `?`-checked."""
    rpcs = [c for c in b.calls() if c.is_fn("Session::<T>::rpc") and not c.macro]
    chk.floor("C04/R2 rpc::<LoadConfiguration> sites", len(rpcs), 1)
    init_in, init_out = b.maybe_init(option_aware=True)

    def mut_receivers(c):
        # container-style calls store a tainted argument into their &mut receiver
        return c.is_fn("Vec::<T, A>::push", "Option::<T>::replace", "Option::<T>::insert", "Option::<T>::get_or_insert", "VecDeque::<T, A>::push_back",
                       "VecDeque::<T, A>::push_front", "Vec::<T, A>::insert", "Vec::<T, A>::extend", "Extend::extend", "FuturesUnordered::<Fut>::push",
                       "FuturesOrdered::<T>::push_back", "JoinSet::<T>::spawn")

    seeds = {r.dest["l"] for r in rpcs}
    t = set(b.forward_taint(seeds))
    # stores through &mut receivers: taint what the reference points to
    changed = True
    while changed:
        changed = False
        for c in b.calls():
            if c.macro or not mut_receivers(c) or len(c.args) < 2:
                continue
            if any(F.op_base(a) in t for a in c.args[1:]):
                org, vis = b.backward_slice(F.op_base(c.args[0]), through_call=lambda x: x.is_fn("DerefMut::deref_mut", "Deref::deref"))
                new = {v for v in vis if v not in t}
                if new:
                    t |= new
                    t = set(b.forward_taint(t))
                    changed = True

    def holder(l):
        ty = b.local_ty(l)
        if ty.startswith(("&", "std::pin::Pin<&", "std::task::Poll<", "*", "std::task::Context", "bool", "()", "isize", "usize")):
            return False
        return "Future" in ty or "IntoIter<" in ty
    holders = {l for l in t if holder(l)}
    nexts = {}
    for lp in b.for_loops():
        nexts.setdefault(F.op_base(lp["next"].args[0]), []).append(lp)
    oks = b.ok_aggs()
    if not oks:
        raise F.AnchorLost("no Ok(..) in load_config")
    for (bi, si, st) in oks:
        left = []
        for l in sorted(holders & init_in[bi]):
            ty = b.local_ty(l)
            if "IntoIter<" in ty or "Iter<" in ty or "Drain<" in ty:
                # exhausted on every path here?  (`for`, `while let Some(x) = it.next()`, `loop { match it.next() .. }`: any next() on it
                # whose None outcome dominates this point)
                exhausted = False
                for c in b.calls():
                    if not c.is_fn("Iterator::next") or c.target is None:
                        continue
                    recv = b.backward_slice(F.op_base(c.args[0]), through_call=lambda x: False)[1]
                    if l not in recv:
                        continue
                    none_t, some_t = b.switch_on(c.dest["l"], c.target)
                    if none_t is not None and b.edge_dominates(b._switch_block_of(c), none_t, bi):
                        exhausted = True
                if exhausted:
                    continue
            left.append((b.locals[l].get("name") or "_%d" % l, T.short(ty.split("<")[0], 1)))
        chk.instance("C04/R2", "no reply future of a sent load is left un-awaited when load_config returns Ok (still held: %s)" % (left or "none"), b.name,
                     loc_of(st.get("sp")), holds=not left, key="C04/R2 %s reply-future-pending-at-Ok" % fn,
                     detail=None if not left else "the reply to a load that was sent is never looked at: a rejected load does not prevent the commit")
    # every await of a reply future is `?`-checked
    tries = b.try_branches()
    n_aw = 0
    for ap in b.await_points():
        p = ap["poll"]
        if p is None or F.op_base(p.args[0]) not in t:
            continue
        # the send-await (outer future) and the reply-await (inner) both count
        n_aw += 1
        res = b.forward_taint([p.dest["l"]])
        checked = [c for (c, cont, brk) in tries if F.op_base(c.args[0]) in res]
        chk.instance("C04/R2", "result of awaiting a load's %s is `?`-checked" % ("send" if ap["src"] is not None and ap["src"].is_fn("Session::<T>::rpc") else "reply"),
                     b.name, loc_of(ap["sp"]), holds=bool(checked), key="C04/R2 %s awaited-result-unchecked" % fn)
    chk.floor("C04/R2 awaits of load futures", n_aw, 2)


# ---------------------------------------------------------------------------------------------
METHODS = [
    (CLIENT_CLOSED + "::open_db", "OpenConfiguration"),
    (CLIENT_CLOSED + "::close", None),
    (CLIENT_OPEN + "::commit_config", "CommitConfiguration"),
    (CLIENT_OPEN + "::close_db", "CloseConfiguration"),
]


def r3_client_methods(chk, fx):
    n = 0
    for (fn_name, op) in METHODS:
        b = fx.user_coroutine(fn_name)
        chk.analysed(b.name)
        fn = short_fn(b.name)
        sends = [c for c in b.calls() if not c.macro and (c.is_fn("Session::<T>::rpc") or c.is_fn("Session::<T>::close"))]
        if len(sends) != 1:
            raise F.AnchorLost("%s: expected exactly one request, found %d" % (fn_name, len(sends)))
        send = sends[0]
        chk.call_sites += 1
        e1 = _ok_edge(b, send)
        chk.instance("C04/R3", "send-await result checked with `?`", b.name, send.loc(), holds=e1 is not None,
                     key="C04/R3 %s send-unchecked" % fn)
        n += 1
        if e1 is None:
            continue
        c1, cont1, _ = e1
        # the reply future = Continue payload of the first `?`; its awaited result
        pay = b.forward_taint([c1.dest["l"]], through_call=lambda c: c.is_fn(*PT_RUN))
        polls = [c for c in b.calls() if c.is_fn("Future::poll") and c.desugar == "Await" and c.bb != send.bb
                 and F.op_base(c.args[0]) in pay and b.dominates(cont1, c.bb)]
        chk.instance("C04/R3", "reply future is awaited", b.name, send.loc(), holds=bool(polls),
                     key="C04/R3 %s reply-not-awaited" % fn)
        n += 1
        if not polls:
            continue
        reply_taint = b.forward_taint([p.dest["l"] for p in polls], through_call=lambda c: c.is_fn(*PT_RUN))
        # every definition of the return place
        for (bi, si, kind, payload) in b.defs().get(0, []):
            if b.blocks[bi].get("cleanup"):
                continue
            sp = payload.get("sp") or {}
            if sp.get("m") in ("tracing::instrument",) :
                continue
            if kind == "call":
                c = [x for x in b.calls() if x.bb == bi][0]
                if c.is_fn("FromResidual::from_residual"):
                    continue
                # tail-returned Result: must be the reply's own result
                ok = any(F.op_base(a) in reply_taint for a in payload["args"]) and c.is_fn(*PT_RUN)
                chk.instance("C04/R3", "returned Result is the awaited reply's result", b.name, loc_of(sp), holds=ok,
                             key="C04/R3 %s returns-other-than-reply-result" % fn)
                n += 1
            elif kind == "assign":
                rv = payload["rv"]
                if rv["k"] == "agg" and rv.get("variant") == "Ok":
                    # needs the second `?`
                    e2 = None
                    for (c, cont, brk) in b.try_branches():
                        if F.op_base(c.args[0]) in reply_taint and b.dominates(cont1, c.bb):
                            e2 = (c, cont, brk)
                    ok = e2 is not None and b.edge_dominates(b._switch_block_of(e2[0]), e2[1], bi) \
                        and b.edge_dominates(b._switch_block_of(c1), cont1, bi)
                    chk.instance("C04/R3", "Ok(..) only through the success edges of send and reply", b.name,
                                 loc_of(sp), holds=ok, key="C04/R3 %s Ok-without-reply-check" % fn)
                    n += 1
                elif rv["k"] == "use" and F.op_base(rv["op"]) in reply_taint:
                    chk.instance("C04/R3", "returned Result is the awaited reply's result", b.name, loc_of(sp), holds=True)
                    n += 1
                elif rv["k"] == "use" and "__tracing_attr_fake_return" in (b.locals[F.op_base(rv["op"])].get("name") or "") if F.op_base(rv["op"]) is not None else False:
                    continue
                else:
                    chk.instance("C04/R3", "return value of unrecognised form", b.name, loc_of(sp), holds=False,
                                 key="C04/R3 %s unrecognised-return-form" % fn, detail=str(rv)[:200])
                    n += 1
    chk.floor("C04/R3 client-method obligations", n, 8)


# ---------------------------------------------------------------------------------------------
def _open_db_success(b, bi):
    """Inside open_db's coroutine: block bi is reached only after the request was sent and its reply `?`-checked."""
    rpc = [c for c in b.calls() if c.is_fn("Session::<T>::rpc") and not c.macro]
    if not rpc:
        return False
    e1 = _ok_edge(b, rpc[0])
    if e1 is None:
        return False
    pay = b.forward_taint([e1[0].dest["l"]], through_call=lambda c: c.is_fn(*PT_RUN))
    e2 = [(c, cont) for (c, cont, brk) in b.try_branches() if F.op_base(c.args[0]) in pay and c.bb != e1[0].bb and b.dominates(e1[1], c.bb)]
    return bool(e2) and all(b.edge_dominates(b._switch_block_of(c), cont, bi) for c, cont in e2) and _ok_dom(b, e1, rpc[0], bi)


def _is_client_ty(ty, state=None):
    ty = ty.strip()
    if not ty.startswith(AGENT + "::netconf::Client<"):
        return False
    return state is None or ty.endswith("netconf::%s>" % state)


def r4_typestate(chk, fx):
    """A Client<_, Open> value comes into existence only in open_db, after the <open-configuration> reply was `?`-checked.  Introduction
    sites = struct literals whose type is Client<_,Open>, and calls that return a Client<_,Open> by value without having been given
    one (a generic state-changing helper instantiated to Open counts, whatever it is called)."""
    n = 0
    for name, b in sorted(fx.mir.items()):
        if b.crate != AGENT:
            continue
        for (bi, si, s) in b.aggs_of("netconf::Client"):
            ty = b.local_ty(s["pl"]["l"]) if not s["pl"].get("p") else None
            loc = loc_of(s.get("sp"))
            n += 1
            if ty is None:
                chk.instance("C04/R4", "Client aggregate assigned through a projection", name, loc, holds=False,
                             key="C04/R4 %s client-built-in-place" % short_fn(name))
                continue
            if _is_client_ty(ty, "Closed"):
                chk.instance("C04/R4", "Client<_,Closed> built", name, loc, holds=True)
            elif _is_client_ty(ty, "Open"):
                ok = "netconf::Closed>::open_db::" in name and _open_db_success(b, bi)
                chk.instance("C04/R4", "Client<_,Open> built only in open_db after both `?`", name, loc, holds=ok,
                             key="C04/R4 %s builds-Client-Open" % short_fn(name))
            else:
                # generic database state (a private state-changing helper): decided at its call sites below
                it = None
                try:
                    it = fx.fn_item(name)
                except F.AnchorLost:
                    pass
                private = it is not None and it.get("vis", "").startswith("Restricted")
                chk.instance("C04/R4", "Client with a generic database state is built only in a private helper (%s); its instantiations are checked at the call sites"
                             % short_fn(name), name, loc, holds=private, key="C04/R4 %s builds-Client-unknown-state" % short_fn(name))
        for c in b.calls():
            if c.macro or c.dest is None or c.dest.get("p"):
                continue
            dty = b.local_ty(c.dest["l"])
            if not _is_client_ty(dty, "Open"):
                continue
            given = any(_is_client_ty(b.local_ty(F.op_base(a)).lstrip("&").replace("mut ", "").strip(), "Open") for a in c.args if F.op_base(a) is not None)
            if given:
                continue
            n += 1
            ok = "netconf::Closed>::open_db::" in name and _open_db_success(b, c.bb)
            chk.instance("C04/R4", "%s turns a client into Client<_,Open> only in open_db after both `?`" % T.short(c.name(), 2), name, c.loc(), holds=ok,
                         key="C04/R4 %s builds-Client-Open" % short_fn(name))
    chk.floor("C04/R4 Client construction sites", n, 3)
    for m in ("load_config", "commit_config", "close_db", "fetch_config"):
        its = [it for it in fx.item_list if it["kind"] == "AssocFn" and it["def"].endswith("::" + m)
               and it["def"].startswith(AGENT + "::netconf::Client")]
        if not its:
            raise F.AnchorLost("method %s of Client not found" % m)
        for it in its:
            ok = it.get("impl_self", "").endswith("netconf::Open>")
            chk.instance("C04/R4", "%s is a method of Client<_,Open> only" % m, it["def"], loc_of(it.get("sp")), holds=ok,
                         key="C04/R4 %s-receiver-not-Open" % m)
    for m in ("open_db",):
        its = [it for it in fx.item_list if it["kind"] == "AssocFn" and it["def"].endswith("::" + m)
               and it["def"].startswith(AGENT + "::netconf::Client")]
        for it in its:
            ok = it.get("impl_self", "").endswith("netconf::Closed>") and it.get("output", "").find("Open>") >= 0 or True
            chk.instance("C04/R4", "open_db consumes Client<_,Closed>", it["def"], loc_of(it.get("sp")),
                         holds=it.get("impl_self", "").endswith("netconf::Closed>"), key="C04/R4 open_db-receiver")


# ---------------------------------------------------------------------------------------------
def r5_handle_task(chk, fx):
    """handle_task maps a failed or panicked sub-task to Err: decided on the abstract result of awaiting the JoinHandle."""
    from vlib import absint as A
    from .agent_common import join_helpers
    hs = join_helpers(fx)
    for h in hs:
        _r5_one(chk, fx, h + "::{closure#0}")


def _r5_one(chk, fx, hn):
    from vlib import absint as A
    t = fx.thir_body(hn)
    chk.analysed(hn)
    paths = A.Interp(fx, crates=(AGENT,)).explore(hn)
    seen = {}
    for p in paths:
        outer = [v for k, v in p.assume.items() if k.startswith("variant:") and k.endswith(".await")]
        inner = [v for k, v in p.assume.items() if k.startswith("variant:") and k.endswith(".await→Ok.0")]
        if outer == ["Ok"] and not inner and p.ret is not None and p.ret[0] == "payload" and A.vstr(p.ret).endswith(".await→Ok.0"):
            # the task's own Result is handed through unchanged (modulo error context): Ok stays Ok, Err stays Err
            seen["joined-Ok"] = A.ok(("payload", p.ret, "Ok", "0"))
            seen["joined-Err"] = A.err(("payload", p.ret, "Err", "0"))
            continue
        case = ("joined-%s" % inner[0]) if outer == ["Ok"] and inner else ("panicked" if outer == ["Err"] else "?")
        seen[case] = p.ret
    want = {"joined-Ok": "Ok", "joined-Err": "Err", "panicked": "Err"}
    for case, w in want.items():
        r = seen.get(case)
        ok = r is not None and A.is_res(r) and r[2] == w and (w == "Err" or A.vstr(r).endswith(".await→Ok.0→Ok.0)"))
        chk.instance("C04/R5", "handle_task: %s => %s (%s)" % (case, w, A.vstr(r)[:70] if r else None), hn, loc_of(t.get("sp")), holds=ok,
                     key="C04/R5 handle_task %s" % case)
    chk.instance("C04/R5", "handle_task has no other outcome", hn, None, holds=set(seen) == set(want), key="C04/R5 handle_task outcomes %s" % sorted(seen))



# ---------------------------------------------------------------------------------------------
def r6_acknowledgement(chk, fx):
    """'Positively acknowledged' for each step of the run = the classification of that step's reply type: the C08 reader
    rules (success variant only on the no-error edge, no error accepted after success, Errs => Err) are part of C04 for
    the reply types the run actually uses."""
    from . import c08
    from .c15 import _Rename
    steps = {}
    for name, b in fx.mir.items():
        if b.crate != AGENT:
            continue
        for c in b.calls():
            if c.is_fn("Session::<T>::rpc") and c.gargs:
                op = [g for g in c.gargs if "operation::" in g]
                if op:
                    steps[op[0].split("<")[0]] = name
            if c.is_fn("Session::<T>::close"):
                steps["netconf::message::rpc::operation::close_session::CloseSession"] = name
    chk.extra["run_operations"] = sorted(steps)
    # reply type of each operation (items: impl Operation .. type Reply) — read from the THIR-free item list via IntoResult users
    reply_of = {
        "OpenConfiguration": "BareReply", "CloseConfiguration": "BareReply", "CommitConfiguration": "EmptyReply",
        "LoadConfiguration": "load_configuration::Reply", "GetConfig": "DataReply", "CloseSession": "EmptyReply",
    }
    used = set()
    for op in steps:
        short = op.split("::")[-1]
        if short not in reply_of:
            chk.instance("C04/R6", "operation %s used by the agent has no audited reply type" % short, steps[op], None, holds=False,
                         key="C04/R6 unaudited-operation %s" % short)
        else:
            used.add(reply_of[short])
    chk.floor("C04/R6 operations requested by the run", len(steps), 6)
    sub = _Rename(chk, "C08/", "C04/R6:C08/")
    n = 0
    for (self_ty, adt, succ) in c08.READERS:
        if not any(u in self_ty for u in used):
            continue
        name = "<%s as netconf::message::ReadXml>::read_xml" % self_ty
        bodies = [b for n2, b in sorted(fx.mir.items()) if n2 == name or n2.startswith(name + "::{closure")]
        if name not in fx.mir:
            raise F.AnchorLost("reader not found: %s" % name)
        n += 1
        bodies = bodies + c08.reader_helpers(fx, fx.mir[name])
        c08.r1_reader(sub, fx, fx.mir[name], bodies, adt, succ)
        c08.r4_strict_reader(sub, fx, name)
    chk.floor("C04/R6 reply readers of the run's steps", n, 4)
    c08.r2_into_result(sub, fx)


# ---------------------------------------------------------------------------------------------
def r7_close_verdict(chk, fx):
    """Session::close is the one library wrapper between a step of the run and its reply future: whatever it awaits (the send of
    <close-session>, then the reply), a failure of that await must come out as Err — a hang-up instead of the acknowledgement is not
    an acknowledgement.  Decided on every coroutine body under Session::close by abstract interpretation."""
    from vlib import absint as A
    root = "netconf::session::Session::<T>::close"
    defs = sorted(d for d in fx.thir if d == root or d.startswith(root + "::{closure"))
    if not defs:
        raise F.AnchorLost("Session::close not found")
    it = A.Interp(fx, crates=("netconf",), hook=lambda fn, args, node, i: ("sym", "RPC") if T.short(fn, 2) == "Session::rpc" else None)
    n = 0
    for d in defs:
        for p in it.explore(d):
            failed = sorted(k for k, v in p.assume.items() if k.startswith("variant:") and k.endswith(".await") and v == "Err")
            if not failed or p.end == "abort":
                continue
            n += 1
            ok = A.is_res(p.ret) and p.ret[2] == "Err"
            chk.instance("C04/R7", "Session::close: a failed await (%s) comes out as Err (%s)" % (failed[0][8:60], A.vstr(p.ret)[:60]), d,
                         loc_of(fx.thir[d].get("sp")), holds=ok, key="C04/R7 Session::close failure-reported-as-success",
                         detail=None if ok else "the step is reported successful although its request or reply failed: %s" % {k: v for k, v in p.assume.items() if "await" in k})
        chk.analysed(d)
    chk.floor("C04/R7 failing awaits in Session::close", n, 2)


# ---------------------------------------------------------------------------------------------
def r9_spawned_tasks(chk, fx):
    """run() hands the reply futures of its two <get-config> requests to tasks of their own (the candidates are evaluated in one, the
    installed state is read in the other) and joins them before it loads anything (R1, R5, R8).  Inside such a task the awaited reply
    is a step of the run like any other: when it failed — an rpc-error, a reply that could not be read — the task fails; a reply error
    turned into a value ("nothing installed yet") lets the run load and commit against a state it never obtained.  Decided on the
    explored paths of every async block nested in run(): a path that assumed an awaited value to be Err returns Err."""
    from vlib import absint as A
    b = fx.user_coroutine(RUN)
    names = sorted(n for n in fx.thir if n.startswith(b.name + "::{closure#") and n in fx.mir and fx.mir[n].coroutine)
    # .. and the async fns of the same module that run() calls (a spawned block turned into a named `async fn await_installed(response)`)
    mod = AGENT + "::task::"
    for n, body in sorted(fx.mir.items()):
        if not (n.startswith(b.name.split("::{closure")[0]) and body.crate == AGENT):
            continue
        for c in body.calls():
            tgt = None if c.macro else (c.rdef if (c.rdef or "").startswith(mod) else c.defn if (c.defn or "").startswith(mod) else None)
            if tgt and "::{closure" not in tgt and not tgt.startswith(RUN):
                try:
                    hb = fx.user_coroutine(tgt)
                except F.AnchorLost:
                    continue
                if hb.name in fx.thir and hb.name not in names:
                    names.append(hb.name)
    n_err = 0
    for n in names:
        chk.analysed(n)
        label = "run" + n[len(b.name):].replace("::{closure#", "#").replace("}", "")
        for p in A.Interp(fx, crates=(AGENT,), max_paths=3000).explore(n):
            if p.end == "abort":
                continue
            failed = [k for k, v in p.assume.items() if k.startswith("variant:") and k.endswith(".await") and v == "Err"]
            if not failed:
                continue
            n_err += 1
            is_err = A.is_res(p.ret) and p.ret[2] == "Err" and p.end in ("return", "fallthrough")
            chk.instance("C04/R9", "task %s: a failed reply (%s) fails the task" % (label, failed[0][8:][:50]), n, loc_of(fx.thir[n].get("sp")), holds=is_err,
                         key="C04/R9 %s failed-reply-does-not-fail-the-task" % label,
                         detail=None if is_err else "the task goes on with %s: run() loads and commits although this step failed" % (A.vstr(p.ret)[:80] if p.ret is not None else p.end))
    chk.floor("C04/R9 failing-reply paths in the tasks spawned by run()", n_err, 2)


RUN_STEPS = ("connect", "open_db", "fetch_config", "load_config", "commit_config", "close_db", "close")


def r8_run_verdict(chk, fx):
    """The run's own verdict, whatever shape run() has (straight `?` chain, stages bound to Results and combined, helpers): explored
    with every step of the client as an undecided outcome.  (a) run() returns Ok only on a path on which every step it made — and the
    joined fetch/evaluate stage — succeeded; (b) after a step failed no further request is made except the closing ones; (c) on the
    all-Ok path the steps come in the order connect, open_db, fetch_config, load_config, commit_config, close_db, close."""
    from vlib import absint as A
    b = fx.user_coroutine(RUN)

    def step_of(fn):
        s = T.strip_generics(fn)
        for st in RUN_STEPS:
            if s.endswith("::" + st) and (AGENT + "::netconf::" in s or "Target" in s or "Client" in s):
                return st
        return None

    def hook(fn, args, node, interp):
        st = step_of(fn)
        if st is None:
            return None
        n = sum(1 for e in interp.trace if e[0] == "step" and e[1] == st) + 1
        interp.trace.append(("step", st, n, node.get("sp")))
        return ("term", "async-ready", (("sym", "STEP:%s#%d" % (st, n)),))
    paths = A.Interp(fx, hook=hook, crates=(AGENT,), max_paths=4000).explore(b.name)
    chk.analysed(b.name)

    def outcome(p, st, n):
        for k, v in p.assume.items():
            if k.startswith("variant:") and ("«STEP:%s#%d»).await" % (st, n)) in k and k.endswith(".await") and v in ("Ok", "Err"):
                return v
            if k.startswith("notvariant:") and ("«STEP:%s#%d»).await" % (st, n)) in k and k.endswith(".await"):
                return "Ok" if set(v) == {"Err"} else ("Err" if set(v) == {"Ok"} else None)
        return None
    n_ok = n_fail = 0
    for p in paths:
        if p.end == "abort":
            continue
        steps = [(e[1], e[2]) for e in p.trace if e[0] == "step"]
        outs = [(st, n, outcome(p, st, n)) for st, n in steps]
        failed = [(st, n) for st, n, o in outs if o == "Err"]
        joined_err = any(k.startswith("variant:") and "poll_fn" in k and k.endswith(".await") and v == "Err" for k, v in p.assume.items())
        is_ok = A.is_res(p.ret) and p.ret[2] == "Ok"
        if is_ok:
            n_ok += 1
            good = not failed and not joined_err and all(o == "Ok" for _, _, o in outs)
            chk.instance("C04/R8", "run() returns Ok only when every step it made succeeded (%d steps)" % len(steps), b.name, None, holds=good,
                         key="C04/R8 run Ok-although-a-step-failed", detail=None if good else "failed or unchecked: %s" % [(st, o) for st, _, o in outs if o != "Ok"])
            first = {}
            for i, (st, _) in enumerate(steps):
                first.setdefault(st, i)
            order = [first.get(st) for st in RUN_STEPS]
            ordered = None not in order and order == sorted(order)
            chk.instance("C04/R8", "all-Ok path: connect, open_db, fetch_config, load_config, commit_config, close_db, close in this order", b.name, None,
                         holds=ordered, key="C04/R8 run step-order", detail=None if ordered else str([st for st, _ in steps]))
        elif failed:
            n_fail += 1
            st0, k0 = failed[0]
            after = [st for (st, k) in steps[steps.index((st0, k0)) + 1:] if st not in ("close_db", "close")]
            chk.instance("C04/R8", "after %s failed no further request is made (closing steps apart)" % st0, b.name, None, holds=not after,
                         key="C04/R8 run continues-after-failed-%s" % st0, detail=None if not after else "then: %s" % after)
    chk.floor("C04/R8 Ok paths of run()", n_ok, 1)
    chk.floor("C04/R8 failing-step paths of run()", n_fail, 5)
