"""Short statements of what later rounds added to each check: appended to MANIFEST level texts and to the evidence explanation."""
# what the third round added to each check (appended to level_claimed.text; DESIGN.md §9.2)
THIRD_ROUND = {
    "C01": "Third round: the installed-state reader hands back every statement that carried the default reject, with or without terms (R5, explored post-loop paths); the decision table is read from the closure or the loop-and-push form alike.",
    "C02": "Third round: the installed set the deletions are computed against is complete — the installed reader keeps every route-filter and every statement (C01/R4, R5 recorded as C02/R6).",
    "C03": "Third round: no iterator adaptor over query results discards Err items (R6, by item type); an unreadable policy-statement fails the fetch on every explored path of the three statement-level readers (R7).",
    "C04": "Third round: the reply readers of the run's steps reject elements they do not recognise (C08/R4 recorded as C04/R6); Session::close turns a failed await into Err on every path (R7).",
    "C05": "Third round: request-table integrity — insertion into a vacant slot only, no removal except the owner's after delivery (R7).",
    "C06": "Third round: the delimiter search is a first-occurrence search (reverse searches reported by name).",
    "C07": "Third round: Session::recv retries the read only after errors a closed transport cannot produce (per error variant, explored paths) and waits only for the two locks and the transport (R4).",
    "C08": "Third round: the success guard covers every error list the reader pushes to; guards kept in bool locals count only while fresh (no push between evaluation and use); reply readers (with their private helpers) reject unrecognised elements (R4).",
    "C09": "Third round: requirements are resolved per implementing type (trait default only when the impl states none; plain shared constants followed).",
    "C11": "Third round: delivery to the agent — the evaluator's connection survives a failed resolution and the compare table installs every evaluated policy (C17/R1, C01/R1 recorded as C11/R6).",
    "C12": "Third round: from_xml returns Ok only after the whole message was read and stores the root element once (R6; the double-root defect it found is repaired, 6e9b76f).",
    "C13": "Third round: names compared with literals in nested matches are local names (R1); attribute arms commute (R6).",
    "C14": "Third round: UTF-8 validation decided on explored paths of ServerMsg::recv.",
    "C15": "Third round: no evaluator field other than the connection slot is written during an evaluation (C17/R3 recorded as C15/R3:state).",
    "C16": "Third round: the candidate reader continues only after name / then / reject and does not delegate its scan to another type's reader (R5); loop-carried variables are identified by what they store, duplicates by explored paths.",
    "C18": "Third round: a survivor looks at its own slot under the receive lock it then reads with (C05/R4, R5 recorded as C18/R5).",
    "C19": "Third round: the job runs in a spawned task joined through handle_task (a panicking run is a failed run); the back-off equations are stated on the abstract state of the variable (plain Duration or a small type with methods).",
    "C20": "Third round: PEM taint follows workspace callees and, per variant, the decoder's error (only the Base64Decode diagnostic is audited; the leak this uncovered is repaired, c41a157).",
}
