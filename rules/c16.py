"""C16 — Exactly the active, annotated, default-reject policy statements are managed (structural part)."""
from vlib import facts as F, thir as T, xmlgrammar as X, absint as A
from vlib.report import loc_of
from . import readers as R
from .c03 import READ_CAND, AGENT

EXPLANATION = (
    "[Method] Maybe<Candidate>::read_xml is explored path by path (one iteration of the attribute scan and of each element loop per path); the rules read off what each path assumed (attribute namespace / name / value comparisons, loop-carried flags) and did (returns, assignments, calls). "
    "C16/R1 order independence of the attribute scan in Maybe<Candidate>::read_xml: the jcmd:active=\"false\" arm returns Maybe(None) at "
    "once and never reads the expression seen so far; the jcmd:comment arm only assigns it and never returns; no arm guard reads a "
    "loop-carried local; duplicate attributes are tolerated (with_checks(false)) and attributes are namespace-resolved against the JCMD "
    "constant. C16/R2 (GUARD): Candidate{..} is produced only under: an expression was found (let-else), the body loop ended normally, "
    "reject_policy is true (set only by <then><reject/>), name is present (else MissingElement); any other child takes the catch-all "
    "error arm. C16/R3 (ORIGIN): the expression comes from attr.unescape_value() -> trim_matches(['/','*']) -> trim -> "
    "strip_prefix(\"bgpfu-fltr:\") -> parse::<MpFilterExpr>; the name from read_text passed through unescape. C16/R4 (TABLE): candidates "
    "are fetched from Datastore::Running with the configuration/policy-options/policy-statement subtree filter, installed ones from "
    "Datastore::Candidate unfiltered; duplicate names are an error. Not decided: MpFilterExpr's grammar, Junos' rendering of annotations."
)


def run(ctx):
    chk, fx = ctx.chk, ctx.facts
    chk.explanation = EXPLANATION
    chk.assumptions += ["quick-xml: Attribute::unescape_value resolves entities; read_text does not (raw slice)"]
    selection_rules(chk, fx)


def selection_rules(chk, fx):
    """Which statements of the running configuration are candidates (shared: C01 records the same decision — a statement that is no
    longer marked as managed must drop out of the candidates for compare to delete it)."""
    t = fx.thir_body(READ_CAND)
    chk.analysed(t["def"])
    paths = A.Interp(fx, crates=(AGENT,), max_paths=6000).explore(READ_CAND)
    chk.extra["paths_explored"] = len(paths)
    chk.floor("C16 paths of Maybe<Candidate>::read_xml", len(paths), 20)
    r5_other_content(chk, fx, t, paths)
    if any(p.calls("ReadXml::read_xml", "BorrowedReadXml::borrowed_read_xml") for p in paths):
        # the content scan is another type's reader (reported by R5): the rules that read this function's own scan have nothing to read
        r4(chk, fx)
        return
    r1(chk, fx, t, paths)
    r2(chk, fx, t, paths)
    r3(chk, fx, t, paths)
    r4(chk, fx)


# ---------------------------------------------------------------------------------------------------------------------------------
# helpers over explored paths.  A path is one run through the function with every undecided branch resolved one way; `assume` holds what
# was assumed: keys are canonical texts of the compared values, so "the attribute is jcmd:active" shows as a true comparison mentioning
# 'active' (whether the source compares with ==, matches a byte-string pattern, or does either inside a helper).
# ---------------------------------------------------------------------------------------------------------------------------------
def _forms(needle):
    w = needle.strip("'\"")
    return (needle,) if w == needle else ("'%s'" % w, 'b"%s"' % w, '"%s"' % w)


def holds_true(p, needle):
    return any(any(f in k for f in _forms(needle)) and v is True for k, v in p.assume.items())


def decided(p, needle):
    return any(any(f in k for f in _forms(needle)) and isinstance(v, bool) for k, v in p.assume.items())


def called(p, suffix):
    return bool(p.calls(suffix))


def is_attr_iteration(p):
    return called(p, "resolve_attribute") and not called(p, "read_resolved_event")


def is_event_iteration(p):
    return called(p, "read_resolved_event")


def ret_is_none(p):
    return p.ret is not None and A.vstr(p.ret) == "Ok(Maybe(None))"


def ret_is_err(p):
    return p.ret is not None and A.is_res(p.ret) and p.ret[2] == "Err"


def jcmd(p):
    return holds_true(p, "yang.juniper.net/junos/jcmd") or holds_true(p, "JCMD")


def r1(chk, fx, t, paths):
    fn = "<Maybe<Candidate>>::read_xml"
    att = [p for p in paths if is_attr_iteration(p)]
    chk.floor("C16/R1 attribute-scan paths", len(att), 6)
    inactive = [p for p in att if jcmd(p) and holds_true(p, "'active'") and holds_true(p, "'false'")]
    comment = [p for p in att if jcmd(p) and holds_true(p, "'comment'") and not (holds_true(p, "'active'"))]
    chk.instance("C16/R1", "attribute scan distinguishes jcmd:active=\"false\" (%d paths) and jcmd:comment (%d paths)" % (len(inactive), len(comment)), t["def"],
                 loc_of(t.get("sp")), holds=bool(inactive) and bool(comment), key="C16/R1 %s attribute-arms" % fn)
    # namespace: nothing is decided about the attribute's name on a path where the namespace was not resolved to JCMD
    loose = [p for p in att if (decided(p, "'active'") or decided(p, "'comment'")) and not jcmd(p)]
    for nm in ("active", "comment"):
        chk.instance("C16/R1", "%s arm resolves the attribute namespace against JCMD" % nm, t["def"], loc_of(t.get("sp")),
                     holds=not [p for p in loose if decided(p, "'%s'" % nm)], key="C16/R1 %s %s-namespace" % (fn, nm))
    # order independence: no decision inside the scan reads what earlier attributes left behind
    stateful = [p for p in att if any("«loop:" in k for k in p.assume)]
    for nm in ("active", "comment"):
        chk.instance("C16/R1", "%s arm's condition does not depend on earlier attributes" % nm, t["def"], loc_of(t.get("sp")),
                     holds=not [p for p in stateful if decided(p, "'%s'" % nm)] and not (nm == "active" and [p for p in stateful if not decided(p, "'comment'")]),
                     key="C16/R1 %s %s-guard-reads-loop-state" % (fn, nm))
    # inactive: Maybe(None) at once (or the I/O error of skipping the content), content consumed, the expression seen so far is not consulted
    bad = [p for p in inactive if not (p.end == "return" and (ret_is_none(p) or ret_is_err(p)))]
    chk.instance("C16/R1", "a statement is skipped only for jcmd:active == \"false\" (unescaped value)", t["def"], loc_of(t.get("sp")),
                 holds=all(called(p, "Attribute::unescape_value") for p in inactive) and
                 not [p for p in att if p.end == "return" and ret_is_none(p) and not (holds_true(p, "'active'") and holds_true(p, "'false'"))],
                 key="C16/R1 %s active-condition" % fn)
    chk.instance("C16/R1", "active=\"false\" returns Maybe(None) immediately, whatever was seen before", t["def"], loc_of(t.get("sp")), holds=bool(inactive) and not bad
                 and not any(p.assigns() for p in inactive), key="C16/R1 %s active-arm-effect" % fn,
                 detail=None if not bad else "on a path with jcmd:active=\"false\" the scan goes on (%s): a later jcmd:comment then selects the inactive statement" % bad[0].end)
    chk.instance("C16/R1", "the skipped statement's content is consumed (read_to_end)", t["def"], loc_of(t.get("sp")),
                 holds=bool(inactive) and all(called(p, "read_to_end") for p in inactive if p.end == "return"), key="C16/R1 %s active-arm-consumes" % fn)
    # comment: only assigns the expression
    bad = [p for p in comment if p.end == "return" and not ret_is_err(p)] + [p for p in comment if len({a[1] for a in p.assigns()}) > 1]
    chk.instance("C16/R1", "comment arm only assigns the expression (no return / break)", t["def"], loc_of(t.get("sp")),
                 holds=any(p.assigns() for p in comment) and not bad and all(p.end in ("iter-end", "return") for p in comment),
                 key="C16/R1 %s comment-arm-effect" % fn)
    others = [p for p in att if not holds_true(p, "'active'") and not holds_true(p, "'comment'")]
    bad = [p for p in others if p.assigns() or (p.end == "return" and not ret_is_err(p))]
    chk.instance("C16/R1", "other attributes are ignored (%d paths)" % len(others), t["def"], loc_of(t.get("sp")), holds=bool(others) and not bad,
                 key="C16/R1 %s other-attribute-arm" % fn)
    wc = [c for p in paths for c in p.trace if c[0] == "call" and T.short(c[1], 2) == "Attributes::with_checks"]
    vals = set()
    for p in paths:
        for k in p.assume:
            if "Attributes::with_checks(" in k:
                vals.add("with_checks(BytesStart::attributes(«param:start»), false)" in k)
    chk.instance("C16/R1", "duplicate attributes are tolerated: attributes().with_checks(false)", t["def"], loc_of(t.get("sp")),
                 holds=bool(vals) and all(vals), key="C16/R1 %s with_checks" % fn)
    jc = fx.thir_body(AGENT + "::policies::fetch::JCMD")
    chk.instance("C16/R1", "JCMD = http://yang.juniper.net/junos/jcmd", jc["def"], loc_of(jc.get("sp")),
                 holds="http://yang.juniper.net/junos/jcmd" in T.expr_str(jc["body"]), key="C16/R1 JCMD value")


def selected(p):
    return p.ret is not None and A.mentions(p.ret, lambda x: x[0] == "adt" and x[1].endswith("policies::Candidate"))


def r2(chk, fx, t, paths):
    fn = "<Maybe<Candidate>>::read_xml"
    sel = [p for p in paths if selected(p)]
    chk.floor("C16/R2 Candidate construction sites", len(sel), 1)
    # the loop-carried variables by what is stored in them (not by what they are called): the parsed annotation, the policy's name,
    # the flag set for <reject/>
    expr_vars = {a[1] for p in paths for a in p.assigns() if "str::parse(" in A.vstr(a[2])}
    name_vars = {a[1] for p in paths for a in p.assigns() if any(x[0] == "adt" and x[1].endswith("policies::Name") for x in A.walk_value(a[2]))}
    flag_vars = reject_flags(paths)
    if not expr_vars or not name_vars or not flag_vars:
        raise F.AnchorLost("Maybe<Candidate>::read_xml: annotation / name / reject-flag variable not found (%s, %s, %s)" % (expr_vars, name_vars, flag_vars))

    def about(k, names):
        return any(("«loop:%s»" % n) in k for n in names)

    def flag(p):
        vals = [p.assumed_bool("«loop:%s»" % f) for f in flag_vars]
        vals = [v for v in vals if v is not None]
        return vals[0] if vals else None
    # what a selected statement had to satisfy — read off the assumptions of the selecting paths
    expr_some = all(any(k.startswith("variant:") and about(k, expr_vars) and v == "Some" for k, v in p.assume.items()) for p in sel)
    none_when_missing = [p for p in paths if any(k.startswith("notvariant:") and about(k, expr_vars) for k in p.assume) or
                         any(k.startswith("variant:") and about(k, expr_vars) and v == "None" for k, v in p.assume.items())]
    chk.instance("C16/R2", "a statement without a parseable bgpfu-fltr annotation yields Maybe(None)", t["def"], loc_of(t.get("sp")),
                 holds=expr_some and bool(none_when_missing) and all(ret_is_none(p) or ret_is_err(p) for p in none_when_missing),
                 key="C16/R2 %s annotation-required" % fn)
    rej = all(flag(p) is True for p in sel)
    chk.instance("C16/R2", "Candidate{..} is built only when the default action seen was reject", t["def"], loc_of(t.get("sp")), holds=rej,
                 key="C16/R2 %s candidate-without-reject" % fn)
    named = all(any(k.startswith("variant:") and about(k, name_vars) and v == "Some" for k, v in p.assume.items()) for p in sel)
    noname = [p for p in paths if any(k.startswith("variant:") and about(k, name_vars) and v == "None" for k, v in p.assume.items()) and
              flag(p) is True and p.after_loop_with("read_resolved_event")]
    chk.instance("C16/R2", "a selected statement must have a name (MissingElement otherwise)", t["def"], loc_of(t.get("sp")),
                 holds=named and bool(noname) and all(ret_is_err(p) and "MissingElement" in A.vstr(p.ret) for p in noname), key="C16/R2 %s name-required" % fn)
    norej = [p for p in paths if flag(p) is False and p.after_loop_with("read_resolved_event")]
    chk.instance("C16/R2", "without the default reject action the statement is not selected", t["def"], loc_of(t.get("sp")),
                 holds=bool(norej) and not any(selected(p) for p in norej) and any(ret_is_none(p) for p in norej), key="C16/R2 %s else-branch" % fn)
    # reject flag: set only for <then> .. <reject/> in the Junos namespace
    setters = [p for p in paths if any(a[1] in flag_vars and a[2] == ("lit", True) for a in p.assigns())]
    ok = bool(setters) and all(holds_true(p, "'then'") and holds_true(p, "'reject'") and sum(1 for k, v in p.assume.items() if "xml.juniper.net/xnm" in k and v is True) >= 2
                               for p in setters)
    chk.instance("C16/R2", "the reject flag becomes true only for <then><reject/> in the Junos namespace", t["def"], None, holds=ok,
                 key="C16/R2 %s reject-flag" % fn)
    # any other content is an error: an iteration of an event loop that neither assigns, nor breaks, nor fails has skipped something — only comments may be skipped
    ev = [p for p in paths if is_event_iteration(p)]
    quiet = [p for p in ev if p.end == "iter-end" and not p.assigns() and not holds_true(p, "'then'")]
    bad = [p for p in quiet if not any(v == "Comment" for k, v in p.assume.items() if k.startswith("variant:"))]
    chk.instance("C16/R2", "%s: any other content is an error (statement never selected) — %d skipping paths, all comments" % (fn, len(quiet)), t["def"],
                 loc_of(t.get("sp")), holds=bool(quiet) and not bad, key="C16/R2 %s catch-all" % fn)
    names = set()
    for p in ev:
        for k, v in p.assume.items():
            if v is True and "local_name" in k and "PartialEq::eq" in k:
                names.add(k.rsplit(", ", 1)[-1].strip("')"))
            if v is True and k.startswith("eq:") and "local_name" in k:
                names.add(k.rsplit(":", 1)[-1].strip('b"'))
    chk.instance("C16/R2", "the statement reader accepts exactly the elements name, then (and reject inside then): %s" % sorted(names), t["def"], loc_of(t.get("sp")),
                 holds=names == {"name", "then", "reject"}, key="C16/R2 %s accepted-elements %s" % (fn, sorted(names)))


def reject_flags(paths):
    """The variables that say "<reject/> was seen": assigned `true` on a path that assumed the element name 'reject' — and, when the
    <then> scan lives in a helper that returns its own such flag, the variable of the caller that receives the helper's flag."""
    direct = {a[1] for p in paths for a in p.assigns() if a[2] == ("lit", True) and holds_true(p, "'reject'")}
    out = set(direct)
    for p in paths:
        for a in p.assigns():
            if a[1] not in out and any(A.mentions(a[2], lambda x, f=f: x == ("sym", "loop:%s" % f)) for f in direct):
                out.add(a[1])
    return out


def is_iteration_end(p):
    return p.end == "iter-end"


def call_chain(v):
    """Names of the calls a value is derived through, outermost first (following first arguments and payload bases)."""
    out = []
    while isinstance(v, tuple):
        if v[0] == "term":
            out.append(T.short(v[1], 2))
            v = v[2][0] if v[2] else None
        elif v[0] in ("payload", "field", "await"):
            v = v[1]
        elif v[0] == "adt" and v[3]:
            out.append(v[2])
            v = v[3][0][1]
        else:
            break
    return out, v


def _lits(fx, v):
    """The literals a pattern argument stands for — written in place or through a named constant of the workspace."""
    out = set()
    for y in A.walk_value(v):
        if y[0] == "lit":
            out.add(y[1])
        elif y[0] == "const" and len(y) >= 2 and y[1] in fx.thir:
            try:
                for p in A.Interp(fx, crates=(AGENT,)).explore(y[1]):
                    if p.ret is not None:
                        out |= {z[1] for z in A.walk_value(p.ret) if z[0] == "lit"}
            except A.Undecided:
                pass
    return out


def r3(chk, fx, t, paths):
    fn = "<Maybe<Candidate>>::read_xml"
    want = ["str::parse", "str::strip_prefix", "str::trim", "str::trim_matches", "Attribute::unescape_value"]
    setters = [(p, a) for p in paths for a in p.assigns() if "str::parse(" in A.vstr(a[2])]
    expr_vars = {a[1] for (_, a) in setters}
    chk.floor("C16/R3 expression assignments", len(setters), 1)
    ok, chars, prefix, detail = True, set(), set(), None
    for p, a in setters:
        ch, root = call_chain(a[2])
        ch = [c for c in ch if c not in ("Some", "Ok", "array::as_slice", "slice::as_slice", "Deref::deref")]
        # ... applied to the attribute's value: below unescape_value there is only the attribute itself
        cut = ch.index("Attribute::unescape_value") + 1 if "Attribute::unescape_value" in ch else len(ch)
        if ch[:cut] != want or any(c.startswith("str::") or "String" in c for c in ch[cut:]):
            ok, detail = False, " <- ".join(ch)
        for x in A.walk_value(a[2]):
            if x[0] == "term" and T.short(x[1], 2) == "str::trim_matches":
                chars |= _lits(fx, x[2][1])
            if x[0] == "term" and T.short(x[1], 2) == "str::strip_prefix":
                prefix |= _lits(fx, x[2][1])
    chk.instance("C16/R3", "expression = unescape_value -> trim_matches(['/','*']) -> trim -> strip_prefix(\"bgpfu-fltr:\") -> parse", t["def"], loc_of(t.get("sp")),
                 holds=ok and chars == {"/", "*"} and prefix == {"bgpfu-fltr:"}, key="C16/R3 %s expression-chain" % fn,
                 detail=detail or "chars %s prefix %s" % (sorted(chars), sorted(prefix)))
    chk.instance("C16/R3", "the remainder is parsed as MpFilterExpr unchanged, and only a successful parse is kept", t["def"], loc_of(t.get("sp")),
                 holds=ok and all(any(k.startswith("variant:str::parse(") and v == "Ok" for k, v in p.assume.items()) for p, a in setters),
                 key="C16/R3 %s expression-parse" % fn)
    sel = [p for p in paths if selected(p)]
    good = True
    for p in sel:
        c = [x for x in A.walk_value(p.ret) if x[0] == "adt" and x[1].endswith("policies::Candidate")]
        fe = A.fields_of(c[0]).get("filter_expr") if c else None
        good = good and fe is not None and any(("«loop:%s»" % v) in A.vstr(fe) for v in expr_vars)
    chk.instance("C16/R3", "Candidate.filter_expr is the parsed annotation", t["def"], None, holds=bool(sel) and bool(good), key="C16/R3 %s filter_expr-origin" % fn)
    # names: read_text -> trim -> unescape -> Name, for both statement readers
    n = 0
    for which in ("Candidate", "Installed"):
        rn = "<" + AGENT + "::policies::fetch::Maybe<" + AGENT + "::policies::" + which + "> as netconf::message::ReadXml>::read_xml"
        ps = paths if which == "Candidate" else A.Interp(fx, crates=(AGENT,), max_paths=6000).explore(rn)
        # the assignment that stores the policy's name: recognised by what is stored (a policies::Name), not by the variable's name
        ns = [(p, a) for p in ps for a in p.assigns() if "Name::new" in A.vstr(a[2])
              or any(x[0] == "adt" and x[1].endswith("policies::Name") for x in A.walk_value(a[2]))]
        if not ns and which == "Candidate" and any(p.calls("ReadXml::read_xml", "BorrowedReadXml::borrowed_read_xml") for p in ps):
            n += 1      # delegated to another reader: C16/R5 reports that
            continue
        for p, a in ns[:1]:
            n += 1
            ch, root = call_chain(a[2])
            unesc = "escape::unescape" in ch and "NsReader::read_text" in ch and ch.index("escape::unescape") < ch.index("NsReader::read_text")
            short = "<Maybe<%s>>::read_xml" % which
            chk.instance("C16/R3", "%s: the policy name is unescaped before use (read_text returns escaped text): %s" % (short, " <- ".join(ch)), rn,
                         loc_of(a[3]), holds=unesc, key="C16/R3 %s name-not-unescaped" % short,
                         detail="a policy named 'a&b' is read as 'a&amp;b' and written back as a different policy" if not unesc else None)
    chk.floor("C16/R3 policy-name read sites", n, 2)


def r4(chk, fx):
    pre = "<" + AGENT + "::policies::Policies<" + AGENT + "::policies::%s> as " + AGENT + "::policies::fetch::Fetch>::%s"
    ds = T.expr_str(fx.thir_body(pre % ("Candidate", "DATASTORE"))["body"])
    fl = T.expr_str(fx.thir_body(pre % ("Candidate", "FILTER"))["body"])
    chk.instance("C16/R4", "candidates are read from the running datastore (%s)" % ds, pre % ("Candidate", "DATASTORE"), None, holds=ds == "Datastore::Running",
                 key="C16/R4 candidate-datastore")
    flat = "".join(fl.split())
    chk.instance("C16/R4", "candidate subtree filter = configuration/policy-options/policy-statement", pre % ("Candidate", "FILTER"), None,
                 holds="<configuration><policy-options><policy-statement/></policy-options></configuration>" in flat and flat.startswith("Option::Some("),
                 key="C16/R4 candidate-filter")
    ds = T.expr_str(fx.thir_body(pre % ("Installed", "DATASTORE"))["body"])
    fl = T.expr_str(fx.thir_body(pre % ("Installed", "FILTER"))["body"])
    chk.instance("C16/R4", "installed policies are read from the (ephemeral) candidate datastore, unfiltered (%s, %s)" % (ds, fl), pre % ("Installed", "DATASTORE"), None,
                 holds=ds == "Datastore::Candidate" and fl == "Option::None", key="C16/R4 installed-datastore")
    # duplicates rejected
    name = [n for n in fx.thir if n.endswith("::read_xml") and "for " + AGENT + "::policies::Policies<T>" in n and "closure" not in n]
    if len(name) != 1:
        raise F.AnchorLost("Policies<T>::read_xml")
    # decided on the explored paths of the container reader (helpers inlined): a path that assumes the freshly read name is already
    # in the map (entry Occupied / contains_key true / insert returned the previous value) must end in `return Err`
    dup, fresh = [], []
    for p in A.Interp(fx, crates=(AGENT,), max_paths=8000).explore(name[0]):
        present = None
        for k, v in p.assume.items():
            if k.startswith("variant:HashMap::entry(") and v in ("Occupied", "Vacant"):
                present = v == "Occupied"
            elif k.startswith("notvariant:HashMap::entry(") and "Vacant" in v:
                present = True
            elif k.startswith("HashMap::contains_key(") and isinstance(v, bool):
                present = v
            elif k.startswith("variant:HashMap::insert(") and v in ("Some", "None"):
                present = v == "Some"
        if present is None or p.end == "abort":
            continue
        (dup if present else fresh).append(p)
    ok = bool(dup) and bool(fresh) and all(p.end == "return" and A.is_res(p.ret) and p.ret[2] == "Err" for p in dup) and \
        all(not (p.end == "return" and A.is_res(p.ret) and p.ret[2] == "Err") for p in fresh)
    chk.instance("C16/R4", "a policy-statement whose name was already read is an error; a new name is stored (%d / %d paths)" % (len(dup), len(fresh)),
                 name[0], None, holds=ok, key="C16/R4 duplicate-names")


# ---------------------------------------------------------------------------------------------
ALLOWED_CONTENT = {"name", "then", "reject"}


def r5_other_content(chk, fx, t, paths):
    """'.. and ones with other content are never selected': the candidate reader goes on after an element only if it is <name>, <then>
    or (inside <then>) <reject>; anything else — a term, a second action, foreign elements — ends in the catch-all error.  Decided on
    the explored element iterations that continue (or leave the loop normally): the element names the path assumed.  A scan delegated
    to another type's reader cannot satisfy this (the readers of installed statements accept terms) and is reported as such."""
    import re
    fn = "<Maybe<Candidate>>::read_xml"
    n = 0
    for p in paths:
        if not is_event_iteration(p) or p.end not in ("iter-end",):
            continue
        names = sorted({m for k, v in p.assume.items() if v is True and "local_name" in k
                        for m in re.findall(r"(?:b\"|')([A-Za-z][A-Za-z0-9:_-]*)(?:\"|')", k)})
        if not names:
            continue
        n += 1
        bad = [x for x in names if x not in ALLOWED_CONTENT]
        chk.instance("C16/R5", "%s goes on after <%s> only" % (fn, "/".join(names)), t["def"], loc_of(t.get("sp")), holds=not bad,
                     key="C16/R5 %s accepts-other-content %s" % (fn, ",".join(bad)),
                     detail=None if not bad else "a statement containing <%s> can still be selected as managed" % bad[0])
    # .. and nothing of a statement that ends up selected is skipped unseen: read_to_end either skips the element the reader has just
    # recognised (its own start tag) or the whole statement on the way to "not managed" / an error.  `read_to_end(</then>)` after the
    # first child of <then> would hide every further action from the arms above.
    n_skip = 0
    for p in paths:
        evs = 0
        for e in p.trace:
            if e[0] == "call" and "read_resolved_event" in e[1]:
                evs += 1
            elif e[0] == "call" and T.short(e[1], 2).endswith("read_to_end") and len(e[2]) >= 2:
                n_skip += 1
                tgt = A.vstr(e[2][1])
                m = re.search(r"read_resolved_event(?:#(\d+))?\(", tgt)
                if m:
                    own = int(m.group(1) or 0) == evs - 1
                    chk.instance("C16/R5", "%s: read_to_end skips the element just recognised" % fn, t["def"], loc_of(e[3]), holds=own,
                                 key="C16/R5 %s skips-unseen-content" % fn,
                                 detail=None if own else "skips to the end of an enclosing element (the one opened %d event(s) earlier): what follows in it is never looked at, "
                                 "and a statement with other content is still selected" % (evs - 1 - int(m.group(1) or 0)))
                elif "«param:" in tgt:
                    gone = p.end == "return" and (ret_is_none(p) or ret_is_err(p))
                    chk.instance("C16/R5", "%s: the whole statement is skipped only on the way to 'not managed'" % fn, t["def"], loc_of(e[3]), holds=gone,
                                 key="C16/R5 %s skips-statement-but-goes-on" % fn)
                else:
                    chk.instance("C16/R5", "%s: read_to_end target of unrecognised form (%s)" % (fn, tgt[:60]), t["def"], loc_of(e[3]), holds=False,
                                 key="C16/R5 %s skips-unseen-content" % fn)
    deleg = sorted({T.short(c[1], 2) for p in paths for c in p.calls("ReadXml::read_xml", "BorrowedReadXml::borrowed_read_xml")})
    if not deleg:
        chk.floor("C16/R5 continuing element iterations", n, 2)
    chk.instance("C16/R5", "%s scans the statement's content itself" % fn, t["def"], loc_of(t.get("sp")), holds=not deleg,
                 key="C16/R5 %s content-scan-delegated" % fn,
                 detail=None if not deleg else "the content is read by %s: what that reader accepts (terms, ...) is accepted for a candidate too" % deleg)
