"""C16 — Exactly the active, annotated, default-reject policy statements are managed (structural part)."""
from vlib import facts as F, thir as T, xmlgrammar as X
from vlib.report import loc_of
from . import readers as R
from .c03 import READ_CAND, AGENT

EXPLANATION = (
    "C16/R1 order independence of the attribute scan in Maybe<Candidate>::read_xml: the jcmd:active=\"false\" arm returns Maybe(None) at "
    "once and never reads the expression seen so far; the jcmd:comment arm only assigns it and never returns; no arm guard reads a "
    "loop-carried local; duplicate attributes are tolerated (with_checks(false)) and attributes are namespace-resolved against the JCMD "
    "constant. C16/R2 (GUARD): Candidate{..} is produced only under: an expression was found (let-else), the body loop ended normally, "
    "reject_policy is true (set only by <then><reject/>), name is present (else MissingElement); any other child takes the catch-all "
    "error arm. C16/R3 (ORIGIN): the expression comes from attr.unescape_value() -> trim_matches(['/','*']) -> trim -> "
    "strip_prefix(\"bgpfu-fltr:\") -> parse::<MpFilterExpr>; the name from read_text passed through unescape. C16/R4 (TABLE): candidates "
    "are fetched from Datastore::Running with the configuration/policy-options/policy-statement subtree filter, installed ones from "
    "Datastore::Candidate unfiltered; duplicate names are an error. Not decided: MpFilterExpr's grammar, Junos' rendering of annotations."
)


def run(ctx):
    chk, fx = ctx.chk, ctx.facts
    chk.explanation = EXPLANATION
    chk.assumptions += ["quick-xml: Attribute::unescape_value resolves entities; read_text does not (raw slice)"]
    t = fx.thir_body(READ_CAND)
    chk.analysed(t["def"])
    body = T.user_body(t)
    r1(chk, fx, t, body)
    r2(chk, fx, t, body)
    r3(chk, fx, t, body)
    r4(chk, fx)


def attr_match(body):
    ms = [m for m in T.find(body, "Match") if X.ntext(m["scrut"]).startswith("NsReader::resolve_attribute(")]
    if len(ms) != 1:
        raise F.AnchorLost("Maybe<Candidate>::read_xml: match on reader.resolve_attribute(..) not found")
    return ms[0]


def r1(chk, fx, t, body):
    m = attr_match(body)
    fn = "<Maybe<Candidate>>::read_xml"
    active, comment, other = None, None, []
    for a in m["arms"]:
        g = X.ntext(a["guard"]) if a.get("guard") is not None else ""
        p = T.pat_str(a["pat"])
        if 'b"active"' in g:
            active = a
        elif 'b"comment"' in g:
            comment = a
        else:
            other.append(a)
    chk.instance("C16/R1", "attribute scan has an `active` arm and a `comment` arm", t["def"], loc_of(m.get("sp")), holds=active is not None and comment is not None,
                 key="C16/R1 %s attribute-arms" % fn)
    if active is None or comment is None:
        return
    for nm, a in (("active", active), ("comment", comment)):
        p = T.pat_str(a["pat"])
        chk.instance("C16/R1", "%s arm resolves the attribute namespace against JCMD (%s)" % (nm, p), t["def"], loc_of(a.get("sp")),
                     holds="ResolveResult::Bound(fetch::JCMD)" in p or "Bound(JCMD)" in p, key="C16/R1 %s %s-namespace" % (fn, nm))
        g = X.ntext(a["guard"])
        chk.instance("C16/R1", "%s arm's guard does not depend on earlier attributes (guard: %s)" % (nm, g[:80]), t["def"], loc_of(a.get("sp")),
                     holds="maybe_filter_expr" not in g and "name" in g, key="C16/R1 %s %s-guard-reads-loop-state" % (fn, nm))
    ga = X.ntext(active["guard"])
    chk.instance("C16/R1", "a statement is skipped only for jcmd:active == \"false\" (unescaped value)", t["def"], loc_of(active.get("sp")),
                 holds='PartialEq::eq(Attribute::unescape_value(attr)?,"false")' in ga, key="C16/R1 %s active-condition" % fn, detail=ga[:160])
    ab = X.ntext(active["body"])
    rets = T.find(active["body"], "Return")
    ok = len(rets) == 1 and X.ntext(rets[0]["value"]) == "Result::Ok(Maybe(Option::None))" and "maybe_filter_expr" not in ab
    chk.instance("C16/R1", "active=\"false\" returns Maybe(None) immediately, whatever was seen before", t["def"], loc_of(active.get("sp")), holds=ok,
                 key="C16/R1 %s active-arm-effect" % fn)
    chk.instance("C16/R1", "the skipped statement's content is consumed (read_to_end)", t["def"], loc_of(active.get("sp")), holds="NsReader::read_to_end(" in ab,
                 key="C16/R1 %s active-arm-consumes" % fn)
    cb = comment["body"]
    assigns = [x for x in T.find(cb, "Assign") if T.peel(x["lhs"]).get("name") == "maybe_filter_expr"]
    ok = len(assigns) == 1 and not T.find(cb, "Return") and not T.find(cb, "Break")
    chk.instance("C16/R1", "comment arm only assigns the expression (no return / break)", t["def"], loc_of(comment.get("sp")), holds=ok,
                 key="C16/R1 %s comment-arm-effect" % fn)
    for a in other:
        ok = X.ntext(a["body"]) in ("continue", "{continue}", "{}", "()")
        chk.instance("C16/R1", "other attributes (%s) are ignored" % T.pat_str(a["pat"]), t["def"], loc_of(a.get("sp")), holds=ok,
                     key="C16/R1 %s other-attribute-arm" % fn)
    txt = X.ntext(body)
    chk.instance("C16/R1", "duplicate attributes are tolerated: attributes().with_checks(false)", t["def"], loc_of(t.get("sp")),
                 holds="Attributes::with_checks(BytesStart::attributes(start),false)" in txt, key="C16/R1 %s with_checks" % fn)
    jc = fx.thir_body(AGENT + "::policies::fetch::JCMD")
    chk.instance("C16/R1", "JCMD = http://yang.juniper.net/junos/jcmd", jc["def"], loc_of(jc.get("sp")),
                 holds="http://yang.juniper.net/junos/jcmd" in T.expr_str(jc["body"]), key="C16/R1 JCMD value")


def r2(chk, fx, t, body):
    fn = "<Maybe<Candidate>>::read_xml"
    cands = [a for a in T.find(body, "Adt") if a["adt"].endswith("policies::Candidate")]
    chk.floor("C16/R2 Candidate construction sites", len(cands), 1)
    # let-else on maybe_filter_expr
    le = [s for s in T.walk(body) if s.get("k") == "LetStmt" and s.get("else") is not None and X.ntext(s["init"]) == "maybe_filter_expr"]
    ok = len(le) == 1 and T.pat_str(le[0]["pat"]).startswith("Option::Some(") and "returnResult::Ok(Maybe(Option::None))" in X.ntext(le[0]["else"])
    chk.instance("C16/R2", "a statement without a parseable bgpfu-fltr annotation yields Maybe(None) (let-else)", t["def"],
                 loc_of(le[0].get("sp")) if le else None, holds=ok, key="C16/R2 %s annotation-required" % fn)
    # Candidate only under `if reject_policy`
    ifs = [i for i in T.find(body, "If") if X.ntext(i["cond"]) == "reject_policy"]
    inside = []
    for i in ifs:
        inside += [a for a in T.find(i["then"], "Adt") if a["adt"].endswith("policies::Candidate")]
    chk.instance("C16/R2", "Candidate{..} is built only under `if reject_policy`", t["def"], loc_of(ifs[0].get("sp")) if ifs else None,
                 holds=bool(cands) and len(inside) == len(cands), key="C16/R2 %s candidate-without-reject" % fn)
    for i in ifs:
        th = X.ntext(i["then"])
        chk.instance("C16/R2", "a selected statement must have a name (MissingElement otherwise)", t["def"], loc_of(i.get("sp")),
                     holds='Option::ok_or(name,ReadError::MissingElement{msg_type:"policy-statement",element:"name"})?' in th or
                     'Option::ok_or(name,Read::MissingElement{msg_type:"policy-statement",element:"name"})?' in th, key="C16/R2 %s name-required" % fn)
        el = X.ntext(i.get("else") or {})
        chk.instance("C16/R2", "without the default reject action the statement is not selected", t["def"], loc_of(i.get("sp")),
                     holds="Result::Ok(Maybe(Option::None))" in el and "Candidate" not in el, key="C16/R2 %s else-branch" % fn)
    # reject_policy set only in the <then>/<reject/> arm
    assigns = [x for x in T.find(body, "Assign") if T.peel(x["lhs"]).get("name") == "reject_policy"]
    loops = [lp for lp in R.reader_loops(fx) if lp.fn == t["def"]]
    then_loop = [lp for lp in loops if lp.parent_arm is not None and lp.parent_arm.name == "then"]
    ok = len(assigns) == 1 and X.ntext(assigns[0]["rhs"]) == "true" and len(then_loop) == 1
    if ok:
        arms = [a for a in then_loop[0].arms if a.name == "reject"]
        ok = len(arms) == 1 and "reject_policy=true" in arms[0].body_text() and arms[0].ns_checked() is not None
    chk.instance("C16/R2", "reject_policy becomes true only for <then><reject/> in the Junos namespace", t["def"], None, holds=ok,
                 key="C16/R2 %s reject-flag" % fn)
    # other content -> error (catch-all arms return Err), in the body loop and the then loop
    for lp in loops:
        ca = [a for a in lp.arms if a.catch_all]
        ok = len(ca) == 1 and "returnResult::Err(" in ca[0].body_text() and "UnexpectedXmlEvent" in ca[0].body_text() \
            and not R.lenient_arms(lp) and not R.repeated_names(lp)
        chk.instance("C16/R2", "%s: any other content is an error (statement never selected)" % lp.label(), t["def"], loc_of(lp.sp), holds=ok,
                     key="C16/R2 %s catch-all" % lp.label())
        elems = sorted(n for n in lp.element_names())
        want = ["name", "then"] if lp.parent_arm is None else ["reject"]
        chk.instance("C16/R2", "%s accepts exactly the elements %s" % (lp.label(), elems), t["def"], loc_of(lp.sp), holds=elems == want,
                     key="C16/R2 %s accepted-elements %s" % (lp.label(), elems))
    chk.floor("C16/R2 candidate reader loops", len(loops), 2)


def r3(chk, fx, t, body):
    fn = "<Maybe<Candidate>>::read_xml"
    m = attr_match(body)
    comment = [a for a in m["arms"] if a.get("guard") is not None and 'b"comment"' in X.ntext(a["guard"])]
    if not comment:
        return
    cb = X.ntext(comment[0]["body"])
    import re
    chain_re = re.compile(r'^\{?letattr_value=Attribute::unescape_value\(attr\)\?;letraw_expr=str::strip_prefix\(str::trim\(str::trim_matches\((Deref::deref\()?attr_value\)?,(array|slice)::as_slice\(\[[^\]]*\]\)\)\),"bgpfu-fltr:"\);match')
    chars = sorted(n["v"] for n in T.walk(comment[0]["body"]) if n.get("k") == "Lit" and n.get("lk") == "char")
    chain = alt = None
    chk.instance("C16/R3", "expression = unescape_value -> trim_matches(['/','*']) -> trim -> strip_prefix(\"bgpfu-fltr:\")", t["def"],
                 loc_of(comment[0].get("sp")), holds=bool(chain_re.match(cb)) and chars == ["*", "/"] and cb.count("strip_prefix") == 1,
                 key="C16/R3 %s expression-chain" % fn, detail=cb[:220])
    cl = " ".join(X.ntext(T.user_body(tt)) for n2, tt in fx.thir.items() if n2.startswith(t["def"] + "::{closure") and (tt.get("sp") or {}).get("m") is None)
    chk.instance("C16/R3", "the remainder is parsed as MpFilterExpr unchanged: (raw, raw.parse())", t["def"], loc_of(comment[0].get("sp")),
                 holds="(raw,str::parse(raw))" in cl, key="C16/R3 %s expression-parse" % fn)
    cadt = [a for a in T.find(body, "Adt") if a["adt"].endswith("policies::Candidate")]
    ok = bool(cadt) and all(X.ntext(f["expr"]) == "filter_expr" for a in cadt for f in a["fields"] if f["name"] == "filter_expr")
    chk.instance("C16/R3", "Candidate.filter_expr is the parsed annotation", t["def"], None, holds=ok, key="C16/R3 %s filter_expr-origin" % fn)
    # names: unescaped
    n = 0
    for r in R.text_uses(fx):
        if "policies::Name::new" in " ".join(s[0] for s in r["all_sinks"]) or True:
            name_sinks = [s for s in r["unescaped"] if s[0].endswith("Name::new")]
            b = fx.mir[r["fn"]]
            if not r["fn"].startswith("<" + AGENT + "::policies::fetch::Maybe<"):
                continue
            uses_name = [x for x in b.calls() if x.is_fn("policies::Name::new")]
            t_all = b.forward_taint([r["call"].dest["l"]], through_call=lambda x: x.is_fn(*R.PRESERVING) or x.is_fn("escape::unescape", "str::<impl str>::trim"))
            if not name_sinks and not any(F.op_base(a) in t_all for x in uses_name for a in x.args):
                continue
            n += 1
            chk.instance("C16/R3", "%s: the policy name is unescaped before use (read_text returns escaped text)" % R.short_fn(r["fn"]), r["fn"],
                         r["call"].loc(), holds=not name_sinks, key="C16/R3 %s name-not-unescaped" % R.short_fn(r["fn"]),
                         detail="a policy named 'a&b' is read as 'a&amp;b' and written back as a different policy" if name_sinks else None)
    chk.floor("C16/R3 policy-name read sites", n, 2)


def r4(chk, fx):
    pre = "<" + AGENT + "::policies::Policies<" + AGENT + "::policies::%s> as " + AGENT + "::policies::fetch::Fetch>::%s"
    ds = T.expr_str(fx.thir_body(pre % ("Candidate", "DATASTORE"))["body"])
    fl = T.expr_str(fx.thir_body(pre % ("Candidate", "FILTER"))["body"])
    chk.instance("C16/R4", "candidates are read from the running datastore (%s)" % ds, pre % ("Candidate", "DATASTORE"), None, holds=ds == "Datastore::Running",
                 key="C16/R4 candidate-datastore")
    flat = "".join(fl.split())
    chk.instance("C16/R4", "candidate subtree filter = configuration/policy-options/policy-statement", pre % ("Candidate", "FILTER"), None,
                 holds="<configuration><policy-options><policy-statement/></policy-options></configuration>" in flat and flat.startswith("Option::Some("),
                 key="C16/R4 candidate-filter")
    ds = T.expr_str(fx.thir_body(pre % ("Installed", "DATASTORE"))["body"])
    fl = T.expr_str(fx.thir_body(pre % ("Installed", "FILTER"))["body"])
    chk.instance("C16/R4", "installed policies are read from the (ephemeral) candidate datastore, unfiltered (%s, %s)" % (ds, fl), pre % ("Installed", "DATASTORE"), None,
                 holds=ds == "Datastore::Candidate" and fl == "Option::None", key="C16/R4 installed-datastore")
    # duplicates rejected
    name = [n for n in fx.thir if n.endswith("::read_xml") and "for " + AGENT + "::policies::Policies<T>" in n and "closure" not in n]
    if len(name) != 1:
        raise F.AnchorLost("Policies<T>::read_xml")
    txt = X.ntext(T.user_body(fx.thir[name[0]]))
    ok = "ifletEntry::Vacant(entry)=HashMap::entry(map,Clone::clone(name))" in txt and "detectedduplicatepolicy-statement" in txt.replace("'", "") or \
        ("Entry::Vacant(entry)" in txt and "returnResult::Err(" in txt)
    chk.instance("C16/R4", "duplicate policy names are an error (Entry::Vacant or Err)", name[0], None, holds=ok, key="C16/R4 duplicate-names")
