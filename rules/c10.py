"""C10 — Serialised requests are well-formed and carry the caller's values unchanged (escaping discipline).

ORIGIN of element/attribute names (static), classification of every write reaching the quick_xml::Writer into escaping
and raw sinks with an audited table of raw sites, delimiter placement (shared with C06/R5).
"""
from vlib import facts as F, thir as T, xmlgrammar as X
from vlib.report import loc_of, Check
from . import readers as R

CRATES = ("netconf", "bgpfu_junos_agent")
EXPLANATION = (
    "Over every body of netconf and the agent that writes to a quick_xml::Writer: C10/R1 (ORIGIN) every create_element argument and "
    "every attribute key is a string literal, an associated &'static str const, or the result of a fn returning &'static str — never "
    "caller data. C10/R2 (sink classification): text reaches the writer only through escaping sinks — write_text_content(BytesText::new(_)) "
    "and with_attribute((&str,&str)) — except at the audited raw sites: Source::Config, Filter::Subtree and Opaque (documented verbatim "
    "XML fragments) and the rollback attribute (usize::to_string). write_all on Writer::get_mut, BytesText::from_escaped, "
    "Attribute{..} literals, (&[u8],&[u8]) attribute pairs and write_event anywhere else are violations. C10/R3: to_xml appends the "
    "delimiter once after the document and validates UTF-8 (String::from_utf8(..)?); that escaped text cannot contain ']]>' follows "
    "from quick-xml 0.31 escaping '>' (assumption). Not decided: well-formedness of caller-supplied fragments."
)
RAW_VIEW = ("str::as_bytes", "String::as_bytes", "String::as_str", "Deref::deref", "AsRef::as_ref", "Borrow::borrow", "Arc::deref", "Arc::as_ref", "Opaque::as_bytes",
            "Opaque::as_str", "Opaque::as_ref", "Into::into", "From::from", "Clone::clone", "Cow::as_ref")
RAW_ALLOWED = {
    "<netconf::message::rpc::operation::Source as netconf::message::WriteXml>::write_xml": "Source::Config: documented verbatim XML fragment",
    "<netconf::message::rpc::operation::Filter as netconf::message::WriteXml>::write_xml": "Filter::Subtree: documented verbatim XML fragment",
    "<netconf::message::rpc::operation::Opaque as netconf::message::WriteXml>::write_xml": "Opaque: verbatim XML fragment",
}
ATTR_LITERAL_ALLOWED = {
    "rollback": "value is RollbackIndex(usize).to_string(): digits only",
}


def run(ctx):
    chk, fx = ctx.chk, ctx.facts
    chk.explanation = EXPLANATION
    r4_values_stored_unchanged(chk, fx)
    r5_setters_store_unchanged(chk, fx)
    r6_emission_independent_of_text(chk, fx)
    chk.assumptions += ["quick-xml 0.31: BytesText::new and Attribute::from((&str,&str)) escape < > & ' \"; Attribute::from((&[u8],&[u8])) and Attribute{..} store the value verbatim"]
    impls = [i for i in fx.item_list if i["kind"] == "Impl" and i.get("trait") == "netconf::message::WriteXml" and "::tests::" not in i["qdef"] and "tests::" not in i.get("self", "")]
    chk.floor("C10 WriteXml impls", len(impls), 30)
    chk.extra["write_xml_impls"] = len(impls)
    n_el = n_attr = n_text = n_raw = 0
    for name, b in sorted(fx.mir.items()):
        if b.crate not in CRATES or "::tests::" in name:
            continue
        uses_writer = False
        for c in b.calls():
            if (c.macro or "").startswith(("tracing", "log")):
                continue
            if c.is_fn("Writer::<W>::create_element"):
                uses_writer = True
                n_el += 1
                ok, why = static_str(fx, b, c.args[1])
                chk.instance("C10/R1", "element name is static (%s)" % why, name, c.loc(), holds=ok, key="C10/R1 dynamic-element-name in %s" % T.strip_generics(name))
            elif c.is_fn("ElementWriter::<'a, W>::with_attribute"):
                uses_writer = True
                n_attr += 1
                check_attribute(chk, fx, name, b, c)
            elif c.is_fn("ElementWriter::<'a, W>::write_text_content"):
                uses_writer = True
                n_text += 1
                ok, why = escaped_text(fx, b, c.args[1])
                chk.instance("C10/R2", "text content goes through an escaping constructor (%s)" % why, name, c.loc(), holds=ok,
                             key="C10/R2 unescaped-text-content in %s" % T.strip_generics(name))
            elif c.is_fn("Write::write_all", "Write::write", "Write::write_fmt") and writes_to_xml_writer(b, c):
                uses_writer = True
                n_raw += 1
                root = name.split("::{closure")[0]
                why = RAW_ALLOWED.get(root) or _raw_helper_of_audited(fx, root)
                chk.instance("C10/R2", "raw write into the XML writer%s" % (" — audited: " + why if why else ""), name, c.loc(), holds=why is not None,
                             key="C10/R2 raw-write in %s" % T.strip_generics(root),
                             detail=None if why else "caller data copied verbatim: '<', '&' or ']]>]]>' in the value corrupt the message")
                if why is not None and len(c.args) > 1 and F.op_base(c.args[1]) is not None:
                    # "verbatim" cuts both ways: what an audited site writes is the caller's fragment itself, not an edited copy of it
                    org = b.backward_origins(F.op_base(c.args[1]), through_call=lambda x: T.short(T.strip_generics(x.name()), 2) in RAW_VIEW or x.is_fn(*RAW_VIEW))
                    edited = sorted({T.short(T.strip_generics(o["call"].name()), 2) for o in org if o["k"] == "call" and o["call"] is not None})
                    chk.instance("C10/R2", "the audited raw site writes the caller's fragment itself", name, c.loc(), holds=not edited,
                                 key="C10/R2 raw-write rewrites-the-fragment in %s" % T.strip_generics(root),
                                 detail=None if not edited else "the bytes written come from %s: a documented verbatim fragment (a CDATA section, say) reaches the server altered" % edited)
            elif c.is_fn("BytesText::<'a>::from_escaped", "Writer::<W>::write_event", "Writer::<W>::write_indent", "BytesCData::<'a>::new", "Writer::<W>::write_bom"):
                n_raw += 1
                chk.instance("C10/R2", "%s bypasses escaping" % T.short(c.name(), 2), name, c.loc(), holds=False,
                             key="C10/R2 %s in %s" % (T.short(c.name(), 2), T.strip_generics(name)))
        for (bi, si, s) in b.aggs_of("events::attributes::Attribute"):
            n_raw += 1
            key_ok, key_txt = attr_literal_key(fx, b, s)
            why = ATTR_LITERAL_ALLOWED.get(key_txt)
            val_ok = False
            if why:
                vo = b.backward_origins(F.op_base(s["rv"]["fields"][1]), through_call=lambda c: c.is_fn("Into::into", "From::from", "String::into_bytes", "Cow::<'_, B>::from", "String::as_bytes", "Deref::deref"))
                srcs = [o["call"] for o in vo if o["k"] == "call" and o["call"] is not None]
                val_ok = bool(srcs) and all(x.is_fn("ToString::to_string") and any(g in ("usize", "u64", "u32", "u16", "u8") for g in x.gargs) for x in srcs)
            chk.instance("C10/R2", "Attribute{..} literal (value stored verbatim) for key %r%s" % (key_txt, " — audited: " + why if why else ""), name,
                         loc_of(s.get("sp")), holds=bool(why) and val_ok and key_ok, key="C10/R2 attribute-literal %s in %s" % (key_txt, T.strip_generics(name)))
    chk.call_sites += n_el + n_attr + n_text + n_raw
    chk.floor("C10/R1 create_element sites", n_el, 65)
    chk.floor("C10/R2 attribute sites", n_attr, 12)
    chk.floor("C10/R2 text-content sites", n_text, 17)
    chk.extra["sink_counts"] = {"create_element": n_el, "with_attribute": n_attr, "write_text_content": n_text, "raw_or_literal": n_raw}
    r3_delimiter(ctx, chk, fx)


def _raw_helper_of_audited(fx, root, _depth=0):
    """A private function that does the verbatim write for an audited site: every call to it comes from an audited writer (or from
    another such helper), and it is not reachable from outside the crate."""
    if _depth > 2:
        return None
    try:
        it = fx.fn_item(root)
    except F.AnchorLost:
        return None
    if it is None or str(it.get("vis", "")).startswith("Public"):
        return None
    callers = set()
    for name, b in fx.mir.items():
        for c in b.calls():
            if not c.macro and (c.rdef == root or c.defn == root):
                callers.add(name.split("::{closure")[0])
        # handed on as a function value
        for bl in b.blocks:
            for st in bl["stmts"]:
                if st["k"] == "assign" and st["rv"]["k"] in ("use", "cast") and st["rv"]["op"].get("c") == "const" and st["rv"]["op"].get("def") == root:
                    callers.add("(function value) " + name)
    if not callers:
        return None
    whys = []
    for cl in sorted(callers):
        w = RAW_ALLOWED.get(cl) or (None if cl.startswith("(") else _raw_helper_of_audited(fx, cl, _depth + 1))
        if w is None:
            return None
        whys.append(w.split(":")[0])
    return "private helper called only from audited raw site(s) %s" % sorted(set(whys))


def writes_to_xml_writer(b, c):
    o = b.backward_origins(F.op_base(c.args[0]), through_call=lambda x: False)
    return any(x["k"] == "call" and x["call"] is not None and x["call"].is_fn("Writer::<W>::get_mut", "Writer::<W>::inner", "Writer::<W>::into_inner") for x in o)


def static_str(fx, b, op, _depth=0):
    """Is the &str operand a literal / const / result of a fn returning &'static str?"""
    if op.get("c") == "const":
        if op.get("cdef"):
            return True, "const " + T.short(op["cdef"], 2)
        return True, "literal %s" % (op.get("v") or "")[:40]
    l = F.op_base(op)
    org = b.backward_origins(l, through_call=lambda c: c.is_fn("Deref::deref", "AsRef::as_ref", "Borrow::borrow"))
    if not org:
        return False, "no origin"
    why = []
    for o in org:
        if o["k"] == "const":
            why.append("const")
            continue
        if o["k"] == "call" and o["call"] is not None:
            c = o["call"]
            tgt = c.rdef or c.defn
            it = None
            for cand in (c.rdef, c.defn):
                if cand and cand in fx.items:
                    for i in fx.items[cand]:
                        if i["kind"] in ("Fn", "AssocFn"):
                            it = i
            if it is not None and it.get("output", "").replace(" ", "") in ("&'staticstr",):
                why.append("fn %s -> &'static str" % T.short(tgt, 2))
                continue
            if c.is_fn(*ITER_PLUMBING):
                # the name comes out of an iteration (a table of names walked in a loop): static if every string that can flow into
                # the iterated value is
                ok, w = _deep_static(fx, b, l)
                if ok:
                    why.append(w)
                    continue
                return False, w
            return False, "result of %s" % T.short(tgt, 2)
        if o["k"] == "arg" and _depth < 2:
            # a parameter of a private helper: static if declared `&'static str`, or if every call of the helper passes a static string
            ok, w = _static_param(fx, b, o["l"], _depth)
            if ok:
                why.append(w)
                continue
            return False, w
        if o["k"] == "place" and o.get("pl") is not None and _depth < 2:
            # a projection of a compound value (the element an iterator handed out, a tuple of a table): look at everything that value
            # can be made of
            ok, w = _deep_static(fx, b, o["pl"]["l"])
            if ok:
                why.append(w)
                continue
            return False, w
        if o["k"] in ("place", "arg", "agg", "resume", "other", "binop"):
            return False, "derived from %s" % o["k"]
    return True, ", ".join(sorted(set(why)))


ITER_PLUMBING = ("Iterator::next", "IntoIterator::into_iter", "Iterator::filter", "Iterator::enumerate", "Iterator::rev", "Iterator::skip", "Iterator::take",
                 "Iterator::chain", "Iterator::copied", "Iterator::cloned", "Iterator::zip", "Iterator::by_ref", "slice::<impl [T]>::iter", "Iterator::peekable",
                 "Iterator::step_by", "Iterator::fuse")


def _deep_static(fx, b, start):
    """Every string-typed leaf the value of `start` can derive from — through iterator plumbing, tuples, arrays, references, Option
    payloads — is a literal, a const or the result of a fn returning &'static str.  Anything else (a parameter, a field of self, the
    result of another call) makes the name dynamic."""
    def carries_str(ty):
        return "str" in ty or "String" in ty or "Cow<" in ty
    seen, work, n_leaf = set(), [start], 0
    while work:
        l = work.pop()
        if l is None or l in seen:
            continue
        seen.add(l)
        ty = b.local_ty(l)
        if ty.startswith("{closure") or not carries_str(ty):
            continue
        ds = b.defs().get(l, [])
        if not ds:
            return False, "derived from a parameter (%s)" % ty[:40]
        for (bi, si, kind, payload) in ds:
            if kind == "assign":
                ops, places = b.rv_operands(payload["rv"])
                for o in ops:
                    if o.get("c") == "const":
                        n_leaf += 1
                    else:
                        work.append(F.op_base(o))
                for pl in places:
                    work.append(pl["l"])
            elif kind == "call":
                c = [x for x in b.calls() if x.bb == bi][0]
                it = None
                for cand in (c.rdef, c.defn):
                    if cand and cand in fx.items:
                        for i in fx.items[cand]:
                            if i["kind"] in ("Fn", "AssocFn"):
                                it = i
                if it is not None and it.get("output", "").replace(" ", "") == "&'staticstr":
                    n_leaf += 1
                    continue
                if c.is_fn(*ITER_PLUMBING) or c.is_fn("Deref::deref", "AsRef::as_ref", "Borrow::borrow", "Try::branch"):
                    for a in c.args:
                        if a.get("c") == "const":
                            continue
                        work.append(F.op_base(a))
                    continue
                return False, "result of %s" % T.short(c.rdef or c.defn or c.name(), 2)
            else:
                return False, "derived from %s" % kind
    return (n_leaf > 0), "a table of %d static strings walked by an iterator" % n_leaf


def _static_param(fx, b, idx, depth):
    try:
        it = fx.fn_item(b.name)
    except F.AnchorLost:
        return False, "parameter of %s" % T.short(b.name, 2)
    ins = it.get("inputs", [])
    if idx - 1 < len(ins) and ins[idx - 1].replace(" ", "") == "&'staticstr":
        return True, "parameter declared &'static str"
    if not it.get("vis", "").startswith("Restricted"):
        return False, "parameter of the public fn %s" % T.short(b.name, 2)
    sites = []
    for n2, b2 in fx.mir.items():
        if b2.crate not in CRATES or "::tests::" in n2:
            continue
        for c in b2.calls():
            if not c.macro and (c.rdef == b.name or c.defn == b.name or T.strip_generics(c.defn) == T.strip_generics(b.name)):
                sites.append((b2, c))
    if not sites:
        return False, "parameter of %s, which has no visible caller" % T.short(b.name, 2)
    for (b2, c) in sites:
        if idx - 1 >= len(c.args):
            return False, "call of %s with too few arguments" % T.short(b.name, 2)
        ok, w = static_str(fx, b2, c.args[idx - 1], depth + 1)
        if not ok:
            return False, "%s is called with a non-static name in %s (%s)" % (T.short(b.name, 2), T.short(b2.name, 2), w)
    return True, "parameter of private %s; all %d call sites pass static names" % (T.short(b.name, 2), len(sites))


def check_attribute(chk, fx, name, b, c):
    g = c.gargs[-1] if c.gargs else ""
    l = F.op_base(c.args[1])
    fn = T.strip_generics(name)
    if g.replace(" ", "") == "(&str,&str)":
        # tuple aggregate (key, value): key static
        org = b.backward_origins(l, through_call=lambda x: False)
        aggs = [o for o in org if o["k"] == "agg" and o["rv"].get("tuple")]
        ok, why = (False, "attribute pair of unrecognised origin")
        if aggs:
            ok, why = static_str(fx, b, aggs[0]["rv"]["fields"][0])
        chk.instance("C10/R1", "attribute key is static (%s); value is escaped by Attribute::from((&str,&str))" % why, name, c.loc(), holds=ok,
                     key="C10/R1 dynamic-attribute-key in %s" % fn)
        return
    if "[u8]" in g:
        chk.instance("C10/R2", "attribute built from a byte-slice pair is stored verbatim", name, c.loc(), holds=False, key="C10/R2 raw-attribute-pair in %s" % fn)
        return
    # impl Into<Attribute>: produced by an `as_attribute()` implementation — each is checked where it is defined
    org = b.backward_origins(l, through_call=lambda x: False)
    srcs = [o["call"] for o in org if o["k"] == "call" and o["call"] is not None]
    ok = bool(srcs) and all(x.is_fn("AsAttribute::as_attribute") for x in srcs)
    chk.instance("C10/R2", "attribute comes from an AsAttribute impl (audited at its definition)", name, c.loc(), holds=ok,
                 key="C10/R2 attribute-of-unknown-origin in %s" % fn)


def attr_literal_key(fx, b, s):
    f = s["rv"]["fields"][0]
    o = b.backward_origins(F.op_base(f), through_call=lambda c: c.is_fn("Into::into", "From::from", "QName", "str::<impl str>::as_bytes")) if F.op_base(f) is not None else []
    txt = None
    for x in o:
        if x["k"] == "const":
            v = x["op"].get("v") or ""
            txt = v.replace("const ", "").strip('b"')
    return txt is not None, txt


def escaped_text(fx, b, op, depth=0):
    l = F.op_base(op)
    if l is None:
        return False, "constant"
    org = b.backward_origins(l, through_call=lambda c: c.is_fn("BytesText::<'a>::into_owned", "Into::into", "Clone::clone"))
    srcs = [o["call"] for o in org if o["k"] == "call" and o["call"] is not None]
    if not srcs:
        return False, "no constructor call found"
    why = []
    for c in srcs:
        if c.is_fn("BytesText::<'a>::new"):
            why.append("BytesText::new")
            continue
        tgt = c.rdef or c.defn
        body = fx.mir.get(tgt)
        if body is not None and depth < 3:
            # a workspace helper returning BytesText: its return value must come from BytesText::new
            o2 = body.backward_origins(0, through_call=lambda x: x.is_fn("BytesText::<'a>::into_owned", "Into::into"))
            s2 = [o["call"] for o in o2 if o["k"] == "call" and o["call"] is not None]
            if s2 and all(x.is_fn("BytesText::<'a>::new") for x in s2):
                why.append("%s -> BytesText::new" % T.short(tgt, 2))
                continue
        return False, "constructed by %s" % T.short(c.name(), 2)
    return True, ", ".join(sorted(set(why)))


def r3_delimiter(ctx, chk, fx):
    from . import c06
    sub = Check("C06", ctx.tier)
    c06.sender(sub, fx)
    for i in sub.instances:
        if i["rule"] == "C06/R5":
            chk.instance("C10/R3", i["what"], i["fn"], i.get("at"), holds=i["verdict"] == "holds", key="C10/R3 " + i["what"][:60])
    b = fx.body("netconf::message::ClientMsg::to_xml")
    fu = b.calls_to("String::from_utf8", user_only=True)
    # validated: the String returned is the checked conversion's Ok payload (through `?`, map_err, or returned as is), never a lossy / unchecked one
    from vlib import absint as A
    paths = A.Interp(fx, crates=("netconf",), no_inline=("WriteXml::write_xml",)).explore("netconf::message::ClientMsg::to_xml")
    oks = [p for p in paths if A.is_res(p.ret) and p.ret[2] == "Ok"]
    ok = len(fu) == 1 and bool(oks) and all(A.vstr(A.payload0(p.ret)).startswith("String::from_utf8(") and A.vstr(A.payload0(p.ret)).endswith("→Ok.0") for p in oks) \
        and not b.calls_to("String::from_utf8_lossy", "String::from_utf8_unchecked", "str::from_utf8_unchecked")
    chk.instance("C10/R3", "to_xml validates UTF-8 (the returned String is String::from_utf8(buf)'s Ok payload)", b.name, fu[0].loc() if fu else None, holds=ok, key="C10/R3 to_xml utf8")
    # AsAttribute impls: each returns a literal pair or an audited Attribute literal
    n = 0
    for name, t in sorted(fx.thir.items()):
        if not name.endswith("::as_attribute") or "AsAttribute>" not in name:
            continue
        n += 1
        body = T.peel(T.user_body(t))
        txt = X.ntext(body)
        if body.get("k") == "Tuple" and len(body["fields"]) == 2:
            k0 = T.peel(body["fields"][0])
            ok = k0.get("k") == "Lit" and "str" in (T.peel(body["fields"][1]).get("ty") or body["fields"][1].get("ty") or "str")
            chk.instance("C10/R1", "%s returns (%s, <&str>) — escaped pair with a literal key" % (R.short_fn(name), T.expr_str(k0)), name, loc_of(t.get("sp")),
                         holds=ok, key="C10/R1 as_attribute-key %s" % T.strip_generics(name))
        else:
            lit = [a for a in T.find(body, "Adt") if a["adt"].endswith("attributes::Attribute")]
            chk.instance("C10/R2", "%s builds an Attribute literal (checked as a raw sink)" % R.short_fn(name), name, loc_of(t.get("sp")), holds=bool(lit),
                         key="C10/R2 as_attribute-form %s" % T.strip_generics(name))
    chk.floor("C10 AsAttribute impls", n, 9)


# ---------------------------------------------------------------------------------------------
PRESERVING_CONV = ("RiStr::new", "RiString::as_slice", "AsRef::as_ref", "Into::into", "From::from", "ToOwned::to_owned", "ToString::to_string", "String::as_str",
                   "Deref::deref", "Clone::clone", "Borrow::borrow", "Arc::from", "Box::from", "str::to_string", "str::to_owned", "String::from", "Cow::into_owned",
                   "TryFrom::try_from", "TryInto::try_into", "str::as_ref", "UriStr::new", "RiStr::as_str", "RiString::as_str")


def r4_values_stored_unchanged(chk, fx):
    """'.. and carry the caller's values unchanged': a validating constructor of a value that is later serialised stores what it was
    given, not a rewritten form of it.  Url::try_new (the <url> of edit-config / copy-config / delete-config / validate): on every Ok
    path the stored string is the parameter itself through representation-preserving conversions only — no normalisation, case
    folding, trimming, decoding."""
    from vlib import absint as A
    name = "netconf::message::rpc::operation::Url::try_new"
    if name not in fx.thir:
        raise F.AnchorLost("Url::try_new not found")
    chk.analysed(name)
    n = 0
    for p in A.Interp(fx, crates=("netconf",)).explore(name):
        if p.end == "abort" or not (A.is_res(p.ret) and p.ret[2] == "Ok"):
            continue
        url = A.payload0(p.ret)
        for f, v in (url[3] if url[0] == "adt" else ()):
            n += 1
            x, chain = v, []
            for _ in range(12):
                if x[0] == "term" and x[2]:
                    chain.append(T.short(x[1], 2))
                    x = x[2][0]
                elif x[0] in ("payload", "field"):
                    x = x[1]
                else:
                    break
            foreign = [c for c in chain if c not in PRESERVING_CONV]
            ok = x[0] == "sym" and x[1].startswith("param:") and not foreign
            chk.instance("C10/R4", "Url::try_new stores the string it was given (%s)" % (" <- ".join(chain) or "as is"), name, loc_of(fx.thir[name].get("sp")), holds=ok,
                         key="C10/R4 Url::try_new stores-a-rewritten-value", detail=None if ok else "the <url> sent is %s of the caller's URL" % (foreign or [A.vstr(x)[:40]]))
    chk.floor("C10/R4 Ok paths of Url::try_new", n, 1)


# ---------------------------------------------------------------------------------------------
VALUE_PARAM_TYPES = ("std::string::String", "&str", "&'", "std::option::Option<netconf::message::rpc::operation::Token>", "netconf::message::rpc::operation::Token",
                     "std::option::Option<netconf::message::rpc::operation::Filter>", "netconf::message::rpc::operation::Filter", "std::option::Option<S>")


def r5_setters_store_unchanged(chk, fx):
    """The same for every public setter of an operation builder: where the value a caller hands in shows up in what the setter returns,
    it got there through constructors and representation-preserving conversions only.  A setter that filters, trims, folds or
    re-encodes its argument ("sanitising" a log message, normalising a token) sends something else than what the caller said.
    Decided on the explored paths of each setter; a parameter that does not show up in the result (stored through a helper the
    interpreter does not follow) is not decided here — the count of decided parameters is reported and floored."""
    from vlib import absint as A
    names = sorted(it["qdef"] for it in fx.item_list if it.get("kind") == "AssocFn" and it.get("crate") == "netconf" and "::operation::" in it["qdef"]
                   and "Builder" in it["qdef"] and " as " not in it["qdef"] and str(it.get("vis", "")).startswith("Public") and it["qdef"] in fx.thir)
    decided = 0
    for n in names:
        it = fx.fn_item(n)
        params = it.get("params") or []
        inputs = it.get("inputs") or []
        if len(params) != len(inputs) or len(params) < 2:
            continue
        cand = [pn for pn, ty in zip(params[1:], inputs[1:]) if pn and (ty in ("S", "M", "D", "T") or ty.startswith(VALUE_PARAM_TYPES))]
        if not cand:
            continue
        try:
            paths = [p for p in A.Interp(fx, crates=("netconf",), max_paths=400).explore(n) if p.end != "abort" and p.ret is not None]
        except A.Undecided:
            continue
        for pn in cand:
            sym = ("sym", "param:%s" % pn)
            seen, foreign = False, []
            for p in paths:
                if A.is_res(p.ret) and p.ret[2] == "Err":
                    continue
                for x in A.walk_value(p.ret):
                    if x[0] == "term" and A.mentions(x, lambda y: y == sym):
                        seen = True
                        f = T.short(x[1], 2)
                        if f not in PRESERVING_CONV and f not in ("RiStr::new", "Url::try_new", "elem") and not f.endswith(("::try_use", "::try_new")):
                            foreign.append(f)
                    elif x == sym:
                        seen = True
            if not seen:
                continue
            decided += 1
            chk.instance("C10/R5", "%s stores `%s` as given" % (T.short(n, 3), pn), n, loc_of(fx.thir[n].get("sp")), holds=not foreign,
                         key="C10/R5 %s stores-a-rewritten-value %s" % (T.short(T.strip_generics(n), 3), pn),
                         detail=None if not foreign else "what is sent is %s of the caller's value" % sorted(set(foreign))[:4])
    chk.floor("C10/R5 setter parameters decided", decided, 3)


# ---------------------------------------------------------------------------------------------
def r6_emission_independent_of_text(chk, fx):
    """Whether a parameter is written is decided by whether the caller set it — not by what its text looks like.  A writer that leaves an
    element out because the caller's string is empty, blank, or "looks like a default" sends a different request (an absent <filter>
    selects everything, an empty one nothing).  Over the explored paths of every operation's write_xml: no branch condition is a
    function of the *text* of a value held in self (str / String methods over a field of self)."""
    from vlib import absint as A
    names = sorted(n for n in fx.thir if n.endswith("as netconf::message::WriteXml>::write_xml") and "::operation::" in n and "{closure" not in n and "::tests::" not in n)
    n_ok = 0
    for n in names:
        def hook(fn, args, node, interp):
            # the children of an element are written by the closure handed to write_inner_content: run it
            if T.short(fn, 2) == "ElementWriter::write_inner_content" and len(args) == 2:
                return interp.apply(args[1], [("sym", "WRITER")], node, 0)
            return None
        try:
            paths = A.Interp(fx, hook=hook, crates=("netconf",), max_paths=1500).explore(n)
        except A.Undecided:
            continue
        n_ok += 1
        bad = sorted({k for p in paths for k, v in p.assume.items()
                      if isinstance(v, bool) and "«param:self»" in k and ("str::" in k or "String::" in k or "char::" in k)})
        chk.instance("C10/R6", "%s: what is written does not depend on the text of a caller's value" % T.short(n, 3).replace("message::", ""), n, loc_of(fx.thir[n].get("sp")),
                     holds=not bad, key="C10/R6 %s emission-depends-on-text" % T.short(T.strip_generics(n), 4),
                     detail=None if not bad else "branches on %s" % bad[0][:120])
    chk.floor("C10/R6 operation writers explored", n_ok, 15)
