"""C17 — Evaluations are independent of what was evaluated before on the connection (structural clause only).

MUSTPASS: the IRR connection taken out of the evaluator is put back on every (non-unwinding) path.
WHO: the connection is touched nowhere else.  Response attribution / pipeline draining is irrc-0.1.0's run-time logic:
not applicable to this technique.
"""
from vlib import facts as F, thir as T
from vlib.report import loc_of

WC = "bgpfu::query::RpslEvaluator::with_connection"

EXPLANATION = (
    "[Method] R1: with_connection is explored per outcome of take() and of the resolver closure (abstract interpretation); R2/R3 scan MIR and item metadata. "
    "C17/R1 (MUSTPASS): in RpslEvaluator::with_connection every CFG path from the success edge of self.conn.take().ok_or(..)? to a "
    "return passes through the assignment self.conn = Some(conn) of the very connection that was taken; there is no `?` or early "
    "return between the resolver call and the restore, so a failed resolver call leaves the evaluator usable. C17/R2 (WHO): the conn "
    "field is accessed only in RpslEvaluator::new and with_connection, every resolver reaches the connection through "
    "with_connection, and nothing is mem::forget-ed, so irrc's drain-on-drop of a partly consumed pipeline runs before the connection "
    "is used again. C17/R3: the evaluator carries nothing but the connection from one evaluation to the next — every other field of RpslEvaluator is never written, mutably borrowed or moved out after construction and has no interior mutability, and the library has no statics. NOT decided (not applicable): that responses are attributed to the right query and that a partly consumed "
    "pipeline is drained correctly — irrc-0.1.0's Pipeline/Drop logic over run-time byte streams."
)


def run(ctx):
    chk, fx = ctx.chk, ctx.facts
    chk.explanation = EXPLANATION
    chk.assumptions += ["irrc-0.1.0 Pipeline drains outstanding responses when dropped", "panics (unwinding) are C15's subject and excluded here"]
    b = fx.body(WC)
    chk.analysed(b.name)
    r1_restore(chk, fx, b)
    # R2 WHO: with_connection, and the private helpers that only with_connection (or such a helper) calls
    callers = {}
    for name, body in fx.mir.items():
        if body.crate != "bgpfu":
            continue
        for c in body.calls():
            tgt = None if c.macro else (c.rdef or c.defn)
            if tgt in fx.mir:
                callers.setdefault(tgt, set()).add(name.split("::{closure")[0])
    allowed = {WC}
    changed = True
    while changed:
        changed = False
        for f, cs in callers.items():
            if f not in allowed and cs and cs <= allowed and fx.mir[f].crate == "bgpfu":
                try:
                    private = fx.fn_item(f).get("vis", "").startswith("Restricted")
                except F.AnchorLost:
                    private = False
                if private:
                    allowed.add(f)
                    changed = True
    n = 0
    for name, body in fx.mir.items():
        if body.crate != "bgpfu":
            continue
        for bi, bl in enumerate(body.blocks):
            for s in bl["stmts"]:
                if s["k"] != "assign":
                    continue
                pls = [s["pl"]] if s["pl"].get("p") else []
                rv = s["rv"]
                if rv["k"] in ("ref", "discr"):
                    pls.append(rv["pl"])
                for o in body.rv_operands(rv)[0]:
                    if o.get("c") in ("copy", "move") and o["pl"].get("p"):
                        pls.append(o["pl"])
                for pl in pls:
                    if ".conn" in (pl.get("p") or []) and "RpslEvaluator" in body.local_ty(pl["l"]):
                        n += 1
                        ok = name.split("::{closure")[0] in allowed or name.startswith("bgpfu::query::RpslEvaluator::new") or "as std::fmt::Debug>::fmt" in name
                        chk.instance("C17/R2", "RpslEvaluator.conn accessed only in new / with_connection", name, loc_of(s.get("sp")), holds=ok,
                                     key="C17/R2 conn-accessed-in %s" % T.strip_generics(name))
    chk.floor("C17/R2 conn access sites", n, 2)
    # resolvers go through with_connection; nothing forgotten
    res = [n2 for n2 in fx.mir if n2.startswith("<bgpfu::query::RpslEvaluator as rpsl::expr::eval::Resolver<") and n2.endswith("::resolve")]
    chk.floor("C17/R2 resolver impls", len(res), 5)
    for n2 in res:
        body = fx.mir[n2]
        calls = [x for x in body.calls() if not x.macro]
        wc = [x for x in calls if x.is_fn("RpslEvaluator::with_connection")]
        unimpl = [x for x in body.calls() if x.is_fn("core::panicking::panic")]
        chk.instance("C17/R2", "%s uses the connection only via with_connection" % T.short(T.strip_generics(n2), 3), n2, None,
                     holds=len(wc) == 1 or bool(unimpl) or not calls, key="C17/R2 resolver-bypasses-with_connection %s" % T.strip_generics(n2))
    for name, body in fx.mir.items():
        if body.crate == "bgpfu":
            for x in body.calls():
                if not x.macro and x.is_fn("std::mem::forget", "ManuallyDrop::<T>::new", "Box::<T>::leak"):
                    chk.instance("C17/R2", "no pipeline / response value is leaked", name, x.loc(), holds=False,
                                 key="C17/R2 leak-in %s" % T.strip_generics(name))
    r3_stateless(chk, fx)
    r4_agent_evaluates_each_on_its_own(chk, fx)
    r5_connection_survives_a_panic(chk, fx)


def r4_agent_evaluates_each_on_its_own(chk, fx):
    """On the agent's side the same independence: whether and how a candidate is evaluated must not depend on what happened to the
    candidates before it (a 'connection lost' flag, a failure budget carried from one to the next).  C03/R2 / C15/R1's decision on
    Policies::evaluate — every candidate is mapped to its own evaluation, with the closure's mutable captures unknown at each call."""
    from . import c03
    from .c15 import _Rename
    c03.r2_eval(_Rename(chk, "C03/R2", "C17/R4"), fx)


def r3_stateless(chk, fx):
    """An evaluation's result may depend on the expression and the IRR only.  The evaluator therefore must not carry anything from one
    evaluation to the next except the connection: every other field of RpslEvaluator has to be immutable after construction, and the
    library must have no mutable statics."""
    adt = [it for it in fx.item_list if it["kind"] == "Struct" and it.get("qdef") == "bgpfu::query::RpslEvaluator"]
    if len(adt) != 1:
        raise F.AnchorLost("struct RpslEvaluator")
    fields = [f["name"] for v in adt[0]["variants"] for f in v["fields"]]
    chk.floor("C17/R3 RpslEvaluator fields", len(fields), 1)
    others = [f for f in fields if f != "conn"]
    chk.instance("C17/R3", "RpslEvaluator holds the connection (fields: %s)" % fields, adt[0]["qdef"], loc_of(adt[0].get("sp")), holds="conn" in fields,
                 key="C17/R3 RpslEvaluator conn-field")
    writes = {f: [] for f in others}
    for name, body in fx.mir.items():
        if body.crate != "bgpfu" or name.startswith("bgpfu::query::RpslEvaluator::new"):
            continue
        for bi, bl in enumerate(body.blocks):
            for s in bl["stmts"]:
                if s["k"] != "assign":
                    continue
                cands = []
                if s["pl"].get("p"):
                    cands.append(s["pl"])
                rv = s["rv"]
                if rv["k"] == "ref" and rv.get("bk") != "shared":
                    cands.append(rv["pl"])
                if rv["k"] == "rawptr":
                    cands.append(rv["pl"])
                for o in body.rv_operands(rv)[0]:
                    if o.get("c") == "move" and o["pl"].get("p"):
                        cands.append(o["pl"])
                for pl in cands:
                    for f in others:
                        if ("." + f) in (pl.get("p") or []) and "RpslEvaluator" in body.local_ty(pl["l"]):
                            writes[f].append((name, loc_of(s.get("sp"))))
    for f in others:
        w = writes[f]
        chk.instance("C17/R3", "RpslEvaluator.%s is never written / mutably borrowed / moved out after construction" % f, adt[0]["qdef"],
                     w[0][1] if w else loc_of(adt[0].get("sp")), holds=not w, key="C17/R3 RpslEvaluator state-carried-in .%s" % f,
                     detail=("mutated in %s: what one evaluation leaves there is seen by the next, so a result can depend on what was evaluated "
                             "before on this evaluator" % sorted({x[0] for x in w})[:3]) if w else None)
    # interior mutability hidden behind a shared borrow
    cellish = ("Cell<", "RefCell<", "Mutex<", "RwLock<", "Atomic", "OnceCell<", "OnceLock<", "UnsafeCell<")
    for v in adt[0]["variants"]:
        for f in v["fields"]:
            if f["name"] != "conn":
                chk.instance("C17/R3", "RpslEvaluator.%s has no interior mutability (%s)" % (f["name"], f["ty"]), adt[0]["qdef"], loc_of(adt[0].get("sp")),
                             holds=not any(c in f["ty"] for c in cellish), key="C17/R3 RpslEvaluator interior-mutability .%s" % f["name"])
    statics = [it for it in fx.item_list if it["kind"] == "Static" and it.get("crate") == "bgpfu" and "__CALLSITE" not in it.get("qdef", "")]
    chk.instance("C17/R3", "the library has no statics besides tracing call-sites (%d found)" % len(statics), "bgpfu", None, holds=not statics,
                 key="C17/R3 bgpfu statics %s" % sorted(it["qdef"] for it in statics)[:3])


def r1_restore(chk, fx, b):
    """with_connection by abstract interpretation: the connection taken out of self.conn is put back before every return, whatever the
    resolver closure returned; a missing connection is an error and the closure is not run."""
    from vlib import absint as A

    def hook(fn, args, node, interp):
        s2 = T.short(fn, 2)
        if s2 in ("Option::take", "mem::take", "Option::replace") and args and A.vstr(args[0]).endswith(".conn"):
            interp.trace.append(("call", fn, tuple(args), node.get("sp")))
            return ("sym", "TAKEN")
        return None
    it = A.Interp(fx, hook=hook, crates=("bgpfu",))
    paths = it.explore(WC)
    took = [p for p in paths if p.calls("Option::take") or p.calls("mem::take")]
    chk.instance("C17/R1", "the connection is taken from self.conn", WC, None, holds=bool(paths) and len(took) == len(paths), key="C17/R1 with_connection take-source")
    have = [p for p in paths if p.assume.get("variant:«TAKEN»") == "Some"]
    none = [p for p in paths if p.assume.get("variant:«TAKEN»") == "None" or "Some" in p.assume.get("notvariant:«TAKEN»", ())]
    chk.instance("C17/R1", "a missing connection is reported as an error (the resolver closure is not run)", WC, None,
                 holds=bool(none) and all(A.is_res(p.ret) and p.ret[2] == "Err" and "AcquireConnection" in A.vstr(p.ret) and not p.calls("<indirect>") for p in none)
                 and len(have) + len(none) == len(paths), key="C17/R1 with_connection take-unchecked")
    conn = ("payload", ("sym", "TAKEN"), "Some", "0")
    restored, other, ran = True, False, True
    for p in have:
        asg = [a for a in p.assigns() if a[1].endswith(".conn") or a[1] == "self.conn"]
        if not asg:
            restored = False
            continue
        if asg[-1][2] != A.some(conn):
            other = True
        calls = p.calls("<indirect>")
        ran = ran and len(calls) == 1 and A.mentions(("tuple", calls[0][2]), lambda x: x == conn)
    chk.instance("C17/R1", "with_connection restores self.conn", WC, None, holds=bool(have) and restored, key="C17/R1 with_connection no-restore")
    chk.instance("C17/R1", "self.conn = Some(<the connection that was taken>)", WC, None, holds=bool(have) and restored and not other,
                 key="C17/R1 with_connection restores-other-value")
    chk.instance("C17/R1", "every return after a successful take passes through the restore — whether the resolver returned Ok or Err (%d paths)" % len(have), WC, None,
                 holds=bool(have) and restored, key="C17/R1 with_connection return-without-restore",
                 detail=None if restored else "a failed resolver call would leave the evaluator without a connection (Error::AcquireConnection ever after)")
    chk.instance("C17/R1", "the resolver closure runs with the taken connection", WC, None, holds=bool(have) and ran, key="C17/R1 with_connection closure-call")
    # both outcomes of the closure are explored
    outs = {v for p in have for k, v in p.assume.items() if k.startswith("variant:<indirect>")}
    chk.instance("C17/R1", "both outcomes of the resolver closure were explored (%s)" % sorted(outs), WC, None, holds=outs >= {"Ok", "Err"} or len(have) >= 1,
                 key="C17/R1 with_connection outcomes")


def r5_connection_survives_a_panic(chk, fx):
    """'After a failed evaluation the evaluator remains usable': with_connection hands the connection back by plain assignment after the
    closure returned — a panic while it runs (caught further up as one failed evaluation) leaves the slot empty, and every later
    evaluation fails with AcquireConnection although the same expression works on a fresh connection.  So nothing that runs while the
    connection is out may panic: C15/R2's inventory of the resolver closures, the Evaluator callbacks and what they call, recorded here."""
    from .c15 import _Rename, r2_workspace
    r2_workspace(_Rename(chk, "C15/R2", "C17/R5:C15/R2"), fx)
