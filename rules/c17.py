"""C17 — Evaluations are independent of what was evaluated before on the connection (structural clause only).

MUSTPASS: the IRR connection taken out of the evaluator is put back on every (non-unwinding) path.
WHO: the connection is touched nowhere else.  Response attribution / pipeline draining is irrc-0.1.0's run-time logic:
not applicable to this technique.
"""
from vlib import facts as F, thir as T
from vlib.report import loc_of

WC = "bgpfu::query::RpslEvaluator::with_connection"

EXPLANATION = (
    "C17/R1 (MUSTPASS): in RpslEvaluator::with_connection every CFG path from the success edge of self.conn.take().ok_or(..)? to a "
    "return passes through the assignment self.conn = Some(conn) of the very connection that was taken; there is no `?` or early "
    "return between the resolver call and the restore, so a failed resolver call leaves the evaluator usable. C17/R2 (WHO): the conn "
    "field is accessed only in RpslEvaluator::new and with_connection, every resolver reaches the connection through "
    "with_connection, and nothing is mem::forget-ed, so irrc's drain-on-drop of a partly consumed pipeline runs before the connection "
    "is used again. C17/R3: the evaluator carries nothing but the connection from one evaluation to the next — every other field of RpslEvaluator is never written, mutably borrowed or moved out after construction and has no interior mutability, and the library has no statics. NOT decided (not applicable): that responses are attributed to the right query and that a partly consumed "
    "pipeline is drained correctly — irrc-0.1.0's Pipeline/Drop logic over run-time byte streams."
)


def run(ctx):
    chk, fx = ctx.chk, ctx.facts
    chk.explanation = EXPLANATION
    chk.assumptions += ["irrc-0.1.0 Pipeline drains outstanding responses when dropped", "panics (unwinding) are C15's subject and excluded here"]
    b = fx.body(WC)
    chk.analysed(b.name)
    takes = b.calls_to("Option::<T>::take", user_only=True)
    if len(takes) != 1:
        raise F.AnchorLost("with_connection: expected one Option::take")
    tk = takes[0]
    org = b.backward_origins(F.op_base(tk.args[0]), through_call=lambda c: False)
    ok = any(o["k"] == "place" and (o["pl"].get("p") or [])[-1:] == [".conn"] for o in org)
    chk.instance("C17/R1", "the connection is taken from self.conn", b.name, tk.loc(), holds=ok, key="C17/R1 with_connection take-source")
    e = b.ok_edge_of(tk)
    if e is None:
        chk.instance("C17/R1", "a missing connection is reported as an error (`?`)", b.name, tk.loc(), holds=False,
                     key="C17/R1 with_connection take-unchecked")
        return
    c, cont, brk = e
    conn_locals = b.forward_taint([c.dest["l"]], through_call=lambda x: False)
    # restore sites: (*self).conn = Some(move conn)
    restores = []
    for bi, bl in enumerate(b.blocks):
        if bl.get("cleanup"):
            continue
        for s in bl["stmts"]:
            if s["k"] == "assign" and (s["pl"].get("p") or [])[-1:] == [".conn"]:
                rv = s["rv"]
                val = None
                if rv["k"] == "agg" and rv.get("variant") == "Some":
                    val = F.op_base(rv["fields"][0])
                elif rv["k"] == "use":
                    o = b.backward_origins(F.op_base(rv["op"]), through_call=lambda x: False)
                    for x in o:
                        if x["k"] == "agg" and x["rv"].get("variant") == "Some":
                            val = F.op_base(x["rv"]["fields"][0])
                restores.append((bi, s, val))
    chk.instance("C17/R1", "with_connection restores self.conn", b.name, None, holds=bool(restores), key="C17/R1 with_connection no-restore")
    good = [bi for (bi, s, val) in restores if val in conn_locals]
    for (bi, s, val) in restores:
        chk.instance("C17/R1", "self.conn = Some(<the connection that was taken>)", b.name, loc_of(s.get("sp")), holds=val in conn_locals,
                     key="C17/R1 with_connection restores-other-value")
    reach = b.reachable(cont, avoid=good)
    rets = [r for r in b.returns() if r in reach]
    chk.instance("C17/R1", "every return after a successful take passes through the restore", b.name, tk.loc(), holds=not rets,
                 key="C17/R1 with_connection return-without-restore",
                 detail="a failed resolver call would leave the evaluator without a connection (Error::AcquireConnection ever after)" if rets else None)
    # the user closure is called between take and restore
    calls_f = [x for x in b.calls() if not x.macro and x.is_fn("Fn::call", "FnMut::call_mut", "FnOnce::call_once")]
    chk.instance("C17/R1", "the resolver closure runs with the taken connection", b.name, calls_f[0].loc() if calls_f else None,
                 holds=len(calls_f) == 1 and b.dominates(cont, calls_f[0].bb), key="C17/R1 with_connection closure-call")
    # R2 WHO
    n = 0
    for name, body in fx.mir.items():
        if body.crate != "bgpfu":
            continue
        for bi, bl in enumerate(body.blocks):
            for s in bl["stmts"]:
                if s["k"] != "assign":
                    continue
                pls = [s["pl"]] if s["pl"].get("p") else []
                rv = s["rv"]
                if rv["k"] in ("ref", "discr"):
                    pls.append(rv["pl"])
                for o in body.rv_operands(rv)[0]:
                    if o.get("c") in ("copy", "move") and o["pl"].get("p"):
                        pls.append(o["pl"])
                for pl in pls:
                    if ".conn" in (pl.get("p") or []) and "RpslEvaluator" in body.local_ty(pl["l"]):
                        n += 1
                        ok = name == WC or name.startswith("bgpfu::query::RpslEvaluator::new") or "as std::fmt::Debug>::fmt" in name
                        chk.instance("C17/R2", "RpslEvaluator.conn accessed only in new / with_connection", name, loc_of(s.get("sp")), holds=ok,
                                     key="C17/R2 conn-accessed-in %s" % T.strip_generics(name))
    chk.floor("C17/R2 conn access sites", n, 2)
    # resolvers go through with_connection; nothing forgotten
    res = [n2 for n2 in fx.mir if n2.startswith("<bgpfu::query::RpslEvaluator as rpsl::expr::eval::Resolver<") and n2.endswith("::resolve")]
    chk.floor("C17/R2 resolver impls", len(res), 5)
    for n2 in res:
        body = fx.mir[n2]
        calls = [x for x in body.calls() if not x.macro]
        wc = [x for x in calls if x.is_fn("RpslEvaluator::with_connection")]
        unimpl = [x for x in body.calls() if x.is_fn("core::panicking::panic")]
        chk.instance("C17/R2", "%s uses the connection only via with_connection" % T.short(T.strip_generics(n2), 3), n2, None,
                     holds=len(wc) == 1 or bool(unimpl) or not calls, key="C17/R2 resolver-bypasses-with_connection %s" % T.strip_generics(n2))
    for name, body in fx.mir.items():
        if body.crate == "bgpfu":
            for x in body.calls():
                if not x.macro and x.is_fn("std::mem::forget", "ManuallyDrop::<T>::new", "Box::<T>::leak"):
                    chk.instance("C17/R2", "no pipeline / response value is leaked", name, x.loc(), holds=False,
                                 key="C17/R2 leak-in %s" % T.strip_generics(name))
    r3_stateless(chk, fx)


def r3_stateless(chk, fx):
    """An evaluation's result may depend on the expression and the IRR only.  The evaluator therefore must not carry anything from one
    evaluation to the next except the connection: every other field of RpslEvaluator has to be immutable after construction, and the
    library must have no mutable statics."""
    adt = [it for it in fx.item_list if it["kind"] == "Struct" and it.get("qdef") == "bgpfu::query::RpslEvaluator"]
    if len(adt) != 1:
        raise F.AnchorLost("struct RpslEvaluator")
    fields = [f["name"] for v in adt[0]["variants"] for f in v["fields"]]
    chk.floor("C17/R3 RpslEvaluator fields", len(fields), 1)
    others = [f for f in fields if f != "conn"]
    chk.instance("C17/R3", "RpslEvaluator holds the connection (fields: %s)" % fields, adt[0]["qdef"], loc_of(adt[0].get("sp")), holds="conn" in fields,
                 key="C17/R3 RpslEvaluator conn-field")
    writes = {f: [] for f in others}
    for name, body in fx.mir.items():
        if body.crate != "bgpfu" or name.startswith("bgpfu::query::RpslEvaluator::new"):
            continue
        for bi, bl in enumerate(body.blocks):
            for s in bl["stmts"]:
                if s["k"] != "assign":
                    continue
                cands = []
                if s["pl"].get("p"):
                    cands.append(s["pl"])
                rv = s["rv"]
                if rv["k"] == "ref" and rv.get("bk") != "shared":
                    cands.append(rv["pl"])
                if rv["k"] == "rawptr":
                    cands.append(rv["pl"])
                for o in body.rv_operands(rv)[0]:
                    if o.get("c") == "move" and o["pl"].get("p"):
                        cands.append(o["pl"])
                for pl in cands:
                    for f in others:
                        if ("." + f) in (pl.get("p") or []) and "RpslEvaluator" in body.local_ty(pl["l"]):
                            writes[f].append((name, loc_of(s.get("sp"))))
    for f in others:
        w = writes[f]
        chk.instance("C17/R3", "RpslEvaluator.%s is never written / mutably borrowed / moved out after construction" % f, adt[0]["qdef"],
                     w[0][1] if w else loc_of(adt[0].get("sp")), holds=not w, key="C17/R3 RpslEvaluator state-carried-in .%s" % f,
                     detail=("mutated in %s: what one evaluation leaves there is seen by the next, so a result can depend on what was evaluated "
                             "before on this evaluator" % sorted({x[0] for x in w})[:3]) if w else None)
    # interior mutability hidden behind a shared borrow
    cellish = ("Cell<", "RefCell<", "Mutex<", "RwLock<", "Atomic", "OnceCell<", "OnceLock<", "UnsafeCell<")
    for v in adt[0]["variants"]:
        for f in v["fields"]:
            if f["name"] != "conn":
                chk.instance("C17/R3", "RpslEvaluator.%s has no interior mutability (%s)" % (f["name"], f["ty"]), adt[0]["qdef"], loc_of(adt[0].get("sp")),
                             holds=not any(c in f["ty"] for c in cellish), key="C17/R3 RpslEvaluator interior-mutability .%s" % f["name"])
    statics = [it for it in fx.item_list if it["kind"] == "Static" and it.get("crate") == "bgpfu" and "__CALLSITE" not in it.get("qdef", "")]
    chk.instance("C17/R3", "the library has no statics besides tracing call-sites (%d found)" % len(statics), "bgpfu", None, holds=not statics,
                 key="C17/R3 bgpfu statics %s" % sorted(it["qdef"] for it in statics)[:3])
