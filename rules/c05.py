"""C05 — Each RPC caller receives exactly the reply to its own request (structural clauses).

WHO / ORIGIN (message-id freshness, own-slot delivery), TABLE (slot state machine), LOCK (guard live ranges,
lock order), GUARD (two-phase id cross-check).  Scheduling clauses (wake-up order, progress under all
interleavings) are not decided by this family.
"""
from vlib import facts as F, thir as T
from vlib.report import loc_of

SESSION = "netconf::session::Session::<T>"
GUARD_PREFIX = "tokio::sync::MutexGuard<"

EXPLANATION = (
    "[Method] R2/R3: Session::recv is explored once per (own slot state x state of the slot of the reply that is read), take() once per slot state with its stores through &mut modelled; R1/R4/R5 on borrowck-time MIR (origins, dominance, guard live ranges). R1 also: the counter is advanced before the send and no write to it can follow the send; R5 also: the own-slot check happens under the receive lock and the same guard is held until the read. "
    "C05/R1: Request::new is called only in Session::rpc with the value returned by MessageId::increment on "
    "self.last_message_id (the only writer of that field); increment is `self.0 += 1; *self`; rpc takes &mut self and "
    "Session is not Clone, so ids on a session are strictly increasing. C05/R2: in Session::recv the only PartialReply that "
    "reaches Reply::try_from/into_result comes from requests.get_mut(&message_id) with the function's own id followed by "
    "OutstandingRequest::take, and a received reply is parked only in the slot requests.get_mut(&reply.message_id()) of that "
    "same reply; unknown ids take the RequestNotFound error edge. C05/R3: OutstandingRequest::take and the parking match form "
    "the state machine Pending->Ready->Complete with errors on every other transition (no double delivery, no overwrite). "
    "C05/R4: in rpc the requests guard is held from entry() through send().await to insert(Pending), and insert is reachable "
    "only through send's success edge. C05/R5: the held->acquired lock graph over session.rs is acyclic and no requests guard "
    "is held across the transport read. C05/R6: Reply::try_from returns Ok only through the equal-ids edge. Not decided: "
    "fairness of tokio::sync::Mutex, progress under all schedules."
)


def guard_class(ty):
    if not ty.startswith(GUARD_PREFIX):
        return None
    if "OutstandingRequest" in ty:
        return "requests"
    if "RecvHandle" in ty:
        return "rx"
    if "SendHandle" in ty:
        return "tx"
    return "other:" + ty


def held_guards(b, init_set):
    out = {}
    for l in init_set:
        k = guard_class(b.local_ty(l))
        if k:
            out.setdefault(k, []).append(l)
    return out


def run(ctx):
    chk, fx = ctx.chk, ctx.facts
    chk.explanation = EXPLANATION
    chk.assumptions += [
        "tokio::sync::Mutex provides mutual exclusion; HashMap::get_mut(k) returns the entry stored under k",
        "usize message-id overflow (2^64 requests) is out of scope (debug builds assert)",
    ]
    r8_rpc_waits(chk, fx)
    r1_freshness(chk, fx)
    r2_own_slot(chk, fx)
    r3_state_machine(chk, fx)
    r4_r5_locks(chk, fx)
    r6_crosscheck(chk, fx)
    r7_table_integrity(chk, fx)


# ---------------------------------------------------------------------------------------------
RPC_WAIT_OK = ("Mutex::lock", "ClientMsg::send", "Request::send")


def rpc_helpers(fx):
    """Private async helpers of Session::rpc (a `send_and_register` it awaits): [(fn name, user coroutine body)], transitively; recv is
    not one of them (it is the reply future)."""
    b = fx.user_coroutine(SESSION + "::rpc")
    out, seen, work = [], set(), [b]
    while work:
        body = work.pop()
        for c in body.calls():
            tgt = None if c.macro else (c.rdef if (c.rdef or "").startswith(SESSION + "::") else c.defn if (c.defn or "").startswith(SESSION + "::") else None)
            if tgt is None or "::{closure" in tgt or tgt in seen or tgt in (SESSION + "::rpc", SESSION + "::recv"):
                continue
            seen.add(tgt)
            try:
                hb = fx.user_coroutine(tgt)
            except F.AnchorLost:
                continue
            out.append((tgt, hb))
            work.append(hb)
    return out


def r8_rpc_waits(chk, fx):
    """'However many requests are outstanding, no caller is left waiting forever': issuing a request waits for the two locks (held
    only for a bounded piece of work) and for the transport to take the bytes — for nothing whose release depends on *other callers'*
    reply futures being polled (a permit, a quota, a queue slot, a timer).  Who-may-wait rule over the suspension points of
    Session::rpc and of every async block it returns (the reply future's own waits are Session::recv's: C07/R4)."""
    b = fx.user_coroutine(SESSION + "::rpc")
    helpers = rpc_helpers(fx)
    bodies = [b] + [x for n, x in sorted(fx.mir.items()) if n.startswith(b.name + "::{closure#") and x.coroutine] + [hb for (_, hb) in helpers]
    followed = {T.short(T.strip_generics(h), 2) for (h, _) in helpers}
    n = 0
    for body in bodies:
        chk.analysed(body.name)
        for a in body.await_points():
            src = a.get("src")
            what = src.name() if src is not None else ("a future of type %s" % (body.local_ty(F.op_base(a["poll"].args[0])) if a.get("poll") else "?"))
            short = T.short(T.strip_generics(what), 2)
            if short in followed:
                continue          # an async helper of rpc: its own suspension points are in the list
            n += 1
            ok = src is not None and (short in RPC_WAIT_OK or (body is not b and short == "Session::recv"))
            chk.instance("C05/R8", "Session::rpc waits for %s" % short, body.name, src.loc() if src is not None else loc_of(a.get("sp")), holds=ok,
                         key="C05/R8 Session::rpc unaudited-wait %s" % short,
                         detail=None if ok else "a wait whose end depends on other callers: with enough requests outstanding (and their reply futures not yet "
                         "polled) this caller waits for ever although the server answers everything")
    chk.floor("C05/R8 suspension points of Session::rpc", n, 2)


def r1_freshness(chk, fx):
    # WHO: Request::new / Request aggregates
    n = 0
    for name, b in fx.mir.items():
        if b.crate != "netconf":
            continue
        for c in b.calls():
            if c.is_fn("netconf::message::rpc::Request::<O>::new"):
                n += 1
                ok = name.startswith(SESSION + "::rpc::")
                chk.instance("C05/R1", "Request::new called only from Session::rpc", name, c.loc(), holds=ok,
                             key="C05/R1 Request::new-called-in %s" % T.strip_generics(name))
        for (bi, si, s) in b.aggs_of("message::rpc::Request"):
            ok = name == "netconf::message::rpc::Request::<O>::new" or "as std::clone::Clone>::clone" in name
            chk.instance("C05/R1", "Request{..} built only by Request::new", name, loc_of(s.get("sp")), holds=ok,
                         key="C05/R1 Request-literal-in %s" % T.strip_generics(name))
    chk.floor("C05/R1 Request::new call sites", n, 1)
    b = fx.user_coroutine(SESSION + "::rpc")
    chk.analysed(b.name)
    # Request::new is called inside the `.map(|operation| ..)` closure; message_id is captured
    # the id source: the MessageId method applied to self.last_message_id (today: increment(&mut self))
    incs = []
    for c in b.calls():
        if c.macro or not c.args or "MessageId" not in c.defn:
            continue
        org, vis = b.backward_slice(F.op_base(c.args[0]), through_call=lambda c: False)
        if any(o["k"] == "place" and (o["pl"].get("p") or [])[-1:] == [".last_message_id"] for o in org):
            incs.append(c)
    if len(incs) != 1:
        raise F.AnchorLost("Session::rpc: expected exactly one MessageId method applied to self.last_message_id, found %d" % len(incs))
    inc = incs[0]
    chk.instance("C05/R1", "the new id is derived from self.last_message_id (%s)" % T.short(inc.name(), 2), b.name, inc.loc(), holds=True,
                 key="C05/R1 rpc increment-receiver")
    # the counter moves on *before* the request can reach the wire: whatever happens to this call afterwards (failed or abandoned
    # send, cancelled future), the id is never handed out again
    sends0 = b.calls_to("ClientMsg::send", user_only=True)
    sending_helpers = [(h, hb) for (h, hb) in rpc_helpers(fx) if hb.calls_to("ClientMsg::send", user_only=True)]
    if not sends0:
        # the send lives in an async helper rpc awaits: the helper's call site stands for it
        sends0 = [c for c in b.calls() if not c.macro and any(c.rdef == h or c.defn == h for (h, _) in sending_helpers)]
    writes = []
    for bi, bl in enumerate(b.blocks):
        if bl.get("cleanup"):
            continue
        for st in bl["stmts"]:
            if st["k"] != "assign":
                continue
            if (st["pl"].get("p") or [])[-1:] == [".last_message_id"]:
                writes.append(bi)
            if st["rv"]["k"] == "ref" and st["rv"].get("bk") == "mut" and (st["rv"]["pl"].get("p") or [])[-1:] == [".last_message_id"]:
                writes.append(bi)
    after_send = set()
    for sd in sends0:
        after_send |= b.reachable_from_succs(sd.bb)
    ok = bool(sends0) and bool(writes) and all(any(b.dominates(w, sd.bb) and w != sd.bb for w in writes) for sd in sends0) \
        and not any(w in after_send for w in writes)
    chk.instance("C05/R1", "self.last_message_id is advanced before send (a write to it dominates the send; none can follow the send)", b.name, inc.loc(),
                 holds=ok, key="C05/R1 rpc counter-advanced-after-send",
                 detail=None if ok else "a request that reached the wire without the call completing (send error after writing, dropped rpc future) "
                 "leaves the counter where it was: the next request re-uses the message-id")
    mid = b.forward_taint([inc.dest["l"]], through_call=lambda c: False)
    # Request::new may be called in rpc itself or in a closure defined in it (e.g. `.map(|operation| ..)`)
    direct = b.calls_to("Request::<O>::new", user_only=True)
    n_new = 0
    for rn in direct:
        n_new += 1
        chk.instance("C05/R1", "the id given to Request::new is the freshly incremented one", b.name, rn.loc(),
                     holds=F.op_base(rn.args[0]) in mid, key="C05/R1 rpc request-id-origin")
    for bi, bl in enumerate(b.blocks):
        for s in bl["stmts"]:
            if s["k"] == "assign" and s["rv"]["k"] == "agg" and s["rv"].get("closure") and not (s.get("sp") or {}).get("m"):
                cb = fx.mir.get(s["rv"]["closure"])
                if cb is None:
                    continue
                for rn in cb.calls_to("Request::<O>::new"):
                    n_new += 1
                    cap = {F.op_base(f) for f in s["rv"]["fields"]}
                    o2 = cb.backward_origins(F.op_base(rn.args[0]), through_call=lambda c: False)
                    ok = bool(cap & mid) and all(o["k"] in ("place", "arg") for o in o2) and any(o["k"] == "place" for o in o2)
                    chk.instance("C05/R1", "the id given to Request::new (in a closure) is the captured, freshly incremented one",
                                 cb.name, rn.loc(), holds=ok, key="C05/R1 rpc request-id-origin")
    chk.instance("C05/R1", "Session::rpc builds its request with Request::new", b.name, None, holds=n_new >= 1,
                 key="C05/R1 rpc no-Request::new")
    # the same id is used for registration and for the reply future
    ent = b.calls_to("HashMap::<K, V, S>::entry", "HashMap::<K, V, S, A>::entry", "HashMap::<K, V, S>::insert",
                     "HashMap::<K, V, S, A>::insert", user_only=True)
    rcv = b.calls_to(SESSION + "::recv", user_only=True)
    nested = []
    if not rcv:
        # the reply future may be built inside an async block that rpc returns: the id it waits for is then a capture of that block
        for bi, bl in enumerate(b.blocks):
            for st in bl["stmts"]:
                cn = st["rv"].get("coroutine") or st["rv"].get("closure") if st["k"] == "assign" and st["rv"]["k"] == "agg" else None
                cb = fx.mir.get(cn) if cn else None
                if cb is None:
                    continue
                for rc in cb.calls_to(SESSION + "::recv", user_only=True):
                    cap = {F.op_base(f) for f in st["rv"]["fields"]}
                    o2 = cb.backward_origins(F.op_base(rc.args[0]), through_call=lambda c: False)
                    ok = bool(cap & mid) and bool(o2) and all(o["k"] in ("place", "arg", "resume") for o in o2) and any(o["k"] == "place" for o in o2)
                    nested.append((cb, rc, ok))
        if not nested:
            raise F.AnchorLost("Session::rpc: recv() call site")
    elif len(rcv) != 1:
        raise F.AnchorLost("Session::rpc: recv() call site")
    ent_h = []
    if not ent:
        for (h, hb) in sending_helpers:
            for e in hb.calls_to("HashMap::<K, V, S>::entry", "HashMap::<K, V, S, A>::entry", "HashMap::<K, V, S>::insert", "HashMap::<K, V, S, A>::insert", user_only=True):
                # the key is the helper's own parameter (a field of its coroutine state), and rpc hands the fresh id to the helper
                o2 = hb.backward_origins(F.op_base(e.args[1]), through_call=lambda c: False)
                from_param = bool(o2) and all(o["k"] in ("place", "arg", "resume") for o in o2)
                handed = any(F.op_base(a) in mid for c in b.calls() if not c.macro and (c.rdef == h or c.defn == h) for a in c.args)
                ent_h.append((hb, e, from_param and handed))
    chk.instance("C05/R1", "the request is registered in the outstanding-request map", b.name, None, holds=len(ent) + len(ent_h) >= 1,
                 key="C05/R1 rpc not-registered")
    for (hb, e, ok) in ent_h:
        chk.instance("C05/R1", "the request is registered (in %s) under the id rpc hands over" % T.short(T.strip_generics(hb.name), 2), hb.name, e.loc(), holds=ok,
                     key="C05/R1 rpc registered-id")
    for e in ent:
        chk.instance("C05/R1", "the request is registered under its own id", b.name, e.loc(), holds=F.op_base(e.args[1]) in mid,
                     key="C05/R1 rpc registered-id")
    if rcv:
        chk.instance("C05/R1", "the reply future waits for the request's own id", b.name, rcv[0].loc(), holds=F.op_base(rcv[0].args[0]) in mid,
                     key="C05/R1 rpc awaited-id")
    for (cb, rc, ok) in nested:
        chk.instance("C05/R1", "the reply future (built in an async block) waits for the captured id of this request", cb.name, rc.loc(), holds=ok,
                     key="C05/R1 rpc awaited-id")
    # increment body: self.0 += 1; *self
    ib = fx.body(inc.rdef if inc.rdef in fx.mir else inc.defn)
    chk.analysed(ib.name)
    adds = []
    for bl in ib.blocks:
        for st in bl["stmts"]:
            if st["k"] == "assign" and st["rv"]["k"] == "binop":
                adds.append(st["rv"])
    ok = len(adds) == 1 and adds[0]["bop"] in ("AddWithOverflow", "Add") and F.op_base(adds[0]["l"]) is not None \
        and adds[0]["r"].get("i") == 1 and not ib.calls()
    chk.instance("C05/R1", "%s adds exactly 1 (checked add) and returns the new value" % T.short(ib.name, 2), ib.name, None, holds=ok,
                 key="C05/R1 MessageId::increment-body")
    # other writers of last_message_id / MessageId.0
    n = 0
    for name, body in fx.mir.items():
        if body.crate != "netconf":
            continue
        for bi, bl in enumerate(body.blocks):
            for st in bl["stmts"]:
                if st["k"] != "assign":
                    continue
                pls = []
                if st["pl"].get("p"):
                    pls.append(st["pl"])
                if st["rv"]["k"] == "ref" and st["rv"]["bk"] == "mut":
                    pls.append(st["rv"]["pl"])
                for pl in pls:
                    if (pl.get("p") or [])[-1:] == [".last_message_id"]:
                        n += 1
                        ok = name.startswith(SESSION + "::rpc::")
                        chk.instance("C05/R1", "last_message_id is written only in Session::rpc", name, loc_of(st.get("sp")),
                                     holds=ok, key="C05/R1 last_message_id-written-in %s" % T.strip_generics(name))
    chk.floor("C05/R1 last_message_id write sites", n, 1)
    # rpc takes &mut self; Session not Clone
    it = fx.fn_item(SESSION + "::rpc")
    chk.instance("C05/R1", "Session::rpc takes &mut self", it["def"], loc_of(it.get("sp")),
                 holds=it["inputs"][0].startswith("&mut netconf::session::Session<"), key="C05/R1 rpc-receiver")
    clones = [i for i in fx.item_list if i["kind"] == "Impl" and i.get("trait") == "std::clone::Clone"
              and i.get("self_adt") == "netconf::session::Session"]
    chk.instance("C05/R1", "Session does not implement Clone", "netconf::session::Session", None, holds=not clones,
                 key="C05/R1 Session-is-Clone")


# ---------------------------------------------------------------------------------------------
OR = "netconf::session::OutstandingRequest"
RECV_CO = SESSION + "::recv::{closure#0}::{closure#0}"


def take_fn(fx):
    """The method by which the owner takes its reply out of its slot (`take` today), found by signature: the method of OutstandingRequest with
    `&mut self` alone that returns Result<Option<PartialReply>, _>."""
    out = sorted(it["qdef"] for it in fx.item_list if it.get("kind") == "AssocFn" and it.get("qdef", "").startswith(OR + "::")
                 and it.get("inputs") == ["&mut " + OR] and "Option<" in (it.get("output") or "") and "PartialReply" in (it.get("output") or ""))
    if len(out) != 1:
        raise F.AnchorLost("the method of OutstandingRequest that hands the parked reply to its owner (&mut self -> Result<Option<PartialReply>, _>): %s" % out)
    return out[0]


def _slot(v):
    return ("adt", OR, v, (("0", ("sym", "STORED")),) if v == "Ready" else ())


def explore_recv(fx, own, park):
    """One iteration of Session::recv's loop with the caller's own slot in state `own` and the slot of the reply that is read in state
    `park` ('absent' = no such entry).  Locks are symbolic, the transport read yields a symbolic reply READ."""
    from vlib import absint as A

    def hook(fn, args, node, interp):
        s2 = T.short(fn, 2)
        if s2 == "Mutex::lock":
            return ("sym", "GUARD")
        if s2 == "HashMap::get_mut" and len(args) == 2:
            key = A.vstr(args[1])
            from_reply = "«READ»" in key
            interp.trace.append(("lookup", "reply" if from_reply else ("own" if "message_id" in key and "READ" not in key else "?"), args[1], node.get("sp")))
            st = park if from_reply else own
            return A.NONE if st == "absent" else A.some(_slot(st))
        if s2 in ("ServerMsg::recv", "PartialReply::recv"):
            interp.trace.append(("call", fn, tuple(args), node.get("sp")))
            return ("term", "async-ready", (("sym", "READ"),))
        return None
    it = A.Interp(fx, hook=hook, crates=("netconf",), max_paths=3000, no_inline=("ServerMsg::recv", "Reply::<O>::into_result", "try_from"))
    it.model_iterators = False
    return it.explore(RECV_CO)


def r2_own_slot(chk, fx):
    from vlib import absint as A
    if RECV_CO not in fx.thir:
        raise F.AnchorLost("Session::recv user coroutine")
    chk.analysed(RECV_CO)
    fn = "Session::recv"

    def errname(p):
        return A.vstr(p.ret) if p.ret is not None else ""

    # --- the caller's own slot -----------------------------------------------------------------------------------------------------------
    ps = explore_recv(fx, "Ready", "-")
    oks = [p for p in ps if p.ret is not None and "into_result" in A.vstr(p.ret)]
    good = bool(oks) and all([e[1] for e in p.trace if e[0] == "lookup"] == ["own"] for p in ps)
    chk.instance("C05/R2", "the reply delivered to the caller comes from OutstandingRequest::take on a slot", RECV_CO, None,
                 holds=good and all(A.mentions(p.ret, lambda x: x == ("sym", "STORED")) for p in oks), key="C05/R2 %s delivered-reply-origin" % fn)
    chk.instance("C05/R2", "that slot is requests.get_mut(&message_id) with the caller's own id", RECV_CO, None, holds=good, key="C05/R2 %s own-slot-key" % fn)
    chk.instance("C05/R2", "the caller's result is into_result() of that reply (after the id cross-check of try_from), and a ready reply is delivered without "
                 "touching the transport", RECV_CO, None,
                 holds=bool(oks) and all(A.vstr(p.ret).startswith("Reply::into_result(") and ("try_into(«STORED»)→Ok.0" in A.vstr(p.ret) or "try_from(«STORED»)→Ok.0" in A.vstr(p.ret))
                                         for p in oks) and not any(p.calls("ServerMsg::recv") or p.calls("PartialReply::recv") for p in ps)
                 and all(p in oks or (A.is_res(p.ret) and p.ret[2] == "Err") for p in ps), key="C05/R2 %s result-origin" % fn)
    for st, want in (("Complete", "RequestComplete"), ("absent", "RequestNotFound")):
        ps = explore_recv(fx, st, "-")
        ok = bool(ps) and all(A.is_res(p.ret) and p.ret[2] == "Err" and want in errname(p) and not (p.calls("ServerMsg::recv") or p.calls("PartialReply::recv")) for p in ps)
        chk.instance("C05/R2", "own slot %s => Err(%s), nothing is read or delivered" % (st, want), RECV_CO, None, holds=ok,
                     key=("C05/R2 %s unknown-id-not-rejected own" % fn) if st == "absent" else ("C05/R2 %s own-slot-complete" % fn))
    # --- a reply read off the transport ------------------------------------------------------------------------------------------------------
    table = {}
    for park in ("Pending", "Ready", "Complete", "absent"):
        ps = explore_recv(fx, "Pending", park)
        rd_ok = [p for p in ps if any(v == "Ok" for k, v in p.assume.items() if "async-ready" in k)]
        rd_err = [p for p in ps if any(v == "Err" for k, v in p.assume.items() if "async-ready" in k)]
        table[park] = rd_ok
        if park == "Pending":
            chk.instance("C05/R2", "own slot Pending: the transport is read once; a read error is returned", RECV_CO, None,
                         holds=bool(rd_ok) and bool(rd_err) and all(len(p.calls("ServerMsg::recv") + p.calls("PartialReply::recv")) == 1 for p in ps)
                         and all(A.is_res(p.ret) and p.ret[2] == "Err" for p in rd_err), key="C05/R2 %s read-once" % fn)
            lk = [[e for e in p.trace if e[0] == "lookup"] for p in rd_ok]
            ok = bool(lk) and all(len(l) == 2 and l[0][1] == "own" and l[1][1] == "reply" and "message_id" in A.vstr(l[1][2]) for l in lk)
            chk.instance("C05/R2", "a received reply is parked in the slot looked up by its own message-id", RECV_CO, None, holds=ok,
                         key="C05/R2 %s parking-slot-key" % fn)
            stored = []
            for p in rd_ok:
                stored += [a for a in p.assigns() if a[2][0] == "adt" and a[2][1].endswith("OutstandingRequest") and a[2][2] == "Ready"]
            ok = bool(stored) and all(A.mentions(a[2], lambda x: x == ("sym", "READ")) for a in stored) and all(p.end == "iter-end" for p in rd_ok)
            chk.instance("C05/R2", "the parked value is Ready(<the reply just read>), and the caller goes on waiting for its own", RECV_CO, None, holds=ok,
                         key="C05/R2 %s parked-value" % fn)
            chk.instance("C05/R3", "parking: Pending -> Ready(reply)", RECV_CO, None, holds=ok, key="C05/R3 parking arm Pending")
        elif park in ("Ready", "Complete"):
            want = "MessageIdCollision" if park == "Ready" else "RequestComplete"
            ok = bool(rd_ok) and all(A.is_res(p.ret) and p.ret[2] == "Err" and want in errname(p) for p in rd_ok) and \
                not any(a[2][0] == "adt" and a[2][2] == "Ready" and A.mentions(a[2], lambda x: x == ("sym", "READ")) for p in rd_ok for a in p.assigns())
            chk.instance("C05/R3", "parking: slot already %s => Err(%s), the stored state is not overwritten" % (park, want), RECV_CO, None, holds=ok,
                         key="C05/R3 parking arm %s" % park)
        else:
            ok = bool(rd_ok) and all(A.is_res(p.ret) and p.ret[2] == "Err" and "RequestNotFound" in errname(p) and "READ" in errname(p) for p in rd_ok)
            chk.instance("C05/R2", "a message-id with no outstanding request takes the error edge (never delivered / stored)", RECV_CO, None, holds=ok,
                         key="C05/R2 %s unknown-id-not-rejected park" % fn)
    # no Ok fabricated: every non-error result is into_result of the own slot's reply (checked above for Ready; nothing else returns a value)
    fabricated = []
    for own in ("Pending", "Complete", "absent"):
        for p in explore_recv(fx, own, "Pending"):
            if p.ret is not None and not (A.is_res(p.ret) and p.ret[2] == "Err") and p.end != "iter-end":
                fabricated.append(A.vstr(p.ret)[:80])
    chk.instance("C05/R2", "no other Ok(..) is fabricated in Session::recv", RECV_CO, None, holds=not fabricated, key="C05/R2 %s fabricated-Ok" % fn,
                 detail="; ".join(fabricated[:3]) or None)
    # no other writer of slots
    ins = [c for c in fx.bodies_matching(lambda n: n.startswith("netconf::session::")) for c in c.calls()
           if c.is_fn("Entry::insert", "VacantEntry::<'a, K, V, A>::insert", "HashMap::<K, V, S, A>::insert", "HashMap::<K, V, S>::insert",
                      "HashMap::<K, V, S, A>::remove", "HashMap::<K, V, S>::remove", "HashMap::<K, V, S, A>::clear")]
    for c in ins:
        owner = [n for n, bb in fx.mir.items() if c in bb.calls()]
        ok = bool(owner) and (owner[0].startswith(SESSION + "::rpc::") or any(owner[0].startswith(h + "::") for (h, _) in rpc_helpers(fx)))
        chk.instance("C05/R2", "slots are inserted only by Session::rpc (VacantEntry::insert)", owner[0] if owner else "?", c.loc(),
                     holds=ok, key="C05/R2 slot-inserted-in %s" % T.strip_generics(owner[0] if owner else "?"))


def r3_state_machine(chk, fx):
    """OutstandingRequest::take as a function of the slot state (abstract interpretation with the store through &mut self modelled)."""
    from vlib import absint as A
    tk = take_fn(fx)
    if tk not in fx.thir:
        raise F.AnchorLost(tk)
    chk.analysed(tk)
    rows = {}
    want = {"Pending": ("Ok(None)", "OutstandingRequest::Pending", "take arm Pending", "Pending => slot stays Pending, Ok(None)"),
            "Ready": ("Ok(Some(«STORED»))", "OutstandingRequest::Complete", "take arm Ready", "Ready(r) => Ok(Some(r)), slot becomes Complete (delivered once)"),
            "Complete": ("Err(Error::RequestComplete)", "OutstandingRequest::Complete", "take arm Complete", "Complete => Err (a reply is never delivered twice)")}
    for v, (ret, final, key, what) in want.items():
        ps = A.Interp(fx, crates=("netconf",)).explore(tk, args=[_slot(v)])
        got = sorted({(A.vstr(p.ret), A.vstr(p.env.get("self"))) for p in ps})
        rows[v] = got
        ok = got == [(ret, final)] or (v == "Complete" and len(got) == 1 and got[0][0].startswith("Err(") and "RequestComplete" in got[0][0] and got[0][1] == final)
        chk.instance("C05/R3", "take(): %s" % what, tk, None, holds=ok, key="C05/R3 %s" % key, detail=str(got))
    chk.extra["take_table"] = {k: [list(x) for x in v] for k, v in rows.items()}
    chk.instance("C05/R3", "take() is decided for all three slot states", tk, None, holds=len(rows) == 3, key="C05/R3 take unrecognised-form")


# ---------------------------------------------------------------------------------------------
def r4_r5_locks(chk, fx):
    edges = {}
    bodies = [b for n, b in sorted(fx.mir.items()) if n.startswith("netconf::session::") and b.coroutine]
    for b in bodies:
        locks = b.calls_to("tokio::sync::Mutex::<T>::lock", user_only=True)
        if not locks:
            continue
        chk.analysed(b.name)
        init_in, init_out = b.maybe_init()
        for lk in locks:
            # class of the mutex being locked: from the future's output type
            cls = None
            for ap in b.await_points():
                if ap["src"] is not None and ap["src"].bb == lk.bb:
                    pass
            dty = b.local_ty(lk.dest["l"])
            cls = "requests" if "OutstandingRequest" in dty else "rx" if "RecvHandle" in dty else "tx" if "SendHandle" in dty else "other"
            held = held_guards(b, init_in[lk.bb])
            for h in held:
                edges.setdefault((h, cls), []).append((b.name, lk.loc()))
    # .. and through the session's own async helpers: a helper that takes a lock, awaited while a guard is held, orders the two locks
    # just the same (and deadlocks at once when it is the same lock: tokio's Mutex is not re-entrant)
    def cls_of(body, lk):
        dty = body.local_ty(lk.dest["l"])
        return "requests" if "OutstandingRequest" in dty else "rx" if "RecvHandle" in dty else "tx" if "SendHandle" in dty else "other"
    by_fn = {}
    for n, body in fx.mir.items():
        if n.startswith("netconf::session::") and "::tests::" not in n:
            by_fn.setdefault(n.split("::{closure")[0], []).append(body)
    acq = {}

    def acquires(fn, depth=0):
        if fn in acq or depth > 4:
            return acq.get(fn, set())
        acq[fn] = set()
        out = set()
        for body in by_fn.get(fn, []):
            for lk in body.calls_to("tokio::sync::Mutex::<T>::lock", user_only=True):
                out.add(cls_of(body, lk))
            for c in body.calls():
                tgt = None if c.macro else (c.rdef if c.rdef in by_fn else c.defn if c.defn in by_fn else None)
                if tgt is not None and tgt != fn:
                    out |= acquires(tgt, depth + 1)
        acq[fn] = out
        return out
    for b in bodies:
        init_in, _ = b.maybe_init()
        me = b.name.split("::{closure")[0]
        for c in b.calls():
            tgt = None if c.macro else (c.rdef if c.rdef in by_fn else c.defn if c.defn in by_fn else None)
            if tgt is None or tgt == me:
                continue
            held = held_guards(b, init_in[c.bb])
            for h in held:
                for cls in sorted(acquires(tgt)):
                    edges.setdefault((h, cls), []).append((b.name, c.loc()))
    chk.extra["lock_order_edges"] = {"%s->%s" % k: v for k, v in edges.items()}
    # acyclic
    nodes = {a for a, _ in edges} | {c for _, c in edges}
    adj = {n: {c for (a, c) in edges if a == n} for n in nodes}

    def cyc(n, stack, seen):
        if n in stack:
            return True
        if n in seen:
            return False
        seen.add(n)
        return any(cyc(m, stack | {n}, seen) for m in adj.get(n, ()))
    has_cycle = any(cyc(n, frozenset(), set()) for n in nodes)
    chk.instance("C05/R5", "lock-order graph %s is acyclic" % sorted("%s->%s" % k for k in edges), "netconf::session", None,
                 holds=not has_cycle, key="C05/R5 lock-order-cycle")
    for (a, c), sites in sorted(edges.items()):
        chk.instance("C05/R5", "lock order %s -> %s" % (a, c), sites[0][0], sites[0][1], holds=a != c,
                     key="C05/R5 self-deadlock %s" % a)
    chk.extra["lock_order_edge_count"] = len(edges)
    # no requests guard across the transport read in recv
    b = fx.user_coroutine(SESSION + "::recv")
    init_in, _ = b.maybe_init()
    n = 0
    for ap in b.await_points():
        if ap["src"] is not None and ap["src"].is_fn("ServerMsg::recv"):
            n += 1
            held = held_guards(b, init_in[ap["yield"]])
            chk.instance("C05/R5", "requests map is not locked while waiting for the transport (held: %s)" % sorted(held), b.name,
                         loc_of(ap["sp"]), holds="requests" not in held, key="C05/R5 Session::recv requests-held-across-read")
            chk.instance("C05/R5", "the receive lock is held while reading (one reader at a time)", b.name, loc_of(ap["sp"]),
                         holds="rx" in held, key="C05/R5 Session::recv read-without-rx-lock")
    chk.floor("C05/R5 transport-read suspension points", n, 1)
    # check-then-read is atomic: the caller looks into its own slot while it already holds the receive lock, and keeps that
    # lock until it reads.  Otherwise another reader can park this caller's reply between the look and the read, and the caller
    # then blocks on the transport although its reply is in the table.
    gm = b.calls_to("HashMap::<K, V, S, A>::get_mut", "HashMap::<K, V, S>::get_mut", user_only=True)
    own = [g for g in gm if b.derives_from_var(F.op_base(g.args[1]), "message_id")]
    # .. or in a private helper that is handed the (locked) table and the caller's own id
    for c in b.calls():
        hb = None if c.macro else (fx.mir.get(c.rdef) or fx.mir.get(c.defn))
        if hb is None or hb.crate != "netconf" or hb is b or "::tests::" in hb.name:
            continue
        if not hb.calls_to("HashMap::<K, V, S, A>::get_mut", "HashMap::<K, V, S>::get_mut", user_only=True):
            continue
        if any(F.op_base(a) is not None and b.derives_from_var(F.op_base(a), "message_id") for a in c.args) and \
                any("OutstandingRequest" in hb.local_ty(i) for i in range(1, hb.raw["arg_count"] + 1)):
            own.append(c)
    chk.floor("C05/R5 own-slot lookups", len(own), 1)
    for g in own:
        held = held_guards(b, init_in[g.bb])
        chk.instance("C05/R5", "the own-slot check happens under the receive lock (held: %s)" % sorted(held), b.name, g.loc(), holds="rx" in held,
                     key="C05/R5 Session::recv slot-check-without-rx-lock",
                     detail=None if "rx" in held else "check-own-slot and read-one-reply are not atomic with respect to other readers: a reply parked "
                     "in between is never found and its caller waits on the transport for ever")
        # the guard held at the check is the one still held at the read
        rx_at_check = set(held.get("rx", []))
        for ap in b.await_points():
            if ap["src"] is not None and ap["src"].is_fn("ServerMsg::recv"):
                rx_at_read = set(held_guards(b, init_in[ap["yield"]]).get("rx", []))
                chk.instance("C05/R5", "the receive lock taken before the slot check is the one held while reading", b.name, loc_of(ap["sp"]),
                             holds=bool(rx_at_check & rx_at_read), key="C05/R5 Session::recv rx-lock-reacquired-between-check-and-read")
    # R4: registration atomicity in rpc (or in the async helper of rpc that sends and registers)
    rpc_b = fx.user_coroutine(SESSION + "::rpc")
    b = rpc_b
    hcalls = []
    if not b.calls_to("ClientMsg::send", user_only=True):
        for (h, hb) in rpc_helpers(fx):
            if hb.calls_to("ClientMsg::send", user_only=True):
                hcalls = [c for c in rpc_b.calls() if not c.macro and (c.rdef == h or c.defn == h)]
                b = hb
                break
    init_in, _ = b.maybe_init()
    send = b.calls_to("ClientMsg::send", user_only=True)
    ins = b.calls_to("VacantEntry::<'a, K, V, A>::insert", "VacantEntry::<'a, K, V>::insert", "HashMap::<K, V, S>::insert",
                     "HashMap::<K, V, S, A>::insert", user_only=True)
    if len(send) != 1:
        raise F.AnchorLost("Session::rpc: send site")
    chk.instance("C05/R4", "Session::rpc registers the request (insert into the outstanding map)", b.name, None, holds=len(ins) == 1,
                 key="C05/R4 Session::rpc registration-sites %d" % len(ins))
    if len(ins) != 1:
        return
    for nm, pt in (("insert(Pending)", ins[0].bb),):
        held = held_guards(b, init_in[pt])
        chk.instance("C05/R4", "requests guard held at %s" % nm, b.name, None, holds="requests" in held,
                     key="C05/R4 Session::rpc requests-not-held-at %s" % nm)
    n = 0
    for ap in b.await_points():
        if ap["src"] is not None and ap["src"].is_fn("ClientMsg::send"):
            n += 1
            held = held_guards(b, init_in[ap["yield"]])
            chk.instance("C05/R4", "requests guard held across send().await (no reader can look the id up before it is registered)",
                         b.name, loc_of(ap["sp"]), holds="requests" in held, key="C05/R4 Session::rpc requests-released-before-send")
    chk.floor("C05/R4 send suspension points", n, 1)
    ok = b.ok_dominates(send[0], ins[0].bb)
    chk.instance("C05/R4", "insert(Pending) only after send succeeded (a failed send registers nothing)", b.name, ins[0].loc(),
                 holds=ok, key="C05/R4 Session::rpc insert-not-okdom-by-send")
    o = b.backward_origins(F.op_base(ins[0].args[1]), through_call=lambda c: False)
    ok = any(x["k"] == "agg" and x["rv"].get("variant") == "Pending" for x in o)
    chk.instance("C05/R4", "the registered state is Pending", b.name, ins[0].loc(), holds=ok, key="C05/R4 Session::rpc registered-state")
    # the reply future is handed out only after registration
    if b is not rpc_b:
        # registration happens in the helper: in rpc the reply future is created only after the helper returned Ok
        rc = [(c.bb, c.loc()) for c in rpc_b.calls_to(SESSION + "::recv", user_only=True)]
        if not rc or len(hcalls) != 1:
            raise F.AnchorLost("Session::rpc: recv() call site / helper call")
        chk.instance("C05/R4", "the reply future is created only after registration (the helper that registers returned Ok)", rpc_b.name, rc[0][1],
                     holds=rpc_b.ok_dominates(hcalls[0], rc[0][0]), key="C05/R4 Session::rpc recv-before-register")
        return
    rcvs = [(c.bb, c.loc()) for c in b.calls_to(SESSION + "::recv", user_only=True)]
    if not rcvs:
        # .. or the async block that will call recv is built after it
        for bi, bl in enumerate(b.blocks):
            for st in bl["stmts"]:
                cn = (st["rv"].get("coroutine") or st["rv"].get("closure")) if st["k"] == "assign" and st["rv"]["k"] == "agg" else None
                cb = fx.mir.get(cn) if cn else None
                if cb is not None and cb.calls_to(SESSION + "::recv", user_only=True):
                    rcvs.append((bi, loc_of(st.get("sp"))))
    if not rcvs:
        raise F.AnchorLost("Session::rpc: recv() call site")
    for (rbb, rloc) in rcvs[:1]:
        chk.instance("C05/R4", "the reply future is created only after registration", b.name, rloc,
                     holds=b.dominates(ins[0].bb, rbb) or b.ok_dominates(send[0], rbb), key="C05/R4 Session::rpc recv-before-register")


# ---------------------------------------------------------------------------------------------
def r6_crosscheck(chk, fx):
    """Second line of defence: Reply::try_from hands the parsed reply on only if its message-id equals the one the slot was filed
    under.  Decided on the explored paths of try_from (from_xml an undecided outcome): Ok exactly where the two message_id fields were
    assumed equal, a mismatch (and a parse failure) is Err — whether the comparison is `!=` with an early return, `==` in a closure, a
    match or a helper."""
    from vlib import absint as A
    name = "<netconf::message::rpc::Reply<O> as std::convert::TryFrom<netconf::message::rpc::PartialReply>>::try_from"
    if name not in fx.thir:
        raise F.AnchorLost("Reply::try_from not found")
    chk.analysed(name)

    def hook(fn, args, node, interp):
        return ("sym", "PARSED") if fn.endswith("::from_xml") else None
    paths = [p for p in A.Interp(fx, hook=hook, crates=("netconf",)).explore(name) if p.end != "abort"]

    def ids_equal(p):
        """True / False / None: what the path assumed about (expected id == parsed id)."""
        for k, v in p.assume.items():
            if not isinstance(v, bool) or k.count("message_id") < 2 or "«PARSED»" not in k or "«param:" not in k:
                continue
            if k.startswith("PartialEq::eq("):
                return v
            if k.startswith("PartialEq::ne("):
                return not v
        return None
    n_ok = 0
    for p in paths:
        if not A.is_res(p.ret):
            continue
        eq = ids_equal(p)
        if p.ret[2] == "Ok":
            n_ok += 1
            chk.instance("C05/R6", "Reply::try_from returns Ok only when the parsed message-id equals the expected one", name, None, holds=eq is True,
                         key="C05/R6 try_from id-check", detail=None if eq is True else "an Ok path does not assume the two message ids equal")
            chk.instance("C05/R6", "the comparison is between the two message_id fields", name, None, holds=eq is not None, key="C05/R6 try_from compared-fields")
        elif eq is True:
            chk.instance("C05/R6", "equal ids and a parsed reply are not turned into an error", name, None, holds="PARSED»→Err" in A.vstr(p.ret),
                         key="C05/R6 try_from equal-ids-rejected")
    chk.floor("C05/R6 Ok sites in try_from", n_ok, 1)


# ---------------------------------------------------------------------------------------------
def r7_table_integrity(chk, fx):
    """A reply parked for its owner (Ready) or a slot waiting for its reply (Pending) must stay in the table until the owner takes it:
    (a) no entry leaves the table except its own, after its reply was delivered (same site rule as C18/R4); (b) nothing is stored
    over an existing entry: the only insertion is into a vacant slot."""
    from . import c18
    n_rm = n_ins = 0
    for name, b in sorted(fx.mir.items()):
        if b.crate != "netconf" or "::tests::" in name:
            continue
        for c in b.calls():
            if c.macro or not any("OutstandingRequest" in g for g in (c.gargs or [])):
                continue
            if c.is_fn(*c18.REMOVERS):
                n_rm += 1
                ok = False
                if name.startswith(c18.SESSION + "::recv::"):
                    deliver = [x for x in b.calls() if x.is_fn("TryInto::try_into", "TryFrom::try_from", "Reply::<O>::into_result") and not x.macro]
                    ok = any(b.dominates(x.bb, c.bb) for x in deliver)
                chk.instance("C05/R7", "entry leaves the request table only after its own reply was delivered", name, c.loc(), holds=ok,
                             key="C05/R7 request-table entry removed in %s" % T.strip_generics(name),
                             detail="a reply already parked for (or still to arrive for) the removed id is lost: its owner gets RequestNotFound")
            elif c.is_fn("HashMap::<K, V, S, A>::insert", "OccupiedEntry::<'a, K, V, A>::insert", "HashMap::<K, V, S, A>::extend"):
                n_ins += 1
                chk.instance("C05/R7", "no store over an existing request-table entry", name, c.loc(), holds=False,
                             key="C05/R7 request-table entry overwritten in %s" % T.strip_generics(name),
                             detail="an unconditional insert replaces whatever is parked under that id")
            elif c.is_fn("VacantEntry::<'a, K, V, A>::insert", "VacantEntry::<'a, K, V, A>::insert_entry"):
                n_ins += 1
                chk.instance("C05/R7", "insertion into a vacant slot only", name, c.loc(), holds=True)
    chk.instance("C05/R7", "request table: %d insertion site(s), %d removal site(s)" % (n_ins, n_rm), "netconf", None, holds=n_ins >= 1,
                 key="C05/R7 no-registration-site")
    # (c) a slot changes state only where the protocol says so: Pending when the request is sent (rpc), Ready when its reply is parked
    # (recv), Complete when its owner takes it (take) — and in private helpers only those three call.  Any other writer (a sweep over the
    # table on close, a timeout reaper) takes replies away from requests that are still waiting for them.
    roots = (c18.SESSION + "::rpc", c18.SESSION + "::recv", take_fn(fx))
    callers = {}
    for name, b in fx.mir.items():
        if b.crate != "netconf":
            continue
        for c in b.calls():
            tgt = None if c.macro else (c.rdef or c.defn)
            if tgt in fx.mir:
                callers.setdefault(tgt, set()).add(name.split("::{closure")[0])
    allowed = set()
    for name in fx.mir:
        if name.split("::{closure")[0].startswith(roots):
            allowed.add(name.split("::{closure")[0])
    changed = True
    while changed:
        changed = False
        for f, cs in callers.items():
            if f not in allowed and cs and cs <= allowed and f.startswith("netconf::session::"):
                allowed.add(f)
                changed = True
    n_w = 0
    for name, b in sorted(fx.mir.items()):
        if b.crate != "netconf" or "::tests::" in name:
            continue
        for bl in b.blocks:
            for st in bl["stmts"]:
                if st["k"] == "assign" and st["rv"]["k"] == "agg" and (st["rv"].get("adt") or "").endswith("session::OutstandingRequest"):
                    n_w += 1
                    ok = name.split("::{closure")[0] in allowed
                    chk.instance("C05/R7", "slot state %s is written by rpc / recv / take (or a helper of theirs)" % st["rv"].get("variant"), name,
                                 loc_of(st.get("sp")), holds=ok, key="C05/R7 slot-state-written-in %s" % T.strip_generics(name),
                                 detail=None if ok else "a request that is still waiting finds its slot changed under it: its reply is refused or lost")
    chk.floor("C05/R7 slot state writes", n_w, 3)
