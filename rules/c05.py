"""C05 — Each RPC caller receives exactly the reply to its own request (structural clauses).

WHO / ORIGIN (message-id freshness, own-slot delivery), TABLE (slot state machine), LOCK (guard live ranges,
lock order), GUARD (two-phase id cross-check).  Scheduling clauses (wake-up order, progress under all
interleavings) are not decided by this family.
"""
from vlib import facts as F, thir as T
from vlib.report import loc_of

SESSION = "netconf::session::Session::<T>"
GUARD_PREFIX = "tokio::sync::MutexGuard<"

EXPLANATION = (
    "C05/R1: Request::new is called only in Session::rpc with the value returned by MessageId::increment on "
    "self.last_message_id (the only writer of that field); increment is `self.0 += 1; *self`; rpc takes &mut self and "
    "Session is not Clone, so ids on a session are strictly increasing. C05/R2: in Session::recv the only PartialReply that "
    "reaches Reply::try_from/into_result comes from requests.get_mut(&message_id) with the function's own id followed by "
    "OutstandingRequest::take, and a received reply is parked only in the slot requests.get_mut(&reply.message_id()) of that "
    "same reply; unknown ids take the RequestNotFound error edge. C05/R3: OutstandingRequest::take and the parking match form "
    "the state machine Pending->Ready->Complete with errors on every other transition (no double delivery, no overwrite). "
    "C05/R4: in rpc the requests guard is held from entry() through send().await to insert(Pending), and insert is reachable "
    "only through send's success edge. C05/R5: the held->acquired lock graph over session.rs is acyclic and no requests guard "
    "is held across the transport read. C05/R6: Reply::try_from returns Ok only through the equal-ids edge. Not decided: "
    "fairness of tokio::sync::Mutex, progress under all schedules."
)


def guard_class(ty):
    if not ty.startswith(GUARD_PREFIX):
        return None
    if "OutstandingRequest" in ty:
        return "requests"
    if "RecvHandle" in ty:
        return "rx"
    if "SendHandle" in ty:
        return "tx"
    return "other:" + ty


def held_guards(b, init_set):
    out = {}
    for l in init_set:
        k = guard_class(b.local_ty(l))
        if k:
            out.setdefault(k, []).append(l)
    return out


def run(ctx):
    chk, fx = ctx.chk, ctx.facts
    chk.explanation = EXPLANATION
    chk.assumptions += [
        "tokio::sync::Mutex provides mutual exclusion; HashMap::get_mut(k) returns the entry stored under k",
        "usize message-id overflow (2^64 requests) is out of scope (debug builds assert)",
    ]
    r1_freshness(chk, fx)
    r2_own_slot(chk, fx)
    r3_state_machine(chk, fx)
    r4_r5_locks(chk, fx)
    r6_crosscheck(chk, fx)


# ---------------------------------------------------------------------------------------------
def r1_freshness(chk, fx):
    # WHO: Request::new / Request aggregates
    n = 0
    for name, b in fx.mir.items():
        if b.crate != "netconf":
            continue
        for c in b.calls():
            if c.is_fn("netconf::message::rpc::Request::<O>::new"):
                n += 1
                ok = name.startswith(SESSION + "::rpc::")
                chk.instance("C05/R1", "Request::new called only from Session::rpc", name, c.loc(), holds=ok,
                             key="C05/R1 Request::new-called-in %s" % T.strip_generics(name))
        for (bi, si, s) in b.aggs_of("message::rpc::Request"):
            ok = name == "netconf::message::rpc::Request::<O>::new" or "as std::clone::Clone>::clone" in name
            chk.instance("C05/R1", "Request{..} built only by Request::new", name, loc_of(s.get("sp")), holds=ok,
                         key="C05/R1 Request-literal-in %s" % T.strip_generics(name))
    chk.floor("C05/R1 Request::new call sites", n, 1)
    b = fx.user_coroutine(SESSION + "::rpc")
    chk.analysed(b.name)
    # Request::new is called inside the `.map(|operation| ..)` closure; message_id is captured
    # the id source: the MessageId method applied to self.last_message_id (today: increment(&mut self))
    incs = []
    for c in b.calls():
        if c.macro or not c.args or "MessageId" not in c.defn:
            continue
        org, vis = b.backward_slice(F.op_base(c.args[0]), through_call=lambda c: False)
        if any(o["k"] == "place" and (o["pl"].get("p") or [])[-1:] == [".last_message_id"] for o in org):
            incs.append(c)
    if len(incs) != 1:
        raise F.AnchorLost("Session::rpc: expected exactly one MessageId method applied to self.last_message_id, found %d" % len(incs))
    inc = incs[0]
    chk.instance("C05/R1", "the new id is derived from self.last_message_id (%s)" % T.short(inc.name(), 2), b.name, inc.loc(), holds=True,
                 key="C05/R1 rpc increment-receiver")
    # the counter moves on *before* the request can reach the wire: whatever happens to this call afterwards (failed or abandoned
    # send, cancelled future), the id is never handed out again
    sends0 = b.calls_to("ClientMsg::send", user_only=True)
    writes = []
    for bi, bl in enumerate(b.blocks):
        if bl.get("cleanup"):
            continue
        for st in bl["stmts"]:
            if st["k"] != "assign":
                continue
            if (st["pl"].get("p") or [])[-1:] == [".last_message_id"]:
                writes.append(bi)
            if st["rv"]["k"] == "ref" and st["rv"].get("bk") == "mut" and (st["rv"]["pl"].get("p") or [])[-1:] == [".last_message_id"]:
                writes.append(bi)
    after_send = set()
    for sd in sends0:
        after_send |= b.reachable_from_succs(sd.bb)
    ok = bool(sends0) and bool(writes) and all(any(b.dominates(w, sd.bb) and w != sd.bb for w in writes) for sd in sends0) \
        and not any(w in after_send for w in writes)
    chk.instance("C05/R1", "self.last_message_id is advanced before send (a write to it dominates the send; none can follow the send)", b.name, inc.loc(),
                 holds=ok, key="C05/R1 rpc counter-advanced-after-send",
                 detail=None if ok else "a request that reached the wire without the call completing (send error after writing, dropped rpc future) "
                 "leaves the counter where it was: the next request re-uses the message-id")
    mid = b.forward_taint([inc.dest["l"]], through_call=lambda c: False)
    # Request::new may be called in rpc itself or in a closure defined in it (e.g. `.map(|operation| ..)`)
    direct = b.calls_to("Request::<O>::new", user_only=True)
    n_new = 0
    for rn in direct:
        n_new += 1
        chk.instance("C05/R1", "the id given to Request::new is the freshly incremented one", b.name, rn.loc(),
                     holds=F.op_base(rn.args[0]) in mid, key="C05/R1 rpc request-id-origin")
    for bi, bl in enumerate(b.blocks):
        for s in bl["stmts"]:
            if s["k"] == "assign" and s["rv"]["k"] == "agg" and s["rv"].get("closure") and not (s.get("sp") or {}).get("m"):
                cb = fx.mir.get(s["rv"]["closure"])
                if cb is None:
                    continue
                for rn in cb.calls_to("Request::<O>::new"):
                    n_new += 1
                    cap = {F.op_base(f) for f in s["rv"]["fields"]}
                    o2 = cb.backward_origins(F.op_base(rn.args[0]), through_call=lambda c: False)
                    ok = bool(cap & mid) and all(o["k"] in ("place", "arg") for o in o2) and any(o["k"] == "place" for o in o2)
                    chk.instance("C05/R1", "the id given to Request::new (in a closure) is the captured, freshly incremented one",
                                 cb.name, rn.loc(), holds=ok, key="C05/R1 rpc request-id-origin")
    chk.instance("C05/R1", "Session::rpc builds its request with Request::new", b.name, None, holds=n_new >= 1,
                 key="C05/R1 rpc no-Request::new")
    # the same id is used for registration and for the reply future
    ent = b.calls_to("HashMap::<K, V, S>::entry", "HashMap::<K, V, S, A>::entry", "HashMap::<K, V, S>::insert",
                     "HashMap::<K, V, S, A>::insert", user_only=True)
    rcv = b.calls_to(SESSION + "::recv", user_only=True)
    if len(rcv) != 1:
        raise F.AnchorLost("Session::rpc: recv() call site")
    chk.instance("C05/R1", "the request is registered in the outstanding-request map", b.name, None, holds=len(ent) >= 1,
                 key="C05/R1 rpc not-registered")
    for e in ent:
        chk.instance("C05/R1", "the request is registered under its own id", b.name, e.loc(), holds=F.op_base(e.args[1]) in mid,
                     key="C05/R1 rpc registered-id")
    chk.instance("C05/R1", "the reply future waits for the request's own id", b.name, rcv[0].loc(), holds=F.op_base(rcv[0].args[0]) in mid,
                 key="C05/R1 rpc awaited-id")
    # increment body: self.0 += 1; *self
    ib = fx.body(inc.rdef if inc.rdef in fx.mir else inc.defn)
    chk.analysed(ib.name)
    adds = []
    for bl in ib.blocks:
        for st in bl["stmts"]:
            if st["k"] == "assign" and st["rv"]["k"] == "binop":
                adds.append(st["rv"])
    ok = len(adds) == 1 and adds[0]["bop"] in ("AddWithOverflow", "Add") and F.op_base(adds[0]["l"]) is not None \
        and adds[0]["r"].get("i") == 1 and not ib.calls()
    chk.instance("C05/R1", "%s adds exactly 1 (checked add) and returns the new value" % T.short(ib.name, 2), ib.name, None, holds=ok,
                 key="C05/R1 MessageId::increment-body")
    # other writers of last_message_id / MessageId.0
    n = 0
    for name, body in fx.mir.items():
        if body.crate != "netconf":
            continue
        for bi, bl in enumerate(body.blocks):
            for st in bl["stmts"]:
                if st["k"] != "assign":
                    continue
                pls = []
                if st["pl"].get("p"):
                    pls.append(st["pl"])
                if st["rv"]["k"] == "ref" and st["rv"]["bk"] == "mut":
                    pls.append(st["rv"]["pl"])
                for pl in pls:
                    if (pl.get("p") or [])[-1:] == [".last_message_id"]:
                        n += 1
                        ok = name.startswith(SESSION + "::rpc::")
                        chk.instance("C05/R1", "last_message_id is written only in Session::rpc", name, loc_of(st.get("sp")),
                                     holds=ok, key="C05/R1 last_message_id-written-in %s" % T.strip_generics(name))
    chk.floor("C05/R1 last_message_id write sites", n, 1)
    # rpc takes &mut self; Session not Clone
    it = fx.fn_item(SESSION + "::rpc")
    chk.instance("C05/R1", "Session::rpc takes &mut self", it["def"], loc_of(it.get("sp")),
                 holds=it["inputs"][0].startswith("&mut netconf::session::Session<"), key="C05/R1 rpc-receiver")
    clones = [i for i in fx.item_list if i["kind"] == "Impl" and i.get("trait") == "std::clone::Clone"
              and i.get("self_adt") == "netconf::session::Session"]
    chk.instance("C05/R1", "Session does not implement Clone", "netconf::session::Session", None, holds=not clones,
                 key="C05/R1 Session-is-Clone")


# ---------------------------------------------------------------------------------------------
def r2_own_slot(chk, fx):
    b = fx.user_coroutine(SESSION + "::recv")
    chk.analysed(b.name)
    gm = b.calls_to("HashMap::<K, V, S, A>::get_mut", "HashMap::<K, V, S>::get_mut", user_only=True)
    chk.floor("C05/R2 get_mut sites in Session::recv", len(gm), 2)
    take = b.calls_to("netconf::session::OutstandingRequest::take", user_only=True)
    tf = b.calls_to("TryInto::try_into", "TryFrom::try_from", user_only=True)
    rd = b.calls_to("ServerMsg::recv", user_only=True)
    rep = b.calls_to("std::mem::replace", user_only=True)
    if len(take) != 1 or len(tf) != 1 or len(rd) != 1 or len(rep) != 1:
        raise F.AnchorLost("Session::recv: take/try_into/ServerMsg::recv/mem::replace sites (%d/%d/%d/%d)" % (len(take), len(tf), len(rd), len(rep)))
    chk.call_sites += len(gm) + 4
    pt = lambda c: c.is_fn(*F.PASS_THROUGH) or c.is_fn("Try::branch", "DerefMut::deref_mut", "Deref::deref")
    # (a) delivered reply: try_into(arg) <- take() <- get_mut(&message_id)
    o_tf = b.backward_origins(F.op_base(tf[0].args[0]), through_call=pt)
    src = [o["call"] for o in o_tf if o["k"] == "call" and o["call"] is not None]
    ok = bool(src) and all(c.bb == take[0].bb for c in src)
    chk.instance("C05/R2", "the reply delivered to the caller comes from OutstandingRequest::take on a slot", b.name, tf[0].loc(),
                 holds=ok, key="C05/R2 Session::recv delivered-reply-origin")
    o_take = b.backward_origins(F.op_base(take[0].args[0]), through_call=pt)
    src = [o["call"] for o in o_take if o["k"] == "call" and o["call"] is not None]
    g_own = [g for g in gm if g.bb in {c.bb for c in src}]
    ok = len(g_own) == 1 and len(src) == 1 and b.derives_from_var(F.op_base(g_own[0].args[1]), "message_id")
    chk.instance("C05/R2", "that slot is requests.get_mut(&message_id) with the caller's own id", b.name, take[0].loc(), holds=ok,
                 key="C05/R2 Session::recv own-slot-key")
    # result returned: into_result of that reply
    ir = b.calls_to("Reply::<O>::into_result", user_only=True)
    t_reply = b.forward_taint([tf[0].dest["l"]], through_call=pt)
    ok = len(ir) == 1 and F.op_base(ir[0].args[0]) in t_reply
    chk.instance("C05/R2", "the caller's result is into_result() of that reply", b.name, ir[0].loc() if ir else None, holds=ok,
                 key="C05/R2 Session::recv result-origin")
    for (bi, si, s) in b.ok_aggs():
        chk.instance("C05/R2", "no other Ok(..) is fabricated in Session::recv", b.name, loc_of(s.get("sp")), holds=False,
                     key="C05/R2 Session::recv fabricated-Ok")
    # (b) parking: replace(slot, Ready(reply)) where slot = get_mut(&reply.message_id()) and reply = the message just read
    t_read = b.forward_taint([rd[0].dest["l"]], through_call=pt)
    o_slot = b.backward_origins(F.op_base(rep[0].args[0]), through_call=pt)
    src = [o["call"] for o in o_slot if o["k"] == "call" and o["call"] is not None]
    g_park = [g for g in gm if g.bb in {c.bb for c in src}]
    ok = len(g_park) == 1 and len(src) == 1
    key_ok = False
    if ok:
        o_key = b.backward_origins(F.op_base(g_park[0].args[1]), through_call=lambda c: False)
        ks = [o["call"] for o in o_key if o["k"] == "call" and o["call"] is not None]
        key_ok = len(ks) == 1 and ks[0].is_fn("PartialReply::message_id") and F.op_base(ks[0].args[0]) in b.forward_taint(list(t_read), through_call=lambda c: False)
    chk.instance("C05/R2", "a received reply is parked in the slot looked up by its own message-id", b.name, rep[0].loc(),
                 holds=ok and key_ok, key="C05/R2 Session::recv parking-slot-key")
    o_val = b.backward_origins(F.op_base(rep[0].args[1]), through_call=lambda c: False)
    aggs = [o for o in o_val if o["k"] == "agg" and o["rv"].get("variant") == "Ready"]
    ok = len(aggs) == 1 and F.op_base(aggs[0]["rv"]["fields"][0]) in t_read
    chk.instance("C05/R2", "the parked value is Ready(<the reply just read>)", b.name, rep[0].loc(), holds=ok,
                 key="C05/R2 Session::recv parked-value")
    # unknown id -> error edge (ok_or / ok_or_else + `?`) before the slot is touched
    for g in gm:
        e = b.ok_edge_of(g)
        users = [rep[0]] if g in g_park else [take[0]]
        ok = e is not None and all(b.edge_dominates(b._switch_block_of(e[0]), e[1], u.bb) for u in users)
        chk.instance("C05/R2", "a message-id with no outstanding request takes the error edge (never delivered / stored)",
                     b.name, g.loc(), holds=ok, key="C05/R2 Session::recv unknown-id-not-rejected %s" % ("park" if g in g_park else "own"))
    # no other writer of slots
    ins = [c for c in fx.bodies_matching(lambda n: n.startswith("netconf::session::")) for c in c.calls()
           if c.is_fn("Entry::insert", "VacantEntry::<'a, K, V, A>::insert", "HashMap::<K, V, S, A>::insert", "HashMap::<K, V, S>::insert",
                      "HashMap::<K, V, S, A>::remove", "HashMap::<K, V, S>::remove", "HashMap::<K, V, S, A>::clear")]
    for c in ins:
        ok = c.is_fn("VacantEntry::<'a, K, V, A>::insert", "insert") and True
        # must be in rpc
        owner = [n for n, bb in fx.mir.items() if c in bb.calls()]
        ok = bool(owner) and owner[0].startswith(SESSION + "::rpc::")
        chk.instance("C05/R2", "slots are inserted only by Session::rpc (VacantEntry::insert)", owner[0] if owner else "?", c.loc(),
                     holds=ok, key="C05/R2 slot-inserted-in %s" % T.strip_generics(owner[0] if owner else "?"))


# ---------------------------------------------------------------------------------------------
VARIANTS = ("Pending", "Ready", "Complete")


def arm_variants(pat, remaining):
    """Set of OutstandingRequest variants a pattern can match."""
    k = pat.get("k")
    if k == "Variant" and pat["adt"].endswith("session::OutstandingRequest"):
        return {pat["variant"]}
    if k == "Or":
        out = set()
        for p in pat["pats"]:
            out |= arm_variants(p, remaining)
        return out
    if k == "Bind":
        return arm_variants(pat["sub"], remaining) if pat.get("sub") else set(remaining)
    if k == "Deref":
        return arm_variants(pat["sub"], remaining)
    if k == "Wild":
        return set(remaining)
    return set(remaining)


def mutates_slot(body):
    """Expression writes through the slot reference (assignment, mem::replace / swap / take)."""
    for n in T.walk(body):
        if n.get("k") in ("Assign", "AssignOp"):
            return True
        if n.get("k") == "Call" and n.get("fn") and n["fn"].split("::")[-1] in ("replace", "swap", "take") and "mem::" in n["fn"]:
            return True
    return False


def r3_state_machine(chk, fx):
    t = fx.thir_body("netconf::session::OutstandingRequest::take")
    chk.analysed(t["def"])
    body = T.user_body(t)
    ms = T.find(body, "Match")
    if len(ms) != 1:
        chk.instance("C05/R3", "take() is a single match on the slot state", t["def"], loc_of(t.get("sp")), holds=False,
                     key="C05/R3 take unrecognised-form")
        return
    m = ms[0]
    scrut = T.expr_str(m["scrut"]).replace(" ", "")
    replaced = scrut in ("mem::replace(self,OutstandingRequest::Complete)", "mem::replace(&mut*self,OutstandingRequest::Complete)")
    chk.instance("C05/R3", "take(): the slot is set to Complete while its old state is examined (%s)" % scrut, t["def"],
                 loc_of(m.get("sp")), holds=replaced, key="C05/R3 take scrutinee")
    rows = {}
    remaining = list(VARIANTS)
    n = 0
    for a in m["arms"]:
        vs = arm_variants(a["pat"], remaining)
        remaining = [v for v in remaining if v not in vs]
        res = T.peel(a["body"])
        rs = T.expr_str(a["body"])
        binds = [x["name"] for x in T.walk(a["pat"]) if x.get("k") == "Bind"]
        for v in sorted(vs):
            rows[v] = rs
            n += 1
            if v == "Ready":
                tail = res if res.get("k") != "Block" else (res.get("expr") or {})
                tail = T.peel(tail)
                ok = tail.get("k") == "Adt" and tail["variant"] == "Ok" and not mutates_slot(a["body"])
                if ok:
                    inner = T.peel(tail["fields"][0]["expr"])
                    ok = inner.get("k") == "Adt" and inner["variant"] == "Some" and T.peel(inner["fields"][0]["expr"]).get("name") in binds
                chk.instance("C05/R3", "take(): Ready(r) => Ok(Some(r)), slot stays Complete (delivered once)", t["def"],
                             loc_of(a.get("sp")), holds=ok, key="C05/R3 take arm Ready", detail=rs)
            elif v == "Complete":
                oks = [x for x in T.find(a["body"], "Adt") if x["variant"] == "Ok" and x["adt"].endswith("result::Result")]
                chk.instance("C05/R3", "take(): Complete => Err (a reply is never delivered twice)", t["def"], loc_of(a.get("sp")),
                             holds=not oks and "Result::Err" in rs, key="C05/R3 take arm Complete", detail=rs)
            elif v == "Pending":
                restores = False
                for c in T.calls(a["body"], "mem::swap"):
                    names = {T.peel(x).get("name") for x in c["args"]}
                    if "self" in names and names & set(binds):
                        restores = True
                for asg in T.find(a["body"], "Assign"):
                    if T.peel(asg["lhs"]).get("name") == "self":
                        r = T.peel(asg["rhs"])
                        if r.get("name") in binds or (r.get("k") == "Adt" and r.get("variant") == "Pending"):
                            restores = True
                nones = [x for x in T.find(a["body"], "Adt") if x["variant"] == "None"]
                somes = [x for x in T.find(a["body"], "Adt") if x["variant"] == "Some"]
                chk.instance("C05/R3", "take(): Pending => slot restored to Pending, Ok(None)", t["def"], loc_of(a.get("sp")),
                             holds=bool(restores and nones and not somes), key="C05/R3 take arm Pending", detail=rs)
    chk.extra["take_table"] = rows
    chk.floor("C05/R3 take() variant rows", n, 3)
    # parking match in Session::recv
    t = fx.thir_body(SESSION + "::recv::{closure#0}::{closure#0}")
    body = T.user_body(t)
    pm = [m for m in T.find(body, "Match")
          if any(x.get("k") == "Variant" and x["adt"].endswith("session::OutstandingRequest") for a in m["arms"] for x in T.walk(a["pat"]))]
    if len(pm) != 1:
        chk.instance("C05/R3", "Session::recv parks a received reply through one match on the slot state", t["def"],
                     loc_of(t.get("sp")), holds=False, key="C05/R3 parking unrecognised-form")
        return
    rows = {}
    remaining = list(VARIANTS)
    n = 0
    for a in pm[0]["arms"]:
        vs = arm_variants(a["pat"], remaining)
        remaining = [v for v in remaining if v not in vs]
        v_s = T.expr_str(a["body"])
        for v in sorted(vs):
            n += 1
            rows[v] = v_s
            if v == "Pending":
                ok = "OutstandingRequest::Ready(reply)" in v_s and mutates_slot(a["body"]) and not T.find(a["body"], "Break")
                chk.instance("C05/R3", "parking: Pending => store Ready(reply) and keep reading", t["def"], loc_of(a.get("sp")), holds=ok,
                             key="C05/R3 parking arm Pending", detail=v_s)
            else:
                brk = T.peel(a["body"])
                if brk.get("k") == "Block":
                    brk = T.peel(brk.get("expr") or {})
                ok = brk.get("k") in ("Break", "Return") and "Result::Err" in v_s and not mutates_slot(a["body"])
                chk.instance("C05/R3", "parking: %s => error, slot untouched (no overwrite / double delivery)" % v, t["def"],
                             loc_of(a.get("sp")), holds=ok, key="C05/R3 parking arm %s" % v, detail=v_s)
    chk.extra["parking_table"] = rows
    chk.floor("C05/R3 parking variant rows", n, 3)


# ---------------------------------------------------------------------------------------------
def r4_r5_locks(chk, fx):
    edges = {}
    bodies = [b for n, b in sorted(fx.mir.items()) if n.startswith("netconf::session::") and b.coroutine]
    for b in bodies:
        locks = b.calls_to("tokio::sync::Mutex::<T>::lock", user_only=True)
        if not locks:
            continue
        chk.analysed(b.name)
        init_in, init_out = b.maybe_init()
        for lk in locks:
            # class of the mutex being locked: from the future's output type
            cls = None
            for ap in b.await_points():
                if ap["src"] is not None and ap["src"].bb == lk.bb:
                    pass
            dty = b.local_ty(lk.dest["l"])
            cls = "requests" if "OutstandingRequest" in dty else "rx" if "RecvHandle" in dty else "tx" if "SendHandle" in dty else "other"
            held = held_guards(b, init_in[lk.bb])
            for h in held:
                edges.setdefault((h, cls), []).append((b.name, lk.loc()))
    chk.extra["lock_order_edges"] = {"%s->%s" % k: v for k, v in edges.items()}
    # acyclic
    nodes = {a for a, _ in edges} | {c for _, c in edges}
    adj = {n: {c for (a, c) in edges if a == n} for n in nodes}

    def cyc(n, stack, seen):
        if n in stack:
            return True
        if n in seen:
            return False
        seen.add(n)
        return any(cyc(m, stack | {n}, seen) for m in adj.get(n, ()))
    has_cycle = any(cyc(n, frozenset(), set()) for n in nodes)
    chk.instance("C05/R5", "lock-order graph %s is acyclic" % sorted("%s->%s" % k for k in edges), "netconf::session", None,
                 holds=not has_cycle, key="C05/R5 lock-order-cycle")
    for (a, c), sites in sorted(edges.items()):
        chk.instance("C05/R5", "lock order %s -> %s" % (a, c), sites[0][0], sites[0][1], holds=a != c,
                     key="C05/R5 self-deadlock %s" % a)
    chk.extra["lock_order_edge_count"] = len(edges)
    # no requests guard across the transport read in recv
    b = fx.user_coroutine(SESSION + "::recv")
    init_in, _ = b.maybe_init()
    n = 0
    for ap in b.await_points():
        if ap["src"] is not None and ap["src"].is_fn("ServerMsg::recv"):
            n += 1
            held = held_guards(b, init_in[ap["yield"]])
            chk.instance("C05/R5", "requests map is not locked while waiting for the transport (held: %s)" % sorted(held), b.name,
                         loc_of(ap["sp"]), holds="requests" not in held, key="C05/R5 Session::recv requests-held-across-read")
            chk.instance("C05/R5", "the receive lock is held while reading (one reader at a time)", b.name, loc_of(ap["sp"]),
                         holds="rx" in held, key="C05/R5 Session::recv read-without-rx-lock")
    chk.floor("C05/R5 transport-read suspension points", n, 1)
    # check-then-read is atomic: the caller looks into its own slot while it already holds the receive lock, and keeps that
    # lock until it reads.  Otherwise another reader can park this caller's reply between the look and the read, and the caller
    # then blocks on the transport although its reply is in the table.
    gm = b.calls_to("HashMap::<K, V, S, A>::get_mut", "HashMap::<K, V, S>::get_mut", user_only=True)
    own = [g for g in gm if b.derives_from_var(F.op_base(g.args[1]), "message_id")]
    chk.floor("C05/R5 own-slot lookups", len(own), 1)
    for g in own:
        held = held_guards(b, init_in[g.bb])
        chk.instance("C05/R5", "the own-slot check happens under the receive lock (held: %s)" % sorted(held), b.name, g.loc(), holds="rx" in held,
                     key="C05/R5 Session::recv slot-check-without-rx-lock",
                     detail=None if "rx" in held else "check-own-slot and read-one-reply are not atomic with respect to other readers: a reply parked "
                     "in between is never found and its caller waits on the transport for ever")
        # the guard held at the check is the one still held at the read
        rx_at_check = set(held.get("rx", []))
        for ap in b.await_points():
            if ap["src"] is not None and ap["src"].is_fn("ServerMsg::recv"):
                rx_at_read = set(held_guards(b, init_in[ap["yield"]]).get("rx", []))
                chk.instance("C05/R5", "the receive lock taken before the slot check is the one held while reading", b.name, loc_of(ap["sp"]),
                             holds=bool(rx_at_check & rx_at_read), key="C05/R5 Session::recv rx-lock-reacquired-between-check-and-read")
    # R4: registration atomicity in rpc
    b = fx.user_coroutine(SESSION + "::rpc")
    init_in, _ = b.maybe_init()
    send = b.calls_to("ClientMsg::send", user_only=True)
    ins = b.calls_to("VacantEntry::<'a, K, V, A>::insert", "VacantEntry::<'a, K, V>::insert", "HashMap::<K, V, S>::insert",
                     "HashMap::<K, V, S, A>::insert", user_only=True)
    if len(send) != 1:
        raise F.AnchorLost("Session::rpc: send site")
    chk.instance("C05/R4", "Session::rpc registers the request (insert into the outstanding map)", b.name, None, holds=len(ins) == 1,
                 key="C05/R4 Session::rpc registration-sites %d" % len(ins))
    if len(ins) != 1:
        return
    for nm, pt in (("insert(Pending)", ins[0].bb),):
        held = held_guards(b, init_in[pt])
        chk.instance("C05/R4", "requests guard held at %s" % nm, b.name, None, holds="requests" in held,
                     key="C05/R4 Session::rpc requests-not-held-at %s" % nm)
    n = 0
    for ap in b.await_points():
        if ap["src"] is not None and ap["src"].is_fn("ClientMsg::send"):
            n += 1
            held = held_guards(b, init_in[ap["yield"]])
            chk.instance("C05/R4", "requests guard held across send().await (no reader can look the id up before it is registered)",
                         b.name, loc_of(ap["sp"]), holds="requests" in held, key="C05/R4 Session::rpc requests-released-before-send")
    chk.floor("C05/R4 send suspension points", n, 1)
    ok = b.ok_dominates(send[0], ins[0].bb)
    chk.instance("C05/R4", "insert(Pending) only after send succeeded (a failed send registers nothing)", b.name, ins[0].loc(),
                 holds=ok, key="C05/R4 Session::rpc insert-not-okdom-by-send")
    o = b.backward_origins(F.op_base(ins[0].args[1]), through_call=lambda c: False)
    ok = any(x["k"] == "agg" and x["rv"].get("variant") == "Pending" for x in o)
    chk.instance("C05/R4", "the registered state is Pending", b.name, ins[0].loc(), holds=ok, key="C05/R4 Session::rpc registered-state")
    # the reply future is handed out only after registration
    rcv = b.calls_to(SESSION + "::recv", user_only=True)[0]
    chk.instance("C05/R4", "the reply future is created only after registration", b.name, rcv.loc(),
                 holds=b.dominates(ins[0].bb, rcv.bb) or b.ok_dominates(send[0], rcv.bb), key="C05/R4 Session::rpc recv-before-register")


# ---------------------------------------------------------------------------------------------
def r6_crosscheck(chk, fx):
    name = "<netconf::message::rpc::Reply<O> as std::convert::TryFrom<netconf::message::rpc::PartialReply>>::try_from"
    b = fx.body(name)
    chk.analysed(b.name)
    ne = [c for c in b.calls() if not c.macro and c.is_fn("PartialEq::ne", "PartialEq::eq") and "MessageId" in " ".join(c.gargs)]
    if len(ne) != 1:
        raise F.AnchorLost("Reply::try_from: message-id comparison not found")
    want = not ne[0].is_fn("PartialEq::ne")
    n = 0
    for (bi, si, s) in b.ok_aggs():
        n += 1
        ok = b.guarded_by_call(bi, ne[0], want=want)
        chk.instance("C05/R6", "Reply::try_from returns Ok only when the parsed message-id equals the expected one", b.name,
                     loc_of(s.get("sp")), holds=ok, key="C05/R6 try_from id-check")
    chk.floor("C05/R6 Ok sites in try_from", n, 1)
    # both operands: this.message_id and value.message_id
    ops = []
    for a in ne[0].args:
        o = b.backward_origins(F.op_base(a), through_call=lambda c: False)
        ops.append(sorted({(x["pl"].get("p") or [""])[-1] for x in o if x["k"] == "place"}))
    chk.instance("C05/R6", "the comparison is between the two message_id fields", b.name, ne[0].loc(),
                 holds=all(".message_id" in x for x in ops), key="C05/R6 try_from compared-fields")
