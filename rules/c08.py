"""C08 — A reply carrying an error is never reported as success.

GUARD (MIR edge dominance on predicate results), TABLE (THIR match tables), ORIGIN / WHO (MIR).
"""
from vlib import facts as F, thir as T
from vlib.report import loc_of

NC = "netconf"
READERS = [
    # (impl self type as printed, enum adt path, success variants)
    ("netconf::message::rpc::EmptyReply", "netconf::message::rpc::EmptyReply", ("Ok",)),
    ("netconf::message::rpc::DataReply<D>", "netconf::message::rpc::DataReply", ("Data",)),
    ("netconf::message::rpc::operation::junos::BareReply", "netconf::message::rpc::operation::junos::BareReply", ("Ok",)),
    ("netconf::message::rpc::operation::junos::load_configuration::Reply",
     "netconf::message::rpc::operation::junos::load_configuration::Reply", ("Ok",)),
]
ERRORS_TY = "netconf::message::rpc::error::Errors"

EXPLANATION = (
    "C08/R1 (GUARD): in each of the four reply readers every construction of the success variant is reachable only "
    "through the 'no error' edge of a predicate over the accumulated Errors value (Errors::is_empty true edge, or the "
    "severity-aware `!errors.iter().any(|e| e.severity() == Severity::Error)`), and every Errors::push that shares a loop "
    "with a success construction is reachable only through the true edge of Option::is_none on the pending result — so an "
    "rpc-error of severity error before or after the positive indication can never end in the success variant. "
    "C08/R2 (TABLE): every IntoResult impl maps the Errs variant to Err and only success variants to Ok; Reply<O>::into_result "
    "forwards. C08/R3 (ORIGIN/WHO): the Errors placed in Errs is the local every rpc-error was pushed to; Errors.inner is "
    "mutated only by Errors::push (Vec::push = append, so order is the reply's order); crate::Error::from(Errors) wraps it "
    "unchanged. C08/R4: outside the guarded sites no success variant is constructed (closures of the final classification "
    "included). Decided on all CFG paths of the readers; rpc-error leaf parsing fidelity is not decided here."
)


def run(ctx):
    chk, fx = ctx.chk, ctx.facts
    chk.explanation = EXPLANATION
    chk.assumptions += [
        "Vec::push appends; Vec iteration is in insertion order (std)",
        "quick-xml delivers events in document order",
    ]
    n_readers = 0
    for (self_ty, adt, succ) in READERS:
        name = "<%s as netconf::message::ReadXml>::read_xml" % self_ty
        bodies = [b for n, b in sorted(fx.mir.items()) if n == name or n.startswith(name + "::{closure")]
        if not bodies or bodies[0].name != name and name not in fx.mir:
            raise F.AnchorLost("reader not found: %s" % name)
        bodies += reader_helpers(fx, fx.mir[name])
        n_readers += 1
        r1_reader(chk, fx, fx.mir[name], bodies, adt, succ)
        r4_strict_reader(chk, fx, name)
        r6_every_error_is_kept(chk, fx, name)
    chk.floor("C08/R1 reply readers", n_readers, 4)
    # any other ReadXml impl that constructs one of the reply enums' success variant? (fail closed on new readers)
    reply_adts = {a for (_, a, _) in READERS}
    new_replies = []
    for it in fx.item_list:
        if it["kind"] == "Impl" and it.get("trait", "").endswith("message::rpc::IntoResult"):
            if it.get("self_adt") not in reply_adts and not it["self"].startswith("netconf::message::rpc::Reply<"):
                new_replies.append(it)
    for it in new_replies:
        chk.instance("C08/R1", "reply type %s has no audited reader entry" % it["self"], it["qdef"], loc_of(it.get("sp")),
                     holds=False, key="C08/R1 unaudited-reply-type %s" % T.strip_generics(it["self"]))
    r2_into_result(chk, fx)
    r3_errors_integrity(chk, fx)
    r5_wrappers_keep_the_verdict(chk, fx)


def r6_every_error_is_kept(chk, fx, name):
    """'.. the errors reported are exactly those of the reply, in order': every <rpc-error> the reader parses goes into the list it
    reports — pushed on the same path, whatever its severity.  (Order and nothing-else are R3: push appends, nothing else mutates.)
    Decided on explored paths of the reader: an element iteration that parsed an rpc-error and goes on reading has pushed it."""
    from vlib import absint as A
    if name not in fx.thir:
        return

    def hook(fn, args, node, interp):
        if fn.endswith("rpc::error::Error as netconf::message::ReadXml>::read_xml") or (T.short(fn, 2) == "ReadXml::read_xml" and "rpc::error::Error" in str(node.get("gargs"))) \
                or (fn.endswith("::read_xml") and "rpc::error::Error" in fn):
            interp.trace.append(("rpc-error-read", node.get("sp")))
            return A.ok(("sym", "RPCERR"))
        if T.short(fn, 2) == "Errors::push" and len(args) == 2:
            interp.trace.append(("pushed", args[1], node.get("sp")))
            return ("unit",)
        return None
    paths = [p for p in A.Interp(fx, hook=hook, crates=(NC,), max_paths=6000).explore(name) if p.end != "abort"]
    n = 0
    for p in paths:
        rd = [e for e in p.trace if e[0] == "rpc-error-read"]
        if not rd or p.end != "iter-end":
            continue
        n += 1
        kept = any(e[0] == "pushed" and A.mentions(e[1], lambda x: x == ("sym", "RPCERR")) for e in p.trace)
        chk.instance("C08/R6", "%s: an <rpc-error> that was parsed is added to the reported list" % short_reader(name), name, loc_of(rd[0][1]), holds=kept,
                     key="C08/R6 %s parsed-error-not-kept" % short_reader(name),
                     detail=None if kept else "on a path the parsed error is dropped (by severity, say): the list the caller gets is not the reply's")
    chk.floor("C08/R6 %s paths that parse an rpc-error" % short_reader(name), n, 1)


def short_reader(name):
    return T.short(T.strip_generics(name.split(" as ")[0].lstrip("<")), 2)


def reader_helpers(fx, root):
    """Private helpers a reader hands its NsReader to (part of the reader moved into an inherent / free fn): analysed with it.
    Other types' ReadXml impls are readers of their own."""
    out, seen = [], {root.name}
    work = [root]
    while work:
        b = work.pop()
        for c in b.calls():
            hb = None if c.macro else (fx.mir.get(c.rdef) or fx.mir.get(c.defn))
            if hb is None or hb.crate != root.crate or hb.name in seen or " as netconf::message::ReadXml>" in hb.name or "::tests::" in hb.name:
                continue
            if not any("NsReader" in hb.local_ty(i) for i in range(1, hb.raw["arg_count"] + 1)):
                continue
            seen.add(hb.name)
            out.append(hb)
            out += [x for n, x in sorted(fx.mir.items()) if n.startswith(hb.name + "::{closure")]
            work.append(hb)
    return out


def is_success_agg(s, adt, succ):
    rv = s["rv"]
    return rv["k"] == "agg" and rv.get("adt") == adt and rv.get("variant") in succ


def ctor_payload_sites(b, adt, succ):
    """The success variant built by handing its constructor to an adaptor (`data.map(Self::Data)`): the reply is a success exactly when the
    wrapped payload exists, so the sites that decide are those that *store* a payload — the `Some(..)` constructions the adaptor's
    receiver derives from.  Returns [(bb, span, variant)]; [] if no constructor of a success variant is used as a function value."""
    out = []
    for c in b.calls():
        if c.macro:
            continue
        for a in c.args:
            if a.get("c") == "const" and (a.get("def") or "").rsplit("::", 1)[0] == T.strip_generics(adt) and (a.get("def") or "").rsplit("::", 1)[-1] in succ:
                variant = a["def"].rsplit("::", 1)[-1]
                for o in c.args:
                    l = F.op_base(o)
                    if l is None:
                        continue
                    b.backward_origins(l, through_call=lambda x: x.is_fn(*F.PASS_THROUGH))
                    for v in sorted(b._last_visited):
                        for (bi, si, kind, payload) in b.defs().get(v, []):
                            if kind == "assign" and not b.blocks[bi].get("cleanup") and payload["rv"]["k"] == "agg" \
                                    and (payload["rv"].get("adt") or "").endswith("option::Option") and payload["rv"].get("variant") == "Some":
                                out.append((bi, payload.get("sp") or b.blocks[bi]["stmts"][si].get("sp"), variant))
    return out


def no_error_guards(b, bb):
    """All (description, predicate call) whose 'no error' edge dominates bb (a guard kept in a bool local counts as long as no
    rpc-error can be recorded between computing it and using it)."""
    out = []
    pushes = [c for c in b.calls() if c.is_fn("rpc::error::Errors::push")]
    for c in b.calls():
        if c.is_fn("rpc::error::Errors::is_empty"):
            if b.guarded_by_call(bb, c, want=True, stale_after=pushes):
                out.append(("Errors::is_empty", c))
        if c.is_fn("Iterator::any") and _any_is_severity_error(b, c):
            if b.guarded_by_call(bb, c, want=False, stale_after=pushes):
                out.append(("!errors.iter().any(severity == Error)", c))
        if c.is_fn("Iterator::all") and _all_is_not_severity_error(b, c):
            if b.guarded_by_call(bb, c, want=True, stale_after=pushes):
                out.append(("errors.iter().all(severity != Error)", c))
        pol = _helper_polarity(b, c)
        if pol is not None and b.guarded_by_call(bb, c, want=(pol == "no-error")):
            out.append(("%s(errors) [%s]" % (T.short(c.name(), 1), "true = no error" if pol == "no-error" else "false = no error"), c))
    return out


def no_error_guard(b, bb):
    """bb is dominated by the 'no error' edge of a predicate on an Errors value."""
    g = no_error_guards(b, bb)
    return g[0][0] if g else None


def accumulators_of(b, local):
    """The Errors::new() calls a value derives from (which error list it is)."""
    if local is None:
        return set()
    org = b.backward_origins(local, through_call=lambda c: not c.is_fn("Errors::new"))
    return {(o["call"].bb, o["call"].loc()) for o in org if o["k"] == "call" and o["call"] is not None and o["call"].is_fn("Errors::new")}


_HELPERS = {}


def _helper_polarity(b, c):
    """A private helper `fn h(&Errors) -> bool` that returns one of the audited predicates (possibly negated): 'no-error' if true means
    'no error of severity error collected', 'has-error' if true means there is one; None if it is anything else."""
    fx = getattr(b, "_fx", None)
    callee = c.rdef if fx is not None and c.rdef in fx.thir else c.defn
    if fx is None or callee not in fx.thir or c.macro:
        return None
    if callee in _HELPERS:
        return _HELPERS[callee]
    it = None
    try:
        it = fx.fn_item(callee)
    except F.AnchorLost:
        pass
    pol = None
    if it is not None and it.get("output") == "bool" and any(ERRORS_TY in x for x in it.get("inputs", [])):
        from vlib import absint as A

        def hook(fn, args, node, interp):
            s2 = T.short(fn, 2)
            if s2 == "Errors::is_empty":
                return ("sym", "EMPTY")
            if s2 in ("Iterator::any", "Iterator::all") and len(args) == 2 and "Errors::iter" in A.vstr(args[0]):
                clo = args[1]
                t = fx.thir.get(clo[1]) if clo[0] == "closure" else None
                txt = T.expr_str(T.user_body(t)) if t is not None else ""
                if s2.endswith("any") and "Severity::Error" in txt and "severity" in txt and ("Eq" in txt or "PartialEq::eq" in txt) and "Ne" not in txt:
                    return ("sym", "ANY_ERROR")
                if s2.endswith("all") and "Severity::Error" in txt and "severity" in txt and ("Ne" in txt or "PartialEq::ne" in txt):
                    return ("sym", "NO_ERROR")
            return None
        try:
            paths = A.Interp(fx, hook=hook, crates=(NC,), no_inline=("Errors::iter", "Error::severity")).explore(callee)
        except A.Undecided:
            paths = []
        if len(paths) == 1 and paths[0].ret is not None:
            v, neg = paths[0].ret, False
            while v[0] == "not":
                v, neg = v[1], not neg
            try:
                base = {("sym", "EMPTY"): "no-error", ("sym", "NO_ERROR"): "no-error", ("sym", "ANY_ERROR"): "has-error"}.get(v)
            except TypeError:
                base = None
            if base is not None:
                pol = base if not neg else ("has-error" if base == "no-error" else "no-error")
    _HELPERS[callee] = pol
    return pol


def _closure_arg_thir(b, c):
    """THIR body of the closure passed as last argument of call c."""
    fx = b._fx
    l = F.op_base(c.args[-1])
    if l is None:
        return None
    for o in b.backward_origins(l):
        if o["k"] == "agg" and o["rv"].get("closure"):
            return fx.thir.get(o["rv"]["closure"])
    ty = b.local_ty(l)
    # closure type is printed as {closure@file:line:col: ...}; fall back: closures defined in this body
    return None


def _iter_over_errors(b, c):
    l = F.op_base(c.args[0])
    if l is None:
        return False
    for o in b.backward_origins(l, through_call=lambda x: False):
        if o["k"] == "call" and o["call"] is not None and o["call"].is_fn("rpc::error::Errors::iter"):
            return True
    return False


def _any_is_severity_error(b, c):
    if not _iter_over_errors(b, c):
        return False
    t = _closure_arg_thir(b, c)
    if t is None:
        return False
    s = T.expr_str(T.user_body(t))
    return "Severity::Error" in s and ("Eq" in s or "PartialEq::eq" in s) and "Ne" not in s and "severity" in s


def _all_is_not_severity_error(b, c):
    if not _iter_over_errors(b, c):
        return False
    t = _closure_arg_thir(b, c)
    if t is None:
        return False
    s = T.expr_str(T.user_body(t))
    return "Severity::Error" in s and ("Ne" in s or "PartialEq::ne" in s) and "severity" in s


def r1_reader(chk, fx, root, bodies, adt, succ):
    fn = T.strip_generics(root.name)
    n_succ = 0
    for b in bodies:
        b._fx = fx
        chk.analysed(b.name)
        for bi, bl in enumerate(b.blocks):
            if bl.get("cleanup"):
                continue
            for s in bl["stmts"]:
                if s["k"] == "assign" and is_success_agg(s, adt, succ):
                    n_succ += 1
                    g = no_error_guard(b, bi)
                    chk.instance("C08/R1", "success variant %s::%s constructed only on the no-error edge" % (T.short(adt, 1), s["rv"]["variant"]),
                                 b.name, loc_of(s.get("sp")), holds=g is not None, detail=g,
                                 key="C08/R1 %s success-not-guarded-by-error-state" % fn)
                    # .. and the guard looks at every list into which this reader collects rpc-errors, not just one of them
                    pushed = set()
                    for p in b.calls():
                        if p.is_fn("rpc::error::Errors::push"):
                            pushed |= accumulators_of(b, F.op_base(p.args[0]))
                    seen = set()
                    for (_, gc) in no_error_guards(b, bi):
                        seen |= accumulators_of(b, F.op_base(gc.args[0]))
                    if g is not None and pushed:
                        miss = sorted(x[1] for x in pushed - seen) if seen else []
                        chk.instance("C08/R1", "the success guard covers every error list of the reader (%d)" % len(pushed), b.name, loc_of(s.get("sp")),
                                     holds=not miss, key="C08/R1 %s success-guard-misses-an-error-list" % fn,
                                     detail=None if not miss else "rpc-errors collected into the list created at %s do not prevent the success variant" % miss)
    if n_succ == 0:
        for b in bodies:
            for (bi, sp, variant) in ctor_payload_sites(b, adt, succ):
                n_succ += 1
                g = no_error_guard(b, bi)
                chk.instance("C08/R1", "payload of the success variant %s::%s (wrapped after the loop by its constructor) is stored only on the no-error edge"
                             % (T.short(adt, 1), variant), b.name, loc_of(sp), holds=g is not None, detail=g, key="C08/R1 %s success-not-guarded-by-error-state" % fn)
    if n_succ == 0:
        raise F.AnchorLost("%s constructs no success variant" % root.name)
    # pushes sharing a loop with a success construction need the `pending result is none` guard
    all_pushes = [(b, c) for b in bodies for c in b.calls() if c.is_fn("rpc::error::Errors::push")]
    chk.call_sites += len(all_pushes)
    if not all_pushes:
        raise F.AnchorLost("%s never records an rpc-error" % root.name)
    for (b, p) in all_pushes:
        b._fx = fx
        succ_blocks = [bi for bi, bl in enumerate(b.blocks) if not bl.get("cleanup")
                       for s in bl["stmts"] if s["k"] == "assign" and is_success_agg(s, adt, succ)]
        in_loop_with_success = False
        inner = None
        for h in b.loop_heads():
            lp = b.natural_loop(h)
            if p.bb in lp and any(sb in lp for sb in succ_blocks):
                in_loop_with_success = True
                if inner is None or len(lp) < len(inner):
                    inner = lp
        if in_loop_with_success:
            ok = False
            for c in b.calls():
                # the guard must be re-evaluated on every iteration of the innermost loop shared with the success site
                if c.bb in inner and c.is_fn("Option::<T>::is_none") and adt.split("<")[0] in (b.local_ty(F.op_base(c.args[0])) or ""):
                    if b.guarded_by_call(p.bb, c, want=True):
                        ok = True
            chk.instance("C08/R1", "rpc-error accepted only while no positive indication was seen (is_none guard)",
                         b.name, p.loc(), holds=ok, key="C08/R1 %s error-accepted-after-success" % fn)
        else:
            chk.instance("C08/R1", "rpc-error recorded; success decided after the loop", b.name, p.loc(), holds=True)
        # the pushed value is the parsed rpc-error of this reply
        org = b.backward_origins(F.op_base(p.args[1]), through_call=lambda c: c.is_fn("Try::branch"))
        srcs = [o["call"] for o in org if o["k"] == "call" and o["call"] is not None]
        ok = bool(srcs) and all(c.rdef and "rpc::error::Error as netconf::message::ReadXml>::read_xml" in c.rdef for c in srcs)
        chk.instance("C08/R3", "pushed error is the rpc-error element just parsed", b.name, p.loc(), holds=ok,
                     key="C08/R3 %s pushed-error-origin" % fn)
    # the error list lives as long as the reply is being read: creating it anew inside a reading loop forgets what was collected
    for b in bodies:
        heads = b.loop_heads()
        for c in b.calls():
            if c.is_fn("Errors::new") and not c.macro:
                inside = any(c.bb in b.natural_loop(h) for h in heads)
                chk.instance("C08/R3", "the error list is created once, outside the reading loop", b.name, c.loc(), holds=not inside,
                             key="C08/R3 %s error-list-recreated-in-loop" % fn,
                             detail=None if not inside else "rpc-errors collected before this point no longer count: a later <ok/> is accepted")
    # Errs(errors): payload is the accumulated Errors local
    n_errs = 0
    for bb in bodies:
        for (bi, si, s) in bb.aggs_of(adt.split("::")[-1]):
            if s["rv"].get("adt") == adt and s["rv"].get("variant") == "Errs":
                n_errs += 1
                l = F.op_base(s["rv"]["fields"][0])
                ok = l is not None and ERRORS_TY in bb.local_ty(l)
                # .. created by Errors::new() here, or handed back by one of this reader's own helpers (analysed with it)
                helper_names = {x.name for x in bodies}
                org = bb.backward_origins(l, through_call=lambda c: c.is_fn("Try::branch")) if l is not None else []
                bad = [o for o in org if o["k"] == "call" and o["call"] is not None and not o["call"].is_fn("Errors::new")
                       and not ((o["call"].rdef or o["call"].defn) in helper_names)]
                chk.instance("C08/R3", "Errs(..) carries the accumulated Errors value", bb.name, loc_of(s.get("sp")),
                             holds=ok and not bad, key="C08/R3 %s Errs-payload-origin" % fn)
    if n_errs == 0:
        raise F.AnchorLost("%s never constructs Errs" % root.name)


def r2_into_result(chk, fx):
    n = 0
    for it in fx.item_list:
        if it["kind"] != "Impl" or not it.get("trait", "").endswith("message::rpc::IntoResult"):
            continue
        fn = [a for a in it["assoc"] if a.endswith("::into_result")]
        if not fn:
            continue
        t = fx.thir.get(fn[0])
        if t is None:
            raise F.AnchorLost("no THIR for %s" % fn[0])
        chk.analysed(fn[0])
        body = T.user_body(t)
        ms = T.find(body, "Match")
        if len(ms) != 1:
            chk.instance("C08/R2", "into_result is a single match on self", fn[0], loc_of(t.get("sp")), holds=False,
                         key="C08/R2 %s unrecognised-form" % T.strip_generics(fn[0]))
            continue
        for a in ms[0]["arms"]:
            p = T.pat_str(a["pat"])
            res = T.peel(a["body"])
            rs = T.expr_str(res)
            n += 1
            if "::Errs" in p:
                ok = res.get("k") == "Adt" and res["variant"] == "Err" and "errs" in rs or (res.get("k") == "Adt" and res["variant"] == "Err" and _mentions_binding(a))
                chk.instance("C08/R2", "%s => %s" % (p, rs), fn[0], loc_of(a.get("sp")), holds=bool(ok),
                             key="C08/R2 %s Errs-arm-not-Err" % T.strip_generics(fn[0]))
            elif "::Ok" in p or "::Data" in p:
                ok = res.get("k") == "Adt" and res["variant"] == "Ok"
                chk.instance("C08/R2", "%s => %s" % (p, rs), fn[0], loc_of(a.get("sp")), holds=bool(ok),
                             key="C08/R2 %s success-arm-not-Ok" % T.strip_generics(fn[0]))
            else:
                oks = [x for x in T.find(a["body"], "Adt") if x["variant"] == "Ok" and x["adt"].endswith("result::Result")]
                chk.instance("C08/R2", "%s => %s (must not be Ok)" % (p, rs), fn[0], loc_of(a.get("sp")), holds=not oks,
                             key="C08/R2 %s other-arm-yields-Ok" % T.strip_generics(fn[0]))
    chk.floor("C08/R2 into_result arms", n, 8)
    # Reply<O>::into_result forwards
    t = fx.thir_body("netconf::message::rpc::Reply::<O>::into_result")
    s = T.expr_str(T.user_body(t))
    chk.instance("C08/R2", "Reply<O>::into_result = %s" % s, t["def"], loc_of(t.get("sp")),
                 holds=s.replace(" ", "") in ("IntoResult::into_result(self.inner)", "{IntoResult::into_result(self.inner)}"),
                 key="C08/R2 Reply::into_result-not-forwarding")
    # crate::Error: From<Errors> wraps unchanged
    fr = [n for n in fx.mir if n.startswith("<netconf::error::Error as std::convert::From<netconf::message::rpc::error::Errors>>::from")]
    if not fr:
        raise F.AnchorLost("From<Errors> for Error not found")
    b = fx.mir[fr[0]]
    aggs = b.aggs_of("error::Error")
    ok = len(aggs) == 1 and aggs[0][2]["rv"]["variant"] == "RpcError" and not b.calls()
    chk.instance("C08/R2", "Error::from(Errors) = Error::RpcError(errors), nothing else", b.name, None, holds=ok,
                 key="C08/R2 Error-from-Errors")


def _mentions_binding(arm):
    binds = [n["name"] for n in T.walk(arm["pat"]) if n.get("k") == "Bind"]
    vars_ = [n["name"] for n in T.walk(arm["body"]) if n.get("k") == "Var"]
    return any(b in vars_ for b in binds)


def r3_errors_integrity(chk, fx):
    # WHO: mutable access to Errors.inner only inside Errors::push
    n = 0
    for name, b in fx.mir.items():
        if b.crate != NC:
            continue
        for bi, bl in enumerate(b.blocks):
            for s in bl["stmts"]:
                if s["k"] != "assign":
                    continue
                rv = s["rv"]
                places = []
                if rv["k"] == "ref" and rv["bk"] == "mut":
                    places.append(rv["pl"])
                if s["pl"].get("p"):
                    places.append(s["pl"])
                for pl in places:
                    if pl.get("p") and pl["p"][-1] == ".inner" and ERRORS_TY in b.local_ty(pl["l"]):
                        n += 1
                        ok = name == "netconf::message::rpc::error::Errors::push"
                        chk.instance("C08/R3", "Errors.inner mutated only in Errors::push", name, loc_of(s.get("sp")),
                                     holds=ok, key="C08/R3 Errors.inner-mutated-in %s" % T.strip_generics(name))
    chk.floor("C08/R3 Errors.inner mutation sites", n, 1)
    b = fx.body("netconf::message::rpc::error::Errors::push")
    cs = [c for c in b.calls()]
    ok = len(cs) == 1 and cs[0].is_fn("Vec::<T, A>::push")
    chk.instance("C08/R3", "Errors::push appends (single Vec::push)", b.name, None, holds=ok, key="C08/R3 Errors::push-not-append")
    # the predicates every reader's "was any rpc-error collected?" rests on mean what they say: is_empty / len are those of the list itself
    # (a len that leaves out warnings makes a reply holding only warnings "empty": BareReply reports success for a non-empty reply)
    from vlib import absint as A
    for meth, want in (("is_empty", ("Vec::is_empty", "slice::is_empty")), ("len", ("Vec::len", "slice::len"))):
        mn = "netconf::message::rpc::error::Errors::" + meth
        if mn not in fx.thir:
            continue
        ps = [p for p in A.Interp(fx, crates=(NC,)).explore(mn) if p.end != "abort"]
        vals = sorted({A.vstr(p.ret) for p in ps if p.ret is not None})
        ok = len(vals) == 1 and any(vals[0] == "%s(«param:self».inner)" % w for w in want)
        chk.instance("C08/R3", "Errors::%s is that of the collected list (%s)" % (meth, vals[:2]), mn, None, holds=ok, key="C08/R3 Errors::%s not-the-list's" % meth)
    # aggregates of Errors only in Errors::new (nobody else fabricates an error list)
    for name, b in fx.mir.items():
        if b.crate != NC:
            continue
        for (bi, si, s) in b.aggs_of("rpc::error::Errors"):
            ok = name == "netconf::message::rpc::error::Errors::new" or "as std::clone::Clone>::clone" in name
            chk.instance("C08/R3", "Errors constructed only by Errors::new", name, loc_of(s.get("sp")), holds=ok,
                         key="C08/R3 Errors-built-in %s" % T.strip_generics(name))


# ---------------------------------------------------------------------------------------------
def r4_strict_reader(chk, fx, name):
    """A reply counts as success when no rpc-error was *recognised* in it.  That is only sound if everything the reader does not
    recognise fails the reply: an arm that skips unnamed elements or text hides an error reported in a wrapper element, a vendor
    error element or a nested position.  Every loop of the reader: no lenient arm, and the catch-all arm returns Err."""
    from . import readers as R
    names = [name] + ([h.name for h in reader_helpers(fx, fx.mir[name])] if name in fx.mir else [])
    loops = [lp for lp in R.reader_loops(fx) if any(lp.fn == n or lp.fn.startswith(n + "::{closure") for n in names)]
    if not loops:
        raise F.AnchorLost("no reader loop found in %s" % name)
    for lp in loops:
        # elements only: skipped character data cannot hide an <rpc-error>
        lenient = [a for a in R.lenient_arms(lp) if a.kinds & {"Start", "Empty"}]
        chk.instance("C08/R4", "%s rejects elements it does not recognise (no arm skips an unnamed element)" % lp.label(), lp.fn,
                     loc_of((lenient or [lp])[0].sp), holds=not lenient, key="C08/R4 %s skips-unrecognised-content" % lp.label(),
                     detail=None if not lenient else "an error reported in a form or position the reader does not know is taken for success")
        ca = [a for a in lp.arms if a.catch_all]
        strict = bool(ca) and all(lp.arm_fails(a) for a in ca)
        chk.instance("C08/R4", "%s: the catch-all arm fails the reply" % lp.label(), lp.fn, loc_of((ca or [lp])[0].sp), holds=strict,
                     key="C08/R4 %s catch-all-accepts" % lp.label())


# ---------------------------------------------------------------------------------------------
def r5_wrappers_keep_the_verdict(chk, fx):
    """Between the reply's into_result() and the caller stands, for <close-session>, Session::close: an Err (the server's rpc-error
    included) must come out as Err.  Same decision as C04/R7, recorded here."""
    from .c15 import _Rename
    from . import c04
    c04.r7_close_verdict(_Rename(chk, "C04/R7", "C08/R5"), fx)
