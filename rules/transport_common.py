"""Shared anchors for the transport rules (C06, C07, C18)."""
from vlib import facts as F

NC = "netconf"
STREAM_RECEIVERS = {
    "tls": "<netconf::transport::tls::Receiver as netconf::transport::RecvHandle>::recv",
    "junos_local": "<netconf::transport::junos_local::Receiver as netconf::transport::RecvHandle>::recv",
}
SSH_RECEIVER = "<netconf::transport::ssh::Receiver as netconf::transport::RecvHandle>::recv"
SSH_CONNECT = "netconf::transport::ssh::Ssh::connect"
MARKER_CONST = "netconf::message::MARKER"


def stream_receivers(fx):
    out = {}
    for k, name in STREAM_RECEIVERS.items():
        out[k] = fx.user_coroutine(name)
    return out


def ssh_pump(fx):
    cands = [b for n, b in fx.mir.items() if n.startswith(SSH_CONNECT + "::{closure") and b.coroutine
             and b.calls_to("russh::Channel::<S>::wait")]
    if len(cands) > 1:
        # the pump is the one that also serves the outgoing queue; other coroutines waiting on the channel (set-up) are C07/R2's business
        pumps = [b for b in cands if b.calls_to("mpsc::Receiver::<T>::recv")]
        if len(pumps) == 1:
            cands = pumps
    if len(cands) != 1:
        raise F.AnchorLost("ssh pump task: expected one coroutine under %s calling Channel::wait, found %d" % (SSH_CONNECT, len(cands)))
    return cands[0]


def is_marker_const(op):
    return op.get("c") == "const" and (op.get("cdef") == MARKER_CONST or "]]>]]>" in (op.get("v") or ""))


def mentions_marker(origins):
    return any(o["k"] == "const" and is_marker_const(o["op"]) for o in origins)


def int_const(op):
    if op.get("c") == "const" and "i" in op:
        return op["i"]
    return None


# ---------------------------------------------------------------------------------------------
# tiny symbolic evaluator for usize expressions in the receive loops
# ---------------------------------------------------------------------------------------------
def marker_len(fx):
    t = fx.thir_body(MARKER_CONST)
    from vlib import thir as T
    lits = [n for n in T.walk(t["body"]) if n.get("k") == "Lit" and n.get("lk") == "bytes"]
    if len(lits) != 1:
        raise F.AnchorLost("MARKER is not a single byte-string literal")
    return len(lits[0]["v"]), lits[0]["v"]


class Sym:
    def __init__(self, body, mlen):
        self.b = body
        self.mlen = mlen
        self.calls = {c.bb: c for c in body.calls()}

    def of_operand(self, op, depth=0):
        if op.get("c") == "const":
            if "i" in op:
                return ("const", op["i"])
            if is_marker_const(op):
                return ("marker",)
            return ("unknown", op.get("v"))
        pl = op["pl"]
        return self.of_place(pl, depth)

    def of_place(self, pl, depth=0):
        proj = pl.get("p") or []
        l = pl["l"]
        if depth > 30:
            return ("unknown", "depth")
        defs = [d for d in self.b.defs().get(l, []) if not self.b.blocks[d[0]].get("cleanup") and not (d[2] == "assign" and d[3]["pl"].get("p"))]
        if len(defs) != 1:
            return ("var", l)
        (bi, si, kind, payload) = defs[0]
        if kind == "call":
            c = self.calls[bi]
            if proj and proj[0].startswith("as Some") and c.is_fn("memmem::Finder::<'n>::find"):
                return ("index",)
            if proj and proj[0].startswith("as Continue") and c.is_fn("Try::branch"):
                # `find(..)?` on an Option: the Continue payload is the Some payload
                inner = c.args[0]
                if inner.get("pl") is not None:
                    ipl = inner["pl"]
                    return self.of_place({"l": ipl["l"], "p": (ipl.get("p") or []) + ["as Some", ".0"]}, depth + 1)
            if proj and proj != ["*"]:
                return ("unknown", "proj-of-call")
            if c.is_fn("slice::<impl [T]>::len"):
                inner = self.of_operand(c.args[0], depth + 1)
                if inner == ("marker",):
                    return ("const", self.mlen)
                return ("len", inner)
            if c.is_fn("bytes::BytesMut::len"):
                return ("buflen",)
            if c.is_fn("saturating_sub"):
                return ("satsub", self.of_operand(c.args[0], depth + 1), self.of_operand(c.args[1], depth + 1))
            if c.is_fn("Deref::deref"):
                return self.of_operand(c.args[0], depth + 1)
            return ("call", c.name())
        if kind == "assign":
            rv = payload["rv"]
            k = rv["k"]
            if k == "use" or k == "cast":
                inner = rv["op"]
                if inner.get("c") == "const":
                    return self.of_operand(inner, depth + 1)
                ipl = dict(inner["pl"])
                v = self.of_place({"l": ipl["l"], "p": (ipl.get("p") or []) + []}, depth + 1)
                # a projection on our own place applies to the value we got
                if proj and proj[0] == ".0" and isinstance(v, tuple) and v[0] in ("add_ovf", "sub_ovf"):
                    return (v[0][:3],) + v[1:]
                return v if not proj or proj == ["*"] else self._proj(v, proj)
            if k == "ref":
                return self.of_place(rv["pl"], depth + 1)
            if k == "binop":
                a = self.of_operand(rv["l"], depth + 1)
                b2 = self.of_operand(rv["r"], depth + 1)
                op = rv["bop"]
                if op in ("Add", "AddUnchecked"):
                    return ("add", a, b2)
                if op in ("Sub", "SubUnchecked"):
                    return ("sub", a, b2)
                if op == "AddWithOverflow":
                    r = ("add_ovf", a, b2)
                    return self._proj(r, proj) if proj else r
                if op == "SubWithOverflow":
                    r = ("sub_ovf", a, b2)
                    return self._proj(r, proj) if proj else r
                return ("binop", op, a, b2)
            if k == "agg":
                return ("agg", rv.get("adt") or "", [self.of_operand(f, depth + 1) for f in rv["fields"]])
        return ("unknown", kind)

    def _proj(self, v, proj):
        if proj and proj[0] == ".0" and isinstance(v, tuple) and v[0] in ("add_ovf", "sub_ovf"):
            return (v[0][:3],) + v[1:]
        if proj and proj[0].startswith(".") and isinstance(v, tuple) and v[0] in ("buflen", "var"):
            return ("field", v, proj)
        if proj == ["*"]:
            return v
        return ("proj", v, tuple(proj))

    def alternatives(self, l):
        """All defining expressions of a (possibly multiply-assigned) local."""
        out = []
        for (bi, si, kind, payload) in self.b.defs().get(l, []):
            if self.b.blocks[bi].get("cleanup"):
                continue
            if kind == "assign" and not payload["pl"].get("p"):
                rv = payload["rv"]
                if rv["k"] == "use":
                    out.append((self.of_operand(rv["op"]), payload.get("sp")))
                else:
                    out.append((("unknown", rv["k"]), payload.get("sp")))
            elif kind == "call":
                out.append((("call", self.calls[bi].name()), payload.get("sp")))
        return out


def fold(e, mlen):
    """Constant-fold; returns int or None."""
    if not isinstance(e, tuple):
        return None
    if e[0] == "const":
        return e[1]
    if e[0] == "marker":
        return None
    if e[0] in ("add", "sub"):
        a, b = fold(e[1], mlen), fold(e[2], mlen)
        if a is None or b is None:
            return None
        return a + b if e[0] == "add" else a - b
    return None


def add_terms(e):
    """Flatten nested adds into a list of terms."""
    if isinstance(e, tuple) and e[0] == "add":
        return add_terms(e[1]) + add_terms(e[2])
    return [e]
