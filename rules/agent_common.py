"""Shared extraction for the agent's plan pipeline (C01, C02, C03): the compare decision table."""
from vlib import facts as F, thir as T

AGENT = "bgpfu_junos_agent"
COMPARE = AGENT + "::policies::compare::<impl " + AGENT + "::policies::Policies<" + AGENT + "::policies::Evaluated>>::compare"

E_CASES = ("absent", "present/ranges=None", "present/ranges=Some")
I_CASES = ("absent", "present")


def find_compare(fx):
    cands = [n for n in fx.thir if n.endswith(">::compare") and "policies::compare" in n and "closure" not in n]
    if len(cands) != 1:
        raise F.AnchorLost("Policies<Evaluated>::compare not found (%d candidates)" % len(cands))
    return cands[0]


def compare_match(fx):
    """The decision `match (self.map.get(name), installed.map.get(name))` inside compare's filter_map closure."""
    name = find_compare(fx)
    out = []
    for n, t in fx.thir.items():
        if n == name or n.startswith(name + "::{closure"):
            for m in T.find(T.norm(t["body"]), "Match"):
                sc = T.peel(m["scrut"])
                if sc.get("k") == "Tuple" and len(sc["fields"]) == 2:
                    txt = [T.expr_str(x).replace(" ", "").replace("&", "").replace("*", "") for x in sc["fields"]]
                    if all("HashMap::get(" in x for x in txt):
                        out.append((n, t, m, txt))
    if len(out) != 1:
        raise F.AnchorLost("compare: decision match over (evaluated, installed) lookups not found (%d)" % len(out))
    return out[0]


def opt_matches(pat, present):
    """Does an Option pattern match None (present=False) / Some (present=True)?  Returns (bool, inner-pattern)."""
    k = pat.get("k")
    if k in ("Wild",) or (k == "Bind" and not pat.get("sub")):
        return True, None
    if k == "Bind":
        return opt_matches(pat["sub"], present)
    if k == "Deref":
        return opt_matches(pat["sub"], present)
    if k == "Variant" and pat["adt"].endswith("option::Option"):
        if pat["variant"] == "None":
            return (not present), None
        inner = pat["sub"][0]["pat"] if pat.get("sub") else None
        return present, inner
    if k == "Or":
        for p in pat["pats"]:
            ok, inner = opt_matches(p, present)
            if ok:
                return True, inner
        return False, None
    return False, None


def field_pat(pat, field):
    """Sub-pattern bound to struct field `field` in a Leaf (struct) pattern; None if not mentioned."""
    while pat is not None and pat.get("k") in ("Deref",):
        pat = pat["sub"]
    if pat is None or pat.get("k") != "Leaf":
        return None
    for s in pat.get("sub", []):
        if s["field"] == field:
            return s["pat"]
    return None


def arm_matches(arm_pat, e_case, i_case):
    p = arm_pat
    while p.get("k") == "Deref":
        p = p["sub"]
    if p.get("k") in ("Wild",) or (p.get("k") == "Bind" and not p.get("sub")):
        return True
    if p.get("k") != "Leaf" or len(p.get("sub", [])) != 2:
        return None
    ep, ip_ = p["sub"][0]["pat"], p["sub"][1]["pat"]
    ok_i, _ = opt_matches(ip_, i_case == "present")
    if not ok_i:
        return False
    ok_e, inner = opt_matches(ep, e_case != "absent")
    if not ok_e:
        return False
    if e_case == "absent" or inner is None:
        return True
    rp = field_pat(inner, "ranges")
    if rp is None:
        return True
    ok_r, _ = opt_matches(rp, e_case.endswith("Some"))
    return ok_r


def decision_table(fx):
    """[(e_case, i_case, arm, kind)] for the 6 abstract cases, first matching arm wins."""
    n, t, m, scr = compare_match(fx)
    rows = []
    for e in E_CASES:
        for i in I_CASES:
            hit = None
            for a in m["arms"]:
                r = arm_matches(a["pat"], e, i)
                if r is None:
                    hit = (a, "unrecognised-pattern")
                    break
                if r:
                    hit = (a, classify(a["body"]))
                    break
            rows.append((e, i, hit[0] if hit else None, hit[1] if hit else "no-arm"))
    return n, t, m, scr, rows


def classify(body):
    b = T.peel(body)
    if b.get("k") == "Adt" and b["adt"].endswith("option::Option"):
        if b["variant"] == "None":
            return "none"
        inner = T.peel(b["fields"][0]["expr"])
        if inner.get("k") == "Adt" and inner["adt"].endswith("policies::Update"):
            return "update" if inner["variant"] == "Update" else "delete"
        return "some-other"
    s = T.expr_str(b)
    if "unreachable" in s or "panic" in s:
        return "unreachable"
    return "other"


# ---------------------------------------------------------------------------------------------
# emission grammar of the agent's payload writer (load.rs)
# ---------------------------------------------------------------------------------------------
from vlib import xmlgrammar as X

INLINE = ("policies::load::write_route_filter", "policies::load::afi_name", "::name", "::policy_stmt_elem")
FAMILY_CASES = [
    # (label, old, old_empty, new_empty)
    ("old=None,new=∅", ("None",), True, True),
    ("old=None,new≠∅", ("None",), True, False),
    ("old=Some(∅),new=∅", ("Some", "OLD"), True, True),
    ("old=Some(∅),new≠∅", ("Some", "OLD"), True, False),
    ("old=Some(≠∅),new=∅", ("Some", "OLD"), False, True),
    ("old=Some(≠∅),new≠∅", ("Some", "OLD"), False, False),
]


def find_thir(fx, pred, what):
    c = [n for n in fx.thir if pred(n)]
    if len(c) != 1:
        raise F.AnchorLost("%s: expected one THIR body, found %d" % (what, len(c)))
    return c[0]


def differences_writer(fx):
    return find_thir(fx, lambda n: n.endswith("::write_xml") and "policies::Differences<" in n and "closure" not in n and AGENT in n,
                     "<Differences<A> as WriteXml>::write_xml")


def update_writer(fx):
    return find_thir(fx, lambda n: n.endswith("::write_xml") and "for " + AGENT + "::policies::Update<" in n and "closure" not in n,
                     "<Update as WriteXml>::write_xml")


def family_trees(fx):
    """{(afi, case_label): (nodes | Undecided-message)}"""
    fn = differences_writer(fx)
    out = {}
    for afi in ("Ipv4", "Ipv6"):
        for (label, old, old_empty, new_empty) in FAMILY_CASES:
            case = {"cond": {"Ranges::is_empty(self.new)": new_empty, "Ranges::is_empty(OLD)": old_empty},
                    "opt": {"self.old": old}, "enum": {"Afi::as_afi()": afi}}
            em = X.Emitter(fx, case, inline=INLINE)
            try:
                nodes, _ = em.run_fn(fn)
                out[(afi, label)] = nodes
            except X.Undecided as e:
                out[(afi, label)] = "undecided: %s" % e
    return fn, out


def envelope_trees(fx):
    fn = update_writer(fx)
    out = {}
    for var in ("Delete", "Update"):
        case = {"cond": {}, "opt": {}, "enum": {"self": var}}
        em = X.Emitter(fx, case, inline=INLINE)
        try:
            nodes, _ = em.run_fn(fn)
            out[var] = nodes
        except X.Undecided as e:
            out[var] = "undecided: %s" % e
    return fn, out


def child(node, tag):
    for c in node.get("children", []):
        if c.get("tag") == tag:
            return c
    return None


def text_lit(node):
    t = node.get("text") if node else None
    while isinstance(t, tuple) and t[0] == "text":
        t = t[2]
    if isinstance(t, tuple) and t[0] == "lit":
        return t[1]
    return None


def has_attr(node, k, v=None):
    for (kk, vv) in node.get("attrs", []):
        if kk == k:
            if v is None:
                return True
            val = vv[1] if isinstance(vv, tuple) else vv
            if isinstance(val, tuple) and val[0] == "lit":
                val = val[1]
            return val == v
    return False


def required_elements(fx, reader_def):
    """Element names a reader reports as MissingElement (i.e. requires)."""
    t = fx.thir.get(reader_def)
    if t is None:
        raise F.AnchorLost("reader %s not found" % reader_def)
    out = set()
    for tt in [t] + [x for n, x in fx.thir.items() if n.startswith(reader_def + "::{closure")]:
        for a in T.find(T.norm(tt["body"]), "Adt"):
            if a["adt"].endswith(("message::error::Read", "message::ReadError")) and a["variant"] == "MissingElement":
                for f in a["fields"]:
                    if f["name"] == "element":
                        lit = T.peel(f["expr"])
                        if lit.get("k") == "Lit":
                            out.add(lit["v"])
    return out
