"""Shared extraction for the agent's plan pipeline (C01, C02, C03): the compare decision table."""
from vlib import facts as F, thir as T

AGENT = "bgpfu_junos_agent"
COMPARE = AGENT + "::policies::compare::<impl " + AGENT + "::policies::Policies<" + AGENT + "::policies::Evaluated>>::compare"

E_CASES = ("absent", "present/ranges=None", "present/ranges=Some")
I_CASES = ("absent", "present")


def join_helpers(fx):
    """The agent's function(s) that wait for a spawned task: free async fns whose only argument is a tokio JoinHandle (handle_task today,
    whatever it is called).  Returned as def paths."""
    out = sorted(it["qdef"] for it in fx.item_list if it.get("kind") == "Fn" and it.get("crate") == AGENT and it.get("async")
                 and len(it.get("inputs") or []) == 1 and it["inputs"][0].startswith("tokio::task::JoinHandle<") and "::tests::" not in it["qdef"])
    if not out:
        raise F.AnchorLost("no async fn of the agent takes a JoinHandle (the helper that joins a spawned task)")
    return out


def find_compare(fx):
    cands = [n for n in fx.thir if n.endswith(">::compare") and "policies::compare" in n and "closure" not in n]
    if len(cands) != 1:
        raise F.AnchorLost("Policies<Evaluated>::compare not found (%d candidates)" % len(cands))
    return cands[0]


def compare_match(fx):
    """The decision `match (self.map.get(name), installed.map.get(name))` inside compare's filter_map closure."""
    name = find_compare(fx)
    out = []
    for n, t in fx.thir.items():
        if n == name or n.startswith(name + "::{closure"):
            for m in T.find(T.norm(t["body"]), "Match"):
                sc = T.peel(m["scrut"])
                if sc.get("k") == "Tuple" and len(sc["fields"]) == 2:
                    txt = [T.expr_str(x).replace(" ", "").replace("&", "").replace("*", "") for x in sc["fields"]]
                    if all("HashMap::get(" in x for x in txt):
                        out.append((n, t, m, txt))
    if len(out) != 1:
        raise F.AnchorLost("compare: decision match over (evaluated, installed) lookups not found (%d)" % len(out))
    return out[0]


def opt_matches(pat, present):
    """Does an Option pattern match None (present=False) / Some (present=True)?  Returns (bool, inner-pattern)."""
    k = pat.get("k")
    if k in ("Wild",) or (k == "Bind" and not pat.get("sub")):
        return True, None
    if k == "Bind":
        return opt_matches(pat["sub"], present)
    if k == "Deref":
        return opt_matches(pat["sub"], present)
    if k == "Variant" and pat["adt"].endswith("option::Option"):
        if pat["variant"] == "None":
            return (not present), None
        inner = pat["sub"][0]["pat"] if pat.get("sub") else None
        return present, inner
    if k == "Or":
        for p in pat["pats"]:
            ok, inner = opt_matches(p, present)
            if ok:
                return True, inner
        return False, None
    return False, None


def field_pat(pat, field):
    """Sub-pattern bound to struct field `field` in a Leaf (struct) pattern; None if not mentioned."""
    while pat is not None and pat.get("k") in ("Deref",):
        pat = pat["sub"]
    if pat is None or pat.get("k") != "Leaf":
        return None
    for s in pat.get("sub", []):
        if s["field"] == field:
            return s["pat"]
    return None


def arm_matches(arm_pat, e_case, i_case):
    p = arm_pat
    while p.get("k") == "Deref":
        p = p["sub"]
    if p.get("k") in ("Wild",) or (p.get("k") == "Bind" and not p.get("sub")):
        return True
    if p.get("k") != "Leaf" or len(p.get("sub", [])) != 2:
        return None
    ep, ip_ = p["sub"][0]["pat"], p["sub"][1]["pat"]
    ok_i, _ = opt_matches(ip_, i_case == "present")
    if not ok_i:
        return False
    ok_e, inner = opt_matches(ep, e_case != "absent")
    if not ok_e:
        return False
    if e_case == "absent" or inner is None:
        return True
    rp = field_pat(inner, "ranges")
    if rp is None:
        return True
    ok_r, _ = opt_matches(rp, e_case.endswith("Some"))
    return ok_r


def decision_table(fx):
    """[(e_case, i_case, arm-like, kind)] for the 6 abstract cases, by abstract interpretation of the closure that holds the
    two lookups (form-independent: merged arms, helper functions, combinators, early returns all evaluate to the same results).

    `arm-like` is a dict {"sp": span, "value": abstract result} (kept for the callers that want a location / the wiring)."""
    from vlib import absint as A
    name = find_compare(fx)
    holders = []
    for n, t in fx.thir.items():
        if n == name or n.startswith(name + "::{closure"):
            gets = [c for c in T.calls(T.norm(t["body"])) if T.short(c["fn"], 2) == "HashMap::get"]
            if len(gets) >= 2:
                holders.append((n, t))
    if len(holders) != 1:
        # not a per-name decision over two lookups (two passes over the maps, a work list, retain ..): evaluate compare as a whole on
        # finite maps holding one representative name per abstract case
        rows = decision_table_collections(fx)
        return name, fx.thir[name], None, None, rows
    n, t = holders[0]
    EV = AGENT + "::policies::Evaluated"
    IN = AGENT + "::policies::Installed"
    rows = []
    for e in E_CASES:
        for i in I_CASES:
            def hook(fn, args, node, interp, e=e, i=i):
                if T.short(fn, 2) != "HashMap::get" or not args:
                    return None
                recv = A.vstr(args[0])
                if len(args) > 1:
                    interp.trace.append(("lookup-key", A.vstr(args[1])))
                if "installed" in recv:
                    return A.NONE if i == "absent" else A.some(("adt", IN, "Installed", (("ipv4", ("sym", "old_ipv4")), ("ipv6", ("sym", "old_ipv6")))))
                if "self" in recv:
                    if e == "absent":
                        return A.NONE
                    rg = A.NONE if e.endswith("None") else A.some(("tuple", (("sym", "new_ipv4"), ("sym", "new_ipv6"))))
                    return A.some(("adt", EV, "Evaluated", (("filter_expr", ("sym", "filter_expr")), ("ranges", rg))))
                return None
            it = A.Interp(fx, hook=hook, crates=(AGENT,))
            try:
                paths = it.explore_body(t)
            except A.Undecided as ex:
                rows.append((e, i, {"sp": t.get("sp"), "value": None}, "undecided: %s" % ex))
                continue
            kinds = set()
            vals = []
            loop_form = any(ev[0] == "next" for p in paths for ev in p.trace)
            for p in paths:
                if loop_form:
                    # the lookups sit in a `for name in ..` body that pushes what the closure form returns: one iteration = one
                    # decision; its result is what it appends (nothing appended = None)
                    if not any(ev[0] == "next" and ev[2] == "Some" for ev in p.trace):
                        continue
                    if p.end == "abort":
                        kinds.add("unreachable")
                        continue
                    if p.end != "iter-end":
                        kinds.add("other")        # the iteration leaves the loop / the function
                        continue
                    pushed = [c[2][1] for c in p.calls("Vec::push", "VecDeque::push_back") if len(c[2]) == 2]
                    v = A.NONE if not pushed else (A.some(pushed[0]) if len(pushed) == 1 else ("sym", "several-pushes"))
                    vals.append(v)
                    kinds.add(classify_value(v))
                    continue
                if p.end == "abort":
                    kinds.add("unreachable")
                    continue
                vals.append(p.ret)
                kinds.add(classify_value(p.ret))
            kind = kinds.pop() if len(kinds) == 1 else "ambiguous:%s" % sorted(kinds)
            keys = sorted({ev[1] for p in paths for ev in p.trace if ev[0] == "lookup-key"})
            rows.append((e, i, {"sp": t.get("sp"), "value": vals[-1] if vals else None, "values": vals, "keys": keys}, kind))
    return n, t, None, None, rows


def classify_value(v):
    from vlib import absint as A
    if A.is_opt(v):
        if v[2] == "None":
            return "none"
        inner = A.payload0(v)
        if inner[0] == "adt" and inner[1].endswith("policies::Update"):
            return "update" if inner[2] == "Update" else "delete"
        return "some-other"
    return "other"


def classify(body):
    b = T.peel(body)
    if b.get("k") == "Adt" and b["adt"].endswith("option::Option"):
        if b["variant"] == "None":
            return "none"
        inner = T.peel(b["fields"][0]["expr"])
        if inner.get("k") == "Adt" and inner["adt"].endswith("policies::Update"):
            return "update" if inner["variant"] == "Update" else "delete"
        return "some-other"
    s = T.expr_str(b)
    if "unreachable" in s or "panic" in s:
        return "unreachable"
    return "other"


# ---------------------------------------------------------------------------------------------
# emission grammar of the agent's payload writer (load.rs) — by abstract interpretation (vlib/xmlemit.py)
# ---------------------------------------------------------------------------------------------
from vlib import xmlemit as XE, absint as A

FAMILY_CASES = [
    # (label, old, old_empty, new_empty)
    ("old=None,new=∅", "None", True, True),
    ("old=None,new≠∅", "None", True, False),
    ("old=Some(∅),new=∅", "Some", True, True),
    ("old=Some(∅),new≠∅", "Some", True, False),
    ("old=Some(≠∅),new=∅", "Some", False, True),
    ("old=Some(≠∅),new≠∅", "Some", False, False),
]
AFI_ADT = "ip::concrete::Afi"


def find_thir(fx, pred, what):
    c = [n for n in fx.thir if pred(n)]
    if len(c) != 1:
        raise F.AnchorLost("%s: expected one THIR body, found %d" % (what, len(c)))
    return c[0]


def differences_writer(fx):
    return find_thir(fx, lambda n: n.endswith("::write_xml") and "policies::Differences<" in n and "closure" not in n and AGENT in n,
                     "<Differences<A> as WriteXml>::write_xml")


def update_writer(fx):
    return find_thir(fx, lambda n: n.endswith("::write_xml") and "for " + AGENT + "::policies::Update<" in n and "closure" not in n,
                     "<Update as WriteXml>::write_xml")


def _set_root(v):
    return XE.root_name(v)


def _family_hook(afi, old_empty, new_empty):
    def hook(fn, args, node, interp):
        s2 = T.short(fn, 2)
        if s2 in ("HashSet::is_empty", "HashSet::len") and args:
            r = _set_root(args[0])
            if r in ("NEW", "OLD"):
                e = new_empty if r == "NEW" else old_empty
                return A.lit(e) if s2.endswith("is_empty") else (A.lit(0) if e else ("sym", "len:" + r))
        if s2 in ("Afi::as_afi",) or fn.endswith("::as_afi"):
            return ("adt", AFI_ADT, afi, ())
        return None
    return hook


def family_trees(fx):
    """{(afi, case_label): (nodes | Undecided-message)}"""
    fn = differences_writer(fx)
    DIFF = AGENT + "::policies::Differences"
    out = {}
    for afi in ("Ipv4", "Ipv6"):
        for (label, old, old_empty, new_empty) in FAMILY_CASES:
            selfv = ("adt", DIFF, "Differences", (("old", A.NONE if old == "None" else A.some(("sym", "OLD"))), ("new", ("sym", "NEW"))))
            it = XE.XmlInterp(fx, case_hook=_family_hook(afi, old_empty, new_empty), crates=(AGENT,))
            try:
                paths = it.explore(fn, args=[selfv, ("sym", "writer")])
                ts = XE.trees(paths)
                if len(ts) != 1:
                    out[(afi, label)] = "undecided: %d emission paths for one abstract case" % len(ts)
                else:
                    out[(afi, label)] = ts[0]
            except A.Undecided as e:
                out[(afi, label)] = "undecided: %s" % e
    return fn, out


def envelope_trees(fx):
    fn = update_writer(fx)
    UPD = AGENT + "::policies::Update"
    out = {}
    for var in ("Delete", "Update"):
        if var == "Delete":
            selfv = ("adt", UPD, "Delete", (("name", ("sym", "NAME")),))
        else:
            selfv = ("adt", UPD, "Update", (("name", ("sym", "NAME")), ("filter_expr", ("sym", "FILTER_EXPR")), ("ipv4", ("sym", "IPV4")), ("ipv6", ("sym", "IPV6"))))

        def hook(fn_, args, node, interp):
            # the per-family writers are analysed on their own (family_trees): record the call, do not descend
            if fn_.endswith("::write_xml") and args and args[0][0] == "sym" and args[0][1] in ("IPV4", "IPV6"):
                interp.emit({"tag": None, "call": "write_xml", "recv": ("expr", "self." + args[0][1].lower()), "attrs": [], "children": [], "text": None,
                             "sp": node.get("sp")})
                return A.ok(("unit",))
            if T.short(fn_, 2) in ("DateTime::format", "Utc::now"):
                return ("sym", "now")
            return None
        it = XE.XmlInterp(fx, case_hook=hook, crates=(AGENT,))
        try:
            paths = it.explore(fn, args=[selfv, ("sym", "writer")])
            ts = XE.trees(paths)
            # cfg!(test) is a literal; any remaining fork is a real data dependence of the envelope
            if len(ts) != 1:
                out[var] = "undecided: %d emission paths" % len(ts)
            else:
                out[var] = ts[0]
        except A.Undecided as e:
            out[var] = "undecided: %s" % e
    return fn, out


def child(node, tag):
    for c in node.get("children", []):
        if c.get("tag") == tag:
            return c
    return None


def text_lit(node):
    t = node.get("text") if node else None
    if isinstance(t, tuple) and t[0] == "text" and isinstance(t[2], tuple) and t[2][0] == "lit":
        return t[2][1]
    return None


def text_expr(node):
    """(kind, description) of an element's text: kind in escaped/raw/unknown."""
    t = node.get("text") if node else None
    if isinstance(t, tuple) and t[0] == "text":
        return t[1], str(t[2][1])
    return None, ""


def has_attr(node, k, v=None):
    for (kk, vv) in node.get("attrs", []):
        if kk == k:
            if v is None:
                return True
            val = vv[1] if isinstance(vv, tuple) else vv
            if isinstance(val, tuple) and val[0] == "lit":
                val = val[1]
            return val == v
    return False


def required_elements(fx, reader_def):
    """Element names a reader reports as MissingElement (i.e. requires)."""
    t = fx.thir.get(reader_def)
    if t is None:
        raise F.AnchorLost("reader %s not found" % reader_def)
    out = set()
    for tt in [t] + [x for n, x in fx.thir.items() if n.startswith(reader_def + "::{closure")]:
        for a in T.find(T.norm(tt["body"]), "Adt"):
            if a["adt"].endswith(("message::error::Read", "message::ReadError")) and a["variant"] == "MissingElement":
                for f in a["fields"]:
                    if f["name"] == "element":
                        lit = T.peel(f["expr"])
                        if lit.get("k") == "Lit":
                            out.add(lit["v"])
    return out


CLASS_NAMES = {("present/ranges=Some", "present"): "N_some_inst", ("present/ranges=Some", "absent"): "N_some_new",
               ("present/ranges=None", "present"): "N_none_inst", ("present/ranges=None", "absent"): "N_none_new",
               ("absent", "present"): "N_gone_inst"}


def decision_table_collections(fx):
    """The same table, obtained by running compare on finite abstract maps (vlib/collinterp.py): evaluated = {one name per evaluated
    case}, installed = {one name per installed case}; a row's result is what the returned Updates holds for that row's name."""
    from vlib import absint as A, collinterp as CI
    name = find_compare(fx)
    t = fx.thir[name]
    EV = AGENT + "::policies::Evaluated"
    IN = AGENT + "::policies::Installed"
    POL = AGENT + "::policies::Policies"

    def nm(k):
        return ("sym", CLASS_NAMES[k])
    some_rg = A.some(("tuple", (("sym", "new_ipv4"), ("sym", "new_ipv6"))))
    ev_some = ("adt", EV, "Evaluated", (("filter_expr", ("sym", "filter_expr")), ("ranges", some_rg)))
    ev_none = ("adt", EV, "Evaluated", (("filter_expr", ("sym", "filter_expr")), ("ranges", A.NONE)))
    inst = ("adt", IN, "Installed", (("ipv4", ("sym", "old_ipv4")), ("ipv6", ("sym", "old_ipv6"))))
    evaluated = CI.cmap([(nm(k), ev_some if k[0].endswith("Some") else ev_none) for k in CLASS_NAMES if k[0] != "absent"])
    installed = CI.cmap([(nm(k), inst) for k in CLASS_NAMES if k[1] == "present"])
    self_v = ("adt", POL, "Policies", (("map", evaluated),))
    inst_v = ("adt", POL, "Policies", (("map", installed),))
    it = CI.CollInterp(fx, crates=(AGENT,), max_paths=400)
    rows = []
    try:
        paths = [p for p in it.explore(name, args=[self_v, inst_v]) if p.end != "abort"]
    except A.Undecided as ex:
        raise F.AnchorLost("compare: neither a per-name decision nor a form the collection interpreter models (%s)" % ex)
    if not paths:
        raise F.AnchorLost("compare: no path of the collection-level evaluation ends normally")
    per_path = []
    for p in paths:
        emitted = [x for x in A.walk_value(p.ret) if x[0] == "adt" and x[1].endswith("policies::Update")] if p.ret is not None else []
        per_path.append(emitted)
    for (e, i), cn in CLASS_NAMES.items():
        kinds, vals = set(), []
        for emitted in per_path:
            mine = [u for u in emitted if A.vstr(CI.strip(A.fields_of(u).get("name", ("unit",)))) == "«%s»" % cn]
            if not mine:
                kinds.add("none")
                vals.append(A.NONE)
            elif len(mine) == 1:
                kinds.add("update" if mine[0][2] == "Update" else "delete")
                # the name is "the key both maps were looked up with": normalise it for the wiring check
                vals.append(A.some(mine[0]))
            else:
                kinds.add("several")
        kind = kinds.pop() if len(kinds) == 1 else "ambiguous:%s" % sorted(kinds)
        rows.append((e, i, {"sp": t.get("sp"), "value": vals[-1] if vals else None, "values": vals, "keys": ["«%s»" % cn], "collections": True}, kind))
    # (absent, absent): no such name exists in either map; nothing can be emitted for it
    rows.append(("absent", "absent", {"sp": t.get("sp"), "value": None, "values": [], "collections": True}, "unreachable"))
    return rows
