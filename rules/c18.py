"""C18 — Abandoning one reply future does not disturb other outstanding requests.

LIVE: backward liveness + maybe-initialised analysis at every suspension point of the receive-path coroutines:
no value taken off the transport may be held by the future across an await (it would be destroyed with the future).
"""
from vlib import facts as F, thir as T
from vlib.report import loc_of
from . import transport_common as TC
from .c05 import held_guards, guard_class, SESSION

EXPLANATION = (
    "C18/R1 (LIVE): for the coroutines of Session::recv, ServerMsg::recv and the three RecvHandle::recv impls, at every Yield "
    "the set {locals that are maybe-initialised} ∩ {locals live afterwards} contains no value of a received-data type "
    "(PartialReply, Reply<O>, Bytes, BytesMut, String, Box<str>) — such a value would be dropped together with an abandoned "
    "future, losing a reply that may belong to another caller. C18/R2: transport read buffers are fields of the handle "
    "(checked by C06/R4 as well), and the SSH receiver awaits only mpsc::Receiver::recv. C18/R3: lock guards in Session::recv "
    "are plain MutexGuard locals of the coroutine (released when it is dropped); nothing is forgotten/leaked. C18/R4: a "
    "never-polled future leaves its slot Pending and a reply parked there later is stored (C05/R3 Pending->Ready); no entry of the request table is removed except after its reply was delivered, and no local of Session::recv / rpc has a type with a Drop impl written in this crate (dropping the future runs no workspace code). "
    "Does not decide executor behaviour or which suspension points a concrete schedule reaches."
)

DATA_TYPES = (
    "netconf::message::rpc::PartialReply",
    "netconf::message::rpc::Reply<",
    "bytes::Bytes",
    "bytes::BytesMut",
    "std::string::String",
    "std::boxed::Box<str>",
)


def is_data_ty(ty):
    if "Future" in ty or ty.startswith("&"):
        return False
    core = ty
    for w in ("std::option::Option<", "std::result::Result<"):
        if core.startswith(w):
            core = core[len(w):]
    return any(core.startswith(d) for d in DATA_TYPES)


def describe_await(b, ap):
    src = ap["src"]
    if src is None:
        return "await"
    n = T.short(src.name(), 2)
    if src.is_fn("tokio::sync::Mutex::<T>::lock"):
        dty = b.local_ty(src.dest["l"])
        cls = "requests" if "OutstandingRequest" in dty else "rx" if "RecvHandle" in dty else "tx" if "SendHandle" in dty else "?"
        return "Mutex::lock(%s).await" % cls
    return "%s(..).await" % n


def run(ctx):
    chk, fx = ctx.chk, ctx.facts
    chk.explanation = EXPLANATION
    chk.assumptions += [
        "tokio::sync::mpsc::Receiver::recv and tokio::sync::Mutex::lock are cancel-safe (tokio documentation)",
        "dropping a coroutine drops exactly its initialised locals",
    ]
    targets = [fx.user_coroutine(SESSION + "::recv"), fx.user_coroutine("netconf::message::ServerMsg::recv"),
               fx.user_coroutine(TC.SSH_RECEIVER)] + [b for _, b in sorted(TC.stream_receivers(fx).items())]
    n_y = 0
    for b in targets:
        chk.analysed(b.name)
        fn = T.strip_generics(b.name).replace("::{closure#0}", "")
        init_in, _ = b.maybe_init()
        live_in, live_out = b.liveness()
        for ap in b.await_points():
            n_y += 1
            y = ap["yield"]
            what = describe_await(b, ap)
            held = sorted((b.locals[l].get("name") or "_%d" % l, b.local_ty(l)) for l in (init_in[y] & live_out[y]) if is_data_ty(b.local_ty(l)))
            if not held:
                chk.instance("C18/R1", "no received data held by the future across %s" % what, b.name, loc_of(ap["sp"]), holds=True)
            for (nm, ty) in held:
                chk.instance("C18/R1", "%s: `%s` (%s) is live across %s" % (fn, nm, T.short(ty, 1), what), b.name, loc_of(ap["sp"]),
                             holds=False, key="C18/R1 %s %s live-across %s" % (fn, T.short(ty.split("<")[0], 1), what),
                             detail="dropping the future at this suspension point destroys the value")
    chk.floor("C18/R1 suspension points analysed", n_y, 5)
    # R2: no await of a future documented as not cancel-safe on the receive path
    NOT_CANCEL_SAFE = ("AsyncReadExt::read_exact", "AsyncReadExt::read_to_end", "AsyncReadExt::read_to_string",
                       "AsyncBufReadExt::read_line", "AsyncBufReadExt::read_until", "AsyncWriteExt::write_all",
                       "AsyncReadExt::read_u8", "AsyncReadExt::read_u16", "AsyncReadExt::read_u32", "AsyncReadExt::read_u64")
    n2 = 0
    for b in targets:
        for ap in b.await_points():
            n2 += 1
            src = ap["src"]
            bad = src is not None and src.is_fn(*NOT_CANCEL_SAFE)
            chk.instance("C18/R2", "%s is not documented as cancel-unsafe" % describe_await(b, ap), b.name, loc_of(ap["sp"]),
                         holds=not bad, key="C18/R2 %s awaits-cancel-unsafe %s" % (T.strip_generics(b.name).replace("::{closure#0}", ""), src.name() if src else "?"))
    # R3: guards are locals, nothing leaked
    b = fx.user_coroutine(SESSION + "::recv")
    leaks = [c for c in b.calls() if not c.macro and c.is_fn("std::mem::forget", "ManuallyDrop::<T>::new", "lock_owned", "MutexGuard::<'a, T>::leak", "Box::<T>::leak")]
    chk.instance("C18/R3", "Session::recv forgets / leaks nothing (guards die with the future)", b.name, leaks[0].loc() if leaks else None,
                 holds=not leaks, key="C18/R3 Session::recv leak")
    locks = b.calls_to("tokio::sync::Mutex::<T>::lock", user_only=True)
    chk.instance("C18/R3", "Session::recv takes its locks with Mutex::lock (borrowed guards)", b.name, None, holds=len(locks) >= 3,
                 key="C18/R3 Session::recv lock-sites")
    # the receive lock is released on every exit: no rx guard is stored anywhere but a local
    for bi, bl in enumerate(b.blocks):
        for s in bl["stmts"]:
            if s["k"] == "assign" and s["pl"].get("p") and s["rv"]["k"] == "use":
                l = F.op_base(s["rv"]["op"])
                if l is not None and guard_class(b.local_ty(l)):
                    chk.instance("C18/R3", "guard stored into a place that outlives the future", b.name, loc_of(s.get("sp")), holds=False,
                                 key="C18/R3 Session::recv guard-escapes")
    r4_table_untouched_by_drop(chk, fx)
    r5_survivors_find_parked_replies(chk, fx)
    r6_independent_of_other_holders(chk, fx)


REMOVERS = ("HashMap::<K, V, S, A>::remove", "HashMap::<K, V, S, A>::remove_entry", "HashMap::<K, V, S, A>::clear", "HashMap::<K, V, S, A>::retain",
            "HashMap::<K, V, S, A>::drain", "HashMap::<K, V, S, A>::extract_if", "OccupiedEntry::<'a, K, V, A>::remove", "OccupiedEntry::<'a, K, V, A>::remove_entry")


def r4_table_untouched_by_drop(chk, fx):
    """Abandoning a reply future must leave the shared table of outstanding requests alone: the abandoned request's reply is still on
    its way, and whoever reads it off the transport must find the slot to park it in (Pending -> Ready) instead of failing with
    RequestNotFound.  (a) No entry is ever removed except on the path where its reply has been delivered; (b) dropping the future
    runs no workspace code: no local of Session::recv / Session::rpc has a type with a Drop impl written in this crate."""
    n_sites = 0
    for name, b in sorted(fx.mir.items()):
        if b.crate != "netconf" or "::tests::" in name:
            continue
        for c in b.calls():
            if c.macro:
                continue
            if c.is_fn(*REMOVERS) and any("OutstandingRequest" in g for g in (c.gargs or [])):
                n_sites += 1
                ok = False
                if name.startswith(SESSION + "::recv::"):
                    deliver = [x for x in b.calls() if x.is_fn("TryInto::try_into", "TryFrom::try_from", "Reply::<O>::into_result") and not x.macro]
                    ok = any(b.dominates(x.bb, c.bb) for x in deliver)
                chk.instance("C18/R4", "entry removed from the request table only after its reply was delivered", name, c.loc(), holds=ok,
                             key="C18/R4 request-table entry removed in %s" % T.strip_generics(name),
                             detail="a reply that arrives for the removed id makes the caller that reads it fail with RequestNotFound")
    chk.instance("C18/R4", "no other removal from the table of outstanding requests (%d removal sites)" % n_sites, "netconf", None, holds=True)
    drops = [it for it in fx.item_list if it["kind"] == "Impl" and (it.get("trait") or "").endswith("ops::Drop") and it.get("crate") == "netconf"]
    chk.extra["netconf_drop_impls"] = [it.get("self") for it in drops]
    targets = [(n, b) for n, b in sorted(fx.mir.items()) if n.startswith((SESSION + "::recv", SESSION + "::rpc")) and b.crate == "netconf"]
    chk.floor("C18/R4 Session::recv / rpc bodies", len(targets), 4)
    for it in drops:
        sty = (it.get("self_adt") or it.get("self") or "?")
        base = sty.split("<")[0]
        users = sorted({n for n, b in targets for l in range(len(b.locals)) if base in b.local_ty(l)})
        chk.instance("C18/R4", "Drop impl of %s does not run when a reply future is dropped" % T.short(base, 1), it["qdef"], loc_of(it.get("sp")),
                     holds=not users, key="C18/R4 drop-impl %s held by reply future" % T.short(base, 1),
                     detail=("a value of this type is a local of %s: its Drop code runs when the future is abandoned" % [T.short(T.strip_generics(u), 2) for u in users][:2]) if users else None)


# ---------------------------------------------------------------------------------------------
def r5_survivors_find_parked_replies(chk, fx):
    """When the future that was reading is dropped, the waiters queued behind it take over one after the other; replies meant for the
    later ones are parked by the earlier ones while they still wait for the lock.  A survivor completes only if it looks at its own
    slot *after* it got the receive lock and before it reads (C05/R4, R5: check and read under one guard).  Shared rule, recorded here."""
    from .c15 import _Rename
    from . import c05
    c05.r4_r5_locks(_Rename(chk, "C05/R", "C18/R5:C05/R"), fx)


# ---------------------------------------------------------------------------------------------
REFCOUNT_QUERIES = ("Arc::<T, A>::strong_count", "Arc::<T, A>::weak_count", "Arc::<T>::strong_count", "Arc::<T>::weak_count", "Weak::<T, A>::upgrade", "Weak::<T>::upgrade",
                    "Weak::<T, A>::strong_count", "Weak::<T, A>::weak_count", "Arc::<T, A>::try_unwrap", "Arc::<T, A>::into_inner", "Arc::<T, A>::get_mut",
                    "Arc::<T, A>::is_unique", "Arc::<T>::try_unwrap", "Arc::<T>::get_mut", "Arc::<T>::into_inner", "Rc::<T>::strong_count", "Rc::<T, A>::strong_count")


def r6_independent_of_other_holders(chk, fx):
    """What a reply future does must not depend on which *other* futures (or the session value itself) are still alive — they are
    dropped at their owners' whim.  (a) Session::recv and Session::rpc ask no reference count and upgrade no weak reference: "nobody
    else holds the transport" is not "no other request is outstanding" (an abandoned request's reply is still on its way), and a
    future that only weakly holds the receive handle dies with whoever held the last strong one.  (b) the reply future owns (Arc) the
    table and the receive handle it is given.  (c) the reply read off the transport is delivered through the table under its own id
    (C05/R2), whoever else is alive."""
    n = 0
    for name, b in sorted(fx.mir.items()):
        if b.crate != "netconf" or not name.startswith((SESSION + "::recv", SESSION + "::rpc")) or "::tests::" in name:
            continue
        n += 1
        for c in b.calls():
            if c.macro:
                continue
            if c.is_fn(*REFCOUNT_QUERIES) or T.short(T.strip_generics(c.name()), 2) in ("Arc::strong_count", "Arc::weak_count", "Weak::upgrade", "Arc::try_unwrap", "Arc::get_mut",
                                                                                         "Arc::into_inner", "Weak::strong_count"):
                chk.instance("C18/R6", "%s does not ask who else holds the shared state" % T.short(T.strip_generics(name), 2), name, c.loc(), holds=False,
                             key="C18/R6 %s observes-other-holders %s" % (T.short(T.strip_generics(name.split("::{closure")[0]), 2), T.short(T.strip_generics(c.name()), 2)),
                             detail="the outcome depends on which other reply futures / the session are alive: dropping one of them changes what this one does")
    chk.floor("C18/R6 Session::recv / rpc bodies", n, 3)
    it = fx.fn_item(SESSION + "::recv")
    weak = [t for t in (it.get("inputs") or []) if "Weak<" in t]
    # .. whether recv is handed the Arcs or borrows them from the async block that owns them: nowhere on the way a Weak
    for name, b in sorted(fx.mir.items()):
        if b.crate == "netconf" and name.startswith((SESSION + "::recv", SESSION + "::rpc")) and "::tests::" not in name:
            weak += [b.local_ty(l) for l in range(len(b.locals)) if "sync::Weak<" in b.local_ty(l) or "rc::Weak<" in b.local_ty(l)]
    chk.instance("C18/R6", "the reply future holds the table and the receive handle strongly (no Weak on the way from the session to recv)", it["qdef"], loc_of(it.get("sp")),
                 holds=not weak, key="C18/R6 Session::recv holds-shared-state-weakly", detail=None if not weak else str(sorted(set(weak)))[:120])
    from .c15 import _Rename
    from . import c05
    c05.r2_own_slot(_Rename(chk, "C05/R2", "C18/R6:C05/R2"), fx)
