"""C13 — Parsing is invariant under XML-equivalent serialisations of a message (sibling-consistency lint over reader loops).

Each information-preserving rewrite named by the property corresponds to one syntactic obligation on every
`loop { match reader.read_resolved_event()? { .. } }` (THIR arm tables) and on every use of element text (MIR dataflow).
"""
from vlib import facts as F, thir as T, xmlgrammar as X
from vlib.report import loc_of
from . import readers as R

EXPLANATION = (
    "ARMS lint over all reader loops of netconf and the agent (found by their `match reader.read_resolved_event()?`): "
    "C13/R1 prefix independence — every element arm constrains the resolved namespace (pattern constant or `ns == CONST`) and compares "
    "tag.local_name(), never the prefixed tag.name(); C13/R2 every loop skips Event::Comment; C13/R3 the two document-level loops "
    "skip the XML declaration (Event::Decl); C13/R4 `<x/>` and `<x></x>` are handled alike: either every NsReader the crates create is "
    "configured with expand_empty_elements(true) (then both spellings are one event sequence and every recognised element must have a Start arm), "
    "or, for every element a loop recognises, Start and Empty forms are handled alike unless the frozen justification table records that both "
    "spellings are rejected anyway; C13/R5 every value obtained with read_text (raw, untrimmed) "
    "that reaches str::parse / FromStr / a string comparison / Name / a token field passes through str::trim. NsReader::trim_text(true) "
    "is set on every reader the crate creates. Attribute order/quoting and inter-element whitespace are quick-xml's tokenizer "
    "(assumption). Any asymmetry, a reader created without the expansion, or a removed trim()/comment arm is a violation."
)

# (loop label, element) whose one-sided Start/Empty handling makes no observable difference: both spellings are rejected
R4_JUSTIFIED = {
    ("<EmptyReply>::read_xml", "rpc-error"): "empty rpc-error lacks the mandatory error-type/tag/severity: rejected in both spellings",
    ("<DataReply<D>>::read_xml", "rpc-error"): "same",
    ("<BareReply>::read_xml", "rpc-error"): "same",
    ("<load_configuration::Reply>::read_xml/<load-configuration-results>", "rpc-error"): "same",
    ("<hello::ServerHello>::read_xml", "session-id"): "empty session-id does not parse as NonZeroU32: rejected in both spellings",
    ("<load_configuration::Reply>::read_xml/<load-configuration-results>", "load-error-count"): "empty count does not parse as usize: rejected in both spellings",
    ("<error::Error>::read_xml", "error-type"): "empty value is not a known error-type: rejected in both spellings",
    ("<error::Error>::read_xml", "error-tag"): "empty value is not a known error-tag: rejected in both spellings",
    ("<error::Error>::read_xml", "error-severity"): "empty value is not a known severity: rejected in both spellings",
    ("<Term>::borrowed_read_xml", "name"): "a term named '' never equals a family name: rejected in both spellings",
    ("<TermFrom>::borrowed_read_xml", "family"): "family '' is neither inet nor inet6: rejected in both spellings",
    ("<RouteFilter>::borrowed_read_xml", "address"): "'' is not a prefix: rejected in both spellings",
    ("<RouteFilter>::borrowed_read_xml", "choice-ident"): "'' != prefix-length-range: rejected in both spellings",
    ("<RouteFilter>::borrowed_read_xml/<choice-ident>", "choice-value"): "'' has no '-' separator: rejected in both spellings",
    ("<Term>::borrowed_read_xml", "then"): "a term's empty <then> lacks <accept/>: rejected in both spellings",
    ("<Maybe<Installed>>::read_xml", "term"): "an empty term lacks then/accept: rejected in both spellings",
    ("<TermFrom>::borrowed_read_xml", "route-filter"): "an empty route-filter lacks address: rejected in both spellings",
    ("<Term>::borrowed_read_xml", "from"): "an empty <from> lacks family: rejected in both spellings",
    ("<Capabilities>::read_xml", "capability"): "'' is not a URI: rejected in both spellings",
    ("<hello::ServerHello>::read_xml", "capabilities"): "an empty capability list has no common base version / is an unexpected event: the hello is rejected in both spellings",
    ("<load_configuration::Reply>::read_xml", "load-configuration-results"): "empty results carry neither <ok/> nor a matching load-error-count: rejected in both spellings",
    # outside the grammars the property quantifies over (names are non-empty identifiers, a policy's `then` always has an action)
    ("<Maybe<Candidate>>::read_xml", "name"): "outside the configuration grammar: policy-statement names are non-empty",
    ("<Maybe<Installed>>::read_xml", "name"): "outside the configuration grammar: policy-statement names are non-empty",
    ("<Maybe<Candidate>>::read_xml", "then"): "outside the configuration grammar: a policy's <then> always carries an action",
    ("<Maybe<Installed>>::read_xml", "then"): "outside the configuration grammar: a policy's <then> always carries an action",
    ("<impl ReadXml for Policies<T>>::read_xml/<policy-options>", "policy-statement"): "outside the configuration grammar: a policy-statement always has a name",
    ("<error::Info>::read_xml", None): "outside the reply grammar: error-info leaves (bad-element, session-id, ...) are non-empty",
}
DOC_LEVEL = ("ServerMsg::from_xml", "<PartialReply>::read_xml")


def run(ctx):
    chk, fx = ctx.chk, ctx.facts
    chk.explanation = EXPLANATION
    chk.assumptions += [
        "quick-xml 0.31: attribute order/quoting and inter-element whitespace (with trim_text(true)) do not affect the events delivered",
        "NsReader::read_text returns the raw slice between the tags (no trimming, no unescaping)",
    ]
    loops = R.reader_loops(fx)
    chk.floor("C13 reader loops", len(loops), 15)
    chk.extra["reader_loops"] = [lp.label() for lp in loops]
    expanded = reader_config(chk, fx)
    for lp in loops:
        chk.analysed(lp.fn)
        r1(chk, lp)
        r2(chk, lp)
        r4(chk, lp, expanded)
    r3(chk, loops)
    r5(chk, fx)
    r6_attribute_order(chk, fx)
    r1_qualified_name_vs_literal(chk, fx, loops)


def r1(chk, lp):
    for a in lp.arms:
        if not a.is_element():
            continue
        what = "<%s>" % a.name if a.name else "(any element)"
        ns = a.ns_checked()
        chk.instance("C13/R1", "%s: %s arm constrains the resolved namespace (%s)" % (lp.label(), what, T.short(ns, 1) if ns else "none"), lp.fn,
                     loc_of(a.sp), holds=ns is not None, key="C13/R1 %s %s namespace-unchecked" % (lp.label(), what))
        if a.name is not None:
            chk.instance("C13/R1", "%s: %s is matched by local name (prefix-independent)" % (lp.label(), what), lp.fn, loc_of(a.sp),
                         holds=a.name_via == "local_name", key="C13/R1 %s %s matched-by-prefixed-name" % (lp.label(), what))


def r2(chk, lp):
    com = [a for a in lp.arms if "Comment" in a.kinds and not a.extra_guards and a.guard is None]
    ok = bool(com) and all(X.ntext(a.node["body"]) in ("continue", "{}", "()", "{continue}") for a in com)
    chk.instance("C13/R2", "%s skips comments" % lp.label(), lp.fn, loc_of(lp.sp), holds=ok, key="C13/R2 %s comment-not-skipped" % lp.label(),
                 detail=None if ok else "a comment at this level falls into the catch-all arm: UnexpectedXmlEvent(Comment)")


def r3(chk, loops):
    n = 0
    for lp in loops:
        # a loop that can meet Event::Eof reads at document level (wherever it lives: the entry point or a helper of it)
        if lp.label() not in DOC_LEVEL and not any("Eof" in a.kinds for a in lp.arms):
            continue
        n += 1
        for kind in ("Decl",):
            arms = [a for a in lp.arms if kind in a.kinds]
            # skipped *unconditionally*: the declaration's own content (version / encoding spelling / standalone) must not
            # decide whether the message is accepted — no guard, and a body that does nothing but go on
            ok = bool(arms) and all(a.guard is None and X.ntext(a.node["body"]) in ("continue", "{continue}", "{}", "()") for a in arms)
            chk.instance("C13/R3", "%s skips Event::%s at document level, unconditionally" % (lp.label(), kind), lp.fn,
                         loc_of((arms or [lp])[0].sp), holds=ok, key="C13/R3 %s %s-not-skipped" % (lp.label(), kind),
                         detail=None if ok else "the Decl arm is missing, guarded, or inspects the declaration: acceptance then depends on how "
                         "(or whether) the XML declaration is spelled")
    chk.floor("C13/R3 document-level loops", n, 2)


def r4(chk, lp, expanded):
    by_name = {}
    for a in lp.arms:
        if a.is_element():
            by_name.setdefault(a.name, []).append(a)
    for name, arms in sorted(by_name.items(), key=lambda kv: str(kv[0])):
        kinds = set()
        for a in arms:
            kinds |= (a.kinds & {"Start", "Empty"})
        what = "<%s>" % name if name else "(any element)"
        if expanded:
            # every reader the crates create expands `<x/>` into Start + End: the two spellings are one event sequence, so they are
            # handled alike by construction — provided the element is recognised as a Start at all (an Empty-only arm is dead then)
            ok = "Start" in kinds
            chk.instance("C13/R4", "%s: %s is recognised as Event::Start (the reader delivers `<x/>` as Start + End, so both spellings take "
                         "this arm)" % (lp.label(), what), lp.fn, loc_of(arms[0].sp), holds=ok,
                         key="C13/R4 %s %s Empty-only-under-expansion" % (lp.label(), what),
                         detail=None if ok else "the readers are configured with expand_empty_elements(true): Event::Empty is never delivered, "
                         "so neither spelling of this element reaches its arm")
            continue
        if kinds == {"Start", "Empty"}:
            # handled alike? same arm (or-pattern) or bodies equal
            same = any({"Start", "Empty"} <= a.kinds for a in arms) or len({a.body_text() for a in arms}) == 1
            chk.instance("C13/R4", "%s: %s handled in both forms" % (lp.label(), what), lp.fn, loc_of(arms[0].sp), holds=True,
                         detail=None if same else "different bodies for Start and Empty")
            continue
        only = "Start" if "Start" in kinds else "Empty"
        just = R4_JUSTIFIED.get((lp.label(), name))
        if just:
            chk.instance("C13/R4", "%s: %s matched as %s only — justified: %s" % (lp.label(), what, only, just), lp.fn, loc_of(arms[0].sp), holds=True)
        else:
            other = "<%s/>" % name if only == "Start" else "<%s></%s>" % (name, name)
            chk.instance("C13/R4", "%s: %s is matched as Event::%s only; the equivalent %s is not accepted alike" % (lp.label(), what, only, other), lp.fn,
                         loc_of(arms[0].sp), holds=False, key="C13/R4 %s %s %s-only" % (lp.label(), what, only))


def r5(chk, fx):
    uses = R.text_uses(fx)
    chk.floor("C13/R5 read_text sites", len(uses), 12)
    for r in uses:
        fn = R.short_fn(r["fn"])
        c = r["call"]
        if not r["untrimmed"]:
            chk.instance("C13/R5", "%s: text read at this site is trimmed before it is parsed / compared (or is verbatim content)" % fn, r["fn"], c.loc(), holds=True)
            continue
        sinks = sorted({s[0] for s in r["untrimmed"]})
        # key by the element whose text is read: the read_text argument derives from `tag`; use the enclosing arm's element via source line-free order
        chk.instance("C13/R5", "%s: untrimmed element text reaches %s" % (fn, sinks), r["fn"], c.loc(), holds=False,
                     key="C13/R5 %s untrimmed-text -> %s" % (fn, ",".join(sinks)),
                     detail="whitespace around the token (e.g. pretty-printed '<x> v </x>') changes the parse result")


def reader_config(chk, fx):
    """trim_text(true) on every NsReader the crates create (R5); returns whether every one of them also expands empty elements (R4)."""
    n = 0
    expanded = []
    for name, b in sorted(fx.mir.items()):
        if b.crate not in R.CRATES or "::tests::" in name:
            continue
        mk = [c for c in b.calls() if c.is_fn("NsReader::<&'i [u8]>::from_str", "NsReader::<R>::from_reader") and not c.macro]
        for c in mk:
            n += 1
            tt = [x for x in b.calls() if x.is_fn("trim_text") and b.dominates(c.bb, x.bb)]
            ok = bool(tt) and all(a.get("i") == 1 for x in tt for a in x.args[1:2])
            chk.instance("C13/R5", "%s: NsReader created with trim_text(true)" % R.short_fn(name), name, c.loc(), holds=ok,
                         key="C13/R5 %s reader-without-trim_text" % R.short_fn(name))
            ex = [x for x in b.calls() if x.is_fn("expand_empty_elements") and b.dominates(c.bb, x.bb)]
            on = bool(ex) and all(a.get("i") == 1 for x in ex for a in x.args[1:2])
            expanded.append(on)
            chk.instance("C13/R4", "%s: NsReader %s" % (R.short_fn(name), "expands `<x/>` into Start + End (expand_empty_elements(true))" if on
                                                       else "delivers `<x/>` as Event::Empty: every loop must handle both forms alike"),
                         name, c.loc(), holds=True)
    chk.floor("C13/R5 NsReader construction sites", n, 1)
    return bool(expanded) and all(expanded)


# ---------------------------------------------------------------------------------------------
def r6_attribute_order(chk, fx):
    """Attribute order carries no information.  A reader that scans `start.attributes()` in a loop folds over them in document
    order; the result is order-independent iff the arms commute: an arm may return (absorbing), or assign variables no other arm
    assigns.  Two arms for different attributes that assign the same variable make the later attribute win.  Decided per scanning
    reader on the explored one-attribute paths: which comparisons with attribute names the path assumed true, and what it assigned."""
    import re
    from vlib import absint as A
    from . import c16
    readers = []
    for name, b in sorted(fx.mir.items()):
        if b.crate in R.CRATES and "::tests::" not in name and "{closure" not in name and b.calls_to("BytesStart::<'a>::attributes", user_only=True):
            if any(c.is_fn("IntoIterator::into_iter", "Iterator::next") for c in b.calls()):
                readers.append(name)
    chk.floor("C13/R6 readers scanning attributes in a loop", len(readers), 1)
    for name in readers:
        if name not in fx.thir:
            continue
        chk.analysed(name)
        crate = fx.mir[name].crate
        paths = A.Interp(fx, crates=(crate,), max_paths=6000).explore(name)
        arms = {}
        for p in paths:
            if not c16.is_attr_iteration(p) or p.end == "abort":
                continue
            names = sorted({m for k, v in p.assume.items() if v is True for m in re.findall(r"(?:b\"|')([a-z][a-z0-9:-]*)(?:\"|')", k)
                            if ".key" in k or "local_name" in k or "QName" in k})
            for e in p.assigns():
                arms.setdefault(e[1], {}).setdefault(tuple(names), set()).add(A.vstr(e[2])[:80])
        n = 0
        for var, by_arm in sorted(arms.items()):
            n += 1
            keyed = {k: v for k, v in by_arm.items() if k}
            ok = len(keyed) <= 1
            chk.instance("C13/R6", "%s: `%s` is assigned by the arm of one attribute only (%s)" % (R.short_fn(name), var, sorted(by_arm)), name,
                         None, holds=ok, key="C13/R6 %s %s assigned-by-several-attribute-arms" % (R.short_fn(name), var),
                         detail=None if ok else "arms for %s all write `%s`: whichever attribute comes last in the start tag decides" % (sorted(keyed), var))
        chk.instance("C13/R6", "%s: attribute scan explored (%d variable(s) assigned by attribute arms)" % (R.short_fn(name), n), name, None, holds=True)


# ---------------------------------------------------------------------------------------------
NAME_WRAPPERS = ("AsRef::as_ref", "Deref::deref", "Borrow::borrow", "QName::as_ref", "QName::into_inner", "LocalName::as_ref", "LocalName::into_inner",
                 "Into::into", "From::from")


def _name_source(e, lets, depth=6):
    """'qualified' / 'local' when the expression is (a view of) tag.name() / tag.local_name(), through wrappers and let-bound locals."""
    for _ in range(depth):
        e = T.peel(e)
        k = e.get("k")
        if k == "Call" and e.get("fn"):
            s2 = T.short(e["fn"], 2)
            if s2 in ("BytesStart::name", "BytesEnd::name"):
                return "qualified"
            if s2 in ("BytesStart::local_name", "BytesEnd::local_name", "QName::local_name"):
                return "local"
            if s2 in NAME_WRAPPERS and e.get("args"):
                e = e["args"][0]
                continue
            return None
        if k == "Field" and e.get("arg") is not None:
            e = e["arg"]
            continue
        if k == "Var" and e.get("name") in lets:
            e = lets[e["name"]]
            continue
        return None
    return None


def r1_qualified_name_vs_literal(chk, fx, loops):
    """Prefix independence, second form: besides the arms of the reader loops (R1), a reader may dispatch on an element's name in a
    nested `match` or an `==` with a literal.  The name compared with a literal must be the local name; `tag.name()` is the qualified
    name (prefix included), which is only good for read_text / read_to_end / comparing with the remembered end tag."""
    fns = sorted({lp.fn for lp in loops})
    n = 0
    for fn in fns:
        t = fx.thir.get(fn)
        if t is None:
            continue
        body = T.norm(t["body"])
        lets = {}
        for st in T.walk(body):
            if st.get("k") == "LetStmt" and st.get("init") is not None and (st.get("pat") or {}).get("k") == "Bind":
                lets.setdefault(st["pat"]["name"], st["init"])
        sites = []
        for m in T.find(body, "Match"):
            scr = m.get("scrut") if "scrut" in m else m.get("scrutinee")
            if scr is None:
                continue
            if any(T.pat_str(a["pat"]).startswith('b"') for a in m["arms"]):
                sites.append((scr, m.get("sp")))
        for c in T.find(body, "Call"):
            if c.get("fn") and T.short(c["fn"], 2) in ("PartialEq::eq", "PartialEq::ne") and len(c.get("args") or []) == 2:
                a0, a1 = c["args"]
                lit = [x for x in (a0, a1) if T.peel(x).get("k") == "Lit" and isinstance(T.peel(x).get("v"), str)]
                if len(lit) == 1:
                    sites.append((a1 if lit[0] is a0 else a0, c.get("sp")))
        for (e, sp) in sites:
            src = _name_source(e, lets)
            if src is None:
                continue
            n += 1
            bad = src == "qualified"
            chk.instance("C13/R1", "%s: a name compared with a literal is the local name (%s)" % (R.short_fn(fn), X.ntext(e)[:60]), fn, loc_of(sp), holds=not bad,
                         key="C13/R1 %s literal-compared-with-qualified-name" % R.short_fn(fn),
                         detail=None if not bad else "the qualified name includes the prefix: `nc:session-id` does not equal b\"session-id\"")
    chk.floor("C13/R1 literal name comparisons outside loop arms", n, 1)
