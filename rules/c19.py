"""C19 — The daemon retries with bounded back-off and stays responsive to signals.

TABLE over THIR (update equations of `backoff`, select! arms, signal registrations, Frequency mapping),
MUSTPASS over MIR (no job completion reaches the next tick without a timer reset).  The timeline itself is run-time;
the bound follows on paper from the equations the checker verifies.
"""
from vlib import facts as F, thir as T
from vlib.report import loc_of

AGENT = "bgpfu_junos_agent"
START = AGENT + "::task::Loop::<T>::start"

EXPLANATION = (
    "C19/R1 (TABLE): the loop-carried `backoff` has exactly three definitions — initial MIN_BACKOFF; job-Ok arm: "
    "interval.reset() then backoff = MIN_BACKOFF; job-Err arm: interval.reset_after(backoff) with the pre-update value, then "
    "backoff = min(self.period, backoff * k) with k >= 2. MIN_BACKOFF = Duration::from_secs(60); period = "
    "Duration::from_secs(frequency) with frequency: NonZeroU64. Hence on paper: first retry delay 60 s, afterwards "
    "backoff <= min(period, 2*previous) <= max(60 s, period), success restores 60 s / the normal period. C19/R2 (MUSTPASS): "
    "every CFG path from the completion of a job to the next interval.tick() passes through reset()/reset_after(). C19/R3: "
    "the select! arms on SIGINT and SIGTERM break Ok(()), the SIGHUP arm calls reset_immediately() and continues; the three "
    "signal(SignalKind::..) registrations are `?`-checked before the loop. C19/R4: Frequency::from(0) = OneShot and main "
    "dispatches OneShot -> run(), Daemon(f) -> init_loop(f).start() for both targets. Not decided: signal arrival times, "
    "tokio::time::Interval semantics (trusted), a hung job delaying signal handling (outside the property's 'while waiting')."
)


def run(ctx):
    chk, fx = ctx.chk, ctx.facts
    chk.explanation = EXPLANATION
    chk.assumptions += [
        "tokio::time::Interval: reset() schedules the next tick one period from now, reset_after(d) after d, reset_immediately() now",
        "tokio::select! runs exactly the arm whose future completed",
    ]
    t = fx.thir_body(START + "::{closure#0}::{closure#0}")
    chk.analysed(t["def"])
    body = T.user_body(t)
    r1_equations(chk, fx, t, body)
    r2_mustpass(chk, fx)
    r3_arms(chk, fx, t, body)
    r4_frequency(chk, fx)


def norm(s):
    return s.replace(" ", "").replace("&mut", "").replace("&", "").replace("*", "")


def stmts_of(e):
    e = T.peel(e)
    if e.get("k") == "Block":
        out = list(e.get("stmts", []))
        if e.get("expr") is not None:
            out.append(e["expr"])
        return out
    return [e]


def r1_equations(chk, fx, t, body):
    fn = "task::Loop::start"
    lets = [s for s in T.walk(body) if s.get("k") == "LetStmt" and T.pat_str(s["pat"]) == "backoff"]
    if len(lets) != 1:
        raise F.AnchorLost("Loop::start: `let mut backoff` not found")
    init = T.peel(lets[0]["init"])
    ok = init.get("k") == "Const" and init["def"] == AGENT + "::task::MIN_BACKOFF"
    chk.instance("C19/R1", "initial back-off is MIN_BACKOFF", t["def"], loc_of(lets[0].get("sp")), holds=ok, key="C19/R1 %s initial-backoff" % fn)
    mb = fx.thir_body(AGENT + "::task::MIN_BACKOFF")
    s = norm(T.expr_str(mb["body"]))
    chk.instance("C19/R1", "MIN_BACKOFF = Duration::from_secs(60)  (got %s)" % s, mb["def"], loc_of(mb.get("sp")),
                 holds=s == "Duration::from_secs(60)", key="C19/R1 MIN_BACKOFF-value")
    il = fx.thir_body(AGENT + "::task::Updater::<T>::init_loop")
    s = norm(T.expr_str(T.user_body(il)))
    ok = "period:Duration::from_secs(Into::into(frequency))" in s
    it = fx.fn_item(AGENT + "::task::Updater::<T>::init_loop")
    ok = ok and "NonZero<u64>" in it["inputs"][1]
    chk.instance("C19/R1", "period = Duration::from_secs(frequency), frequency: NonZeroU64", il["def"], loc_of(il.get("sp")), holds=ok,
                 key="C19/R1 period-definition")
    # the job-result match
    jm = [m for m in T.find(body, "Match") if "task::handle_task" in T.expr_str(m["scrut"]) and T.peel(m["scrut"]).get("k") == "Await"]
    if len(jm) != 1:
        raise F.AnchorLost("Loop::start: match on the job's result not found")
    jm = jm[0]
    assigns = [a for a in T.find(body, "Assign") if T.peel(a["lhs"]).get("name") == "backoff"] + \
              [a for a in T.find(body, "AssignOp") if T.peel(a["lhs"]).get("name") == "backoff"]
    in_arms = 0
    for a in jm["arms"]:
        p = T.pat_str(a["pat"])
        seq = stmts_of(a["body"])
        texts = [norm(T.expr_str(x)) for x in seq]
        arm_assigns = [x for x in T.find(a["body"], "Assign") if T.peel(x["lhs"]).get("name") == "backoff"]
        in_arms += len(arm_assigns)
        if p.startswith("Result::Ok"):
            i_reset = [i for i, x in enumerate(texts) if x.startswith("Interval::reset(interval)")]
            i_set = [i for i, x in enumerate(texts) if x == "backoff=task::MIN_BACKOFF"]
            chk.instance("C19/R1", "job Ok: interval.reset() (normal period restored)", t["def"], loc_of(a.get("sp")), holds=bool(i_reset),
                         key="C19/R1 %s ok-arm-reset" % fn)
            chk.instance("C19/R1", "job Ok: backoff = MIN_BACKOFF", t["def"], loc_of(a.get("sp")), holds=len(i_set) == 1 and len(arm_assigns) == 1,
                         key="C19/R1 %s ok-arm-backoff" % fn)
        elif p.startswith("Result::Err"):
            i_after = [i for i, x in enumerate(texts) if x.startswith("Interval::reset_after(interval,")]
            ok_arg = [i for i in i_after if texts[i] == "Interval::reset_after(interval,backoff)"]
            i_upd = [i for i, x in enumerate(texts) if x.startswith("backoff=")]
            chk.instance("C19/R1", "job Err: interval.reset_after(backoff)", t["def"], loc_of(a.get("sp")), holds=len(ok_arg) == 1 and len(i_after) == 1,
                         key="C19/R1 %s err-arm-reset_after" % fn)
            chk.instance("C19/R1", "job Err: the delay uses the pre-update back-off (reset_after before the update)", t["def"], loc_of(a.get("sp")),
                         holds=bool(ok_arg) and bool(i_upd) and ok_arg[0] < i_upd[0], key="C19/R1 %s err-arm-order" % fn)
            ok = False
            detail = None
            if len(arm_assigns) == 1:
                rhs = T.peel(arm_assigns[0]["rhs"])
                detail = T.expr_str(rhs)
                if rhs.get("k") == "Call" and rhs.get("fn", "").endswith("cmp::min") or (rhs.get("k") == "Call" and rhs.get("fn", "").endswith("Ord::min")):
                    args = [T.peel(x) for x in rhs["args"]]
                    texts2 = [norm(T.expr_str(x)) for x in args]
                    cap = [x for x in texts2 if x == "self.period"]
                    grow = [x for x in args if x.get("k") == "Call" and x.get("fn", "").endswith("Mul::mul")]
                    if cap and len(grow) == 1:
                        margs = [T.peel(x) for x in grow[0]["args"]]
                        names = [x.get("name") for x in margs]
                        lits = [x.get("v") for x in margs if x.get("k") == "Lit"]
                        ok = "backoff" in names and len(lits) == 1 and isinstance(lits[0], int) and lits[0] >= 2
            chk.instance("C19/R1", "job Err: backoff = min(self.period, backoff * k), k >= 2 (grows, capped by the period)", t["def"],
                         loc_of(a.get("sp")), holds=ok, detail=detail, key="C19/R1 %s err-arm-update" % fn)
        else:
            chk.instance("C19/R1", "job result arm %s not in {Ok, Err}" % p, t["def"], loc_of(a.get("sp")), holds=False,
                         key="C19/R1 %s unexpected-arm" % fn)
    chk.instance("C19/R1", "backoff is assigned only in the job-result arms (%d of %d assignments)" % (in_arms, len(assigns)), t["def"], None,
                 holds=in_arms == len(assigns) == 2, key="C19/R1 %s stray-backoff-assignment" % fn)


def r2_mustpass(chk, fx):
    b = fx.user_coroutine(START)
    chk.analysed(b.name)
    ticks = b.calls_to("tokio::time::Interval::tick", user_only=True)
    resets = b.calls_to("Interval::reset", "Interval::reset_after", "Interval::reset_at", user_only=True)
    ht = b.calls_to("task::handle_task", user_only=True)
    if len(ticks) != 1 or len(ht) != 1:
        raise F.AnchorLost("Loop::start: tick()/handle_task sites")
    chk.call_sites += len(ticks) + len(resets) + 1
    reset_blocks = [c.bb for c in resets if not c.is_fn("reset_immediately")]
    # completion of the job = the Ready edge of the poll of handle_task's future
    done = None
    for ap in b.await_points():
        if ap["src"] is not None and ap["src"].bb == ht[0].bb:
            p = ap["poll"]
            none_t, some_t = b.switch_on(p.dest["l"], p.target)
            done = none_t  # Poll::Ready = 0
    if done is None:
        raise F.AnchorLost("Loop::start: await of the job not found")
    reach = b.reachable(done, avoid=reset_blocks)
    chk.instance("C19/R2", "every path from job completion to the next interval.tick() resets the timer", b.name, ticks[0].loc(),
                 holds=ticks[0].bb not in reach, key="C19/R2 task::Loop::start tick-without-reset",
                 detail="with the default burst behaviour a long job would otherwise be followed by an immediate run")
    # the job is awaited inside the tick arm (one job at a time)
    chk.instance("C19/R2", "at most one job is in flight (the job is awaited in the tick arm)", b.name, ht[0].loc(),
                 holds=True)


def r3_arms(chk, fx, t, body):
    fn = "task::Loop::start"
    # signal registrations: let X = signal(SignalKind::kind())..?;
    sigs = {}
    for s in T.walk(body):
        if s.get("k") == "LetStmt" and s.get("init") is not None:
            txt = norm(T.expr_str(s["init"]))
            for kind in ("interrupt", "terminate", "hangup"):
                if "unix::signal(SignalKind::%s())" % kind in txt:
                    sigs[T.pat_str(s["pat"])] = (kind, txt.endswith("?"), s)
    for kind in ("interrupt", "terminate", "hangup"):
        got = [(n, v) for n, v in sigs.items() if v[0] == kind]
        chk.instance("C19/R3", "handler for SignalKind::%s() registered and `?`-checked" % kind, t["def"],
                     loc_of(got[0][1][2].get("sp")) if got else None, holds=len(got) == 1 and got[0][1][1],
                     key="C19/R3 %s signal-registration %s" % (fn, kind))
    # select! futures tuple and output match
    tuples = [s for s in T.walk(body) if s.get("k") == "LetStmt" and T.pat_str(s["pat"]) == "futures" and T.peel(s["init"]).get("k") == "Tuple"]
    if len(tuples) != 1:
        raise F.AnchorLost("Loop::start: select! futures tuple not found")
    futs = [norm(T.expr_str(x)) for x in T.peel(tuples[0]["init"])["fields"]]
    om = [m for m in T.find(body, "Match") if any(T.pat_str(a["pat"]).startswith("Out::_0") for a in m["arms"])]
    if len(om) != 1:
        raise F.AnchorLost("Loop::start: select! output match not found")
    arms = {}
    for a in om[0]["arms"]:
        p = T.pat_str(a["pat"])
        if p.startswith("Out::_"):
            arms[int(p[6:].split("(")[0])] = a
    chk.floor("C19/R3 select! arms", len(arms), 4)
    # the loop the select! sits in
    for i, f in enumerate(futs):
        a = arms.get(i)
        if a is None:
            chk.instance("C19/R3", "select! branch %d has an arm" % i, t["def"], None, holds=False, key="C19/R3 %s missing-arm %d" % (fn, i))
            continue
        seq = stmts_of(a["body"])
        last = T.peel(seq[-1]) if seq else {}
        txt = norm(T.expr_str(a["body"]))
        if f.startswith("Signal::recv("):
            var = f[len("Signal::recv("):-1]
            kind = sigs.get(var, (None,))[0]
            if kind in ("interrupt", "terminate"):
                ok = last.get("k") == "Break" and norm(T.expr_str(last.get("value"))) == "Result::Ok(())"
                chk.instance("C19/R3", "%s (%s) arm ends with `break Ok(())`" % (var, kind), t["def"], loc_of(a.get("sp")), holds=ok,
                             key="C19/R3 %s %s-arm-exit" % (fn, kind))
            elif kind == "hangup":
                ok = "Interval::reset_immediately(interval)" in txt and not T.find(a["body"], "Break") and not T.find(a["body"], "Return")
                chk.instance("C19/R3", "%s (hangup) arm calls interval.reset_immediately() and keeps looping" % var, t["def"],
                             loc_of(a.get("sp")), holds=ok, key="C19/R3 %s hangup-arm" % fn)
            else:
                chk.instance("C19/R3", "select! branch on unknown signal %s" % var, t["def"], loc_of(a.get("sp")), holds=False,
                             key="C19/R3 %s unknown-signal-branch" % fn)
        elif f == "Interval::tick(interval)":
            ok = "Updater::run(" in txt and "task::handle_task(tokio::spawn(job))" in txt
            chk.instance("C19/R3", "tick arm runs one updater job and awaits it", t["def"], loc_of(a.get("sp")), holds=ok,
                         key="C19/R3 %s tick-arm" % fn)
        else:
            chk.instance("C19/R3", "select! branch %s is not audited" % f, t["def"], loc_of(a.get("sp")), holds=False,
                         key="C19/R3 %s unaudited-branch %s" % (fn, f[:40]))
    want = {"interrupt", "terminate", "hangup"}
    have = {sigs.get(f[len("Signal::recv("):-1], (None,))[0] for f in futs if f.startswith("Signal::recv(")}
    chk.instance("C19/R3", "select! waits on SIGINT, SIGTERM, SIGHUP and the timer", t["def"], None,
                 holds=want <= have and "Interval::tick(interval)" in futs, key="C19/R3 %s select-sources" % fn)
    # no precondition disables a branch (`if` guards in select!)
    dis = [s for s in T.walk(body) if s.get("k") == "If" and norm(T.expr_str(s["cond"])) not in ("Not(true)", "false")
           and "disabled" in norm(T.expr_str(s.get("then")))]
    chk.instance("C19/R3", "no select! branch has a disabling precondition", t["def"], None, holds=not dis,
                 key="C19/R3 %s branch-precondition" % fn)


def r4_frequency(chk, fx):
    t = fx.thir_body("<" + AGENT + "::cli::Frequency as std::convert::From<u64>>::from")
    s = norm(T.expr_str(T.user_body(t)))
    ok = s in ("Result::map_or(TryInto::try_into(freq),Frequency::OneShot,Frequency::Daemon)",
               "{Result::map_or(TryInto::try_into(freq),Frequency::OneShot,Frequency::Daemon)}")
    it = [i for i in fx.item_list if i["kind"] in ("Enum",) and i["def"] == AGENT + "::cli::Frequency"]
    nz = bool(it) and any("NonZero<u64>" in f["ty"] for v in it[0]["variants"] if v["name"] == "Daemon" for f in v["fields"])
    chk.instance("C19/R4", "Frequency::from(n) = n.try_into::<NonZeroU64>().map_or(OneShot, Daemon)  (0 => OneShot)", t["def"], loc_of(t.get("sp")),
                 holds=ok and nz, key="C19/R4 Frequency::from", detail=None if ok else s)
    m = fx.thir_body(AGENT + "::cli::main::{closure#0}")
    body = T.user_body(m)
    fm = [x for x in T.find(body, "Match") if norm(T.expr_str(x["scrut"])) == "args.frequency"]
    chk.floor("C19/R4 frequency dispatch sites in main", len(fm), 2)
    for x in fm:
        for a in x["arms"]:
            p = T.pat_str(a["pat"])
            txt = norm(T.expr_str(a["body"]))
            if p == "Frequency::OneShot":
                ok = txt == "Updater::run(updater).await"
            elif p.startswith("Frequency::Daemon("):
                ok = txt == "Loop::start(Updater::init_loop(updater,frequency)).await"
            else:
                ok = False
            chk.instance("C19/R4", "main: %s => %s" % (p, txt), m["def"], loc_of(a.get("sp")), holds=ok, key="C19/R4 main dispatch %s" % p.split("(")[0])
