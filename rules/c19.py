"""C19 — The daemon retries with bounded back-off and stays responsive to signals.

Decided by path exploration (vlib/absint.py) of `Loop::start`: one iteration of the loop is run for every outcome of the
`select!`, and the rule reads off what each outcome does — which timer operation it calls with which value, what it assigns to the
loop-carried delay, whether it leaves the loop.  Nothing depends on how the source spells it (match arms, an intermediate enum,
renamed locals, helper functions, constants moved).  The timeline itself is run-time; the bound follows on paper from the
equations the checker verifies.
"""
import re
from vlib import facts as F, thir as T, absint as A
from vlib.report import loc_of

AGENT = "bgpfu_junos_agent"
START = AGENT + "::task::Loop::<T>::start"

EXPLANATION = (
    "Path exploration of Loop::start, one loop iteration per select! outcome. C19/R1: the delay passed to interval.reset_after(..) on a "
    "failed job is the loop-carried back-off variable's value from *before* this iteration's update; that variable is initialised to a "
    "constant equal to Duration::from_secs(60), is set back to the same constant (after interval.reset()) when a job succeeds, and is "
    "set to min(self.period, previous * k), k >= 2, when a job fails — and is assigned nowhere else; period = Duration::from_secs(frequency), "
    "frequency: NonZeroU64. Hence on paper: first retry delay 60 s, afterwards backoff <= min(period, 2*previous) <= max(60 s, period), "
    "success restores 60 s / the normal period. C19/R2: every outcome in which a job ran resets the timer (reset / reset_after) before "
    "the loop goes round. C19/R3: the outcomes of SIGINT and SIGTERM leave the loop with Ok(()); the SIGHUP outcome calls "
    "reset_immediately() and goes round; the timer outcome spawns one job and awaits it; the three signal(SignalKind::..) registrations "
    "happen before the loop and a failing one fails start(). C19/R4: Frequency::from(0) = OneShot, and main runs the updater once for "
    "OneShot and init_loop(f).start() for Daemon(f), for both targets. Not decided: signal arrival times, tokio::time::Interval "
    "semantics (trusted), a hung job delaying signal handling (outside the property's 'while waiting')."
)

SIG_KINDS = ("interrupt", "terminate", "hangup")


def run(ctx):
    chk, fx = ctx.chk, ctx.facts
    chk.explanation = EXPLANATION
    chk.assumptions += [
        "tokio::time::Interval: reset() schedules the next tick one period from now, reset_after(d) after d, reset_immediately() now",
        "tokio::select! runs exactly the branch whose future completed; its output variant _k belongs to the k-th future of the macro",
    ]
    un = START + "::{closure#0}::{closure#0}"
    t = fx.thir_body(un)
    chk.analysed(un)
    it = A.Interp(fx, crates=(AGENT,), max_paths=4000, no_inline=("Updater::<T>::run",) + _join_names(fx))
    it.model_iterators = False
    paths = it.explore(un)
    chk.extra["paths_explored"] = len(paths)
    chk.floor("C19 paths of Loop::start", len(paths), 6)
    outcomes = classify(paths)
    chk.extra["select_outcomes"] = {k: len(v) for k, v in outcomes.items()}
    r1_equations(chk, fx, t, paths, outcomes)
    r2_reset(chk, t, outcomes)
    r3_outcomes(chk, fx, t, paths, outcomes)
    r4_frequency(chk, fx)


def select_sources(p):
    """The futures given to select!, in order: the future-creating calls between the start of the iteration and the poll."""
    out = []
    for e in p.trace:
        if e[0] != "call":
            continue
        s2 = T.short(e[1], 2)
        if s2 == "Signal::recv":
            recv = A.vstr(e[2][0])
            kind = next((k for k in SIG_KINDS if "SignalKind::%s()" % k in recv), "?")
            out.append("signal:" + kind)
        elif s2 == "Interval::tick":
            out.append("tick")
        elif s2.startswith("poll_fn"):
            break
    return out


def classify(paths):
    """{source: [paths]} by the select! outcome each path assumed."""
    out = {}
    for p in paths:
        k = None
        for key, v in p.assume.items():
            if key.startswith("variant:poll_fn") and isinstance(v, str) and re.match(r"^_\d+$", v):
                k = int(v[1:])
        if k is None:
            continue
        src = select_sources(p)
        out.setdefault(src[k] if k < len(src) else "?%d" % k, []).append(p)
    return out


def const_secs(fx, v):
    """Seconds of a constant that is `Duration::from_secs(N)` (through one level of constant-to-constant reference)."""
    for _ in range(3):
        if not (isinstance(v, tuple) and v[0] == "const"):
            return None
        t = fx.thir.get(v[1])
        if t is None:
            return None
        b = T.peel(T.norm(t["body"]))
        if b.get("k") == "Call" and T.short(b.get("fn", ""), 2) == "Duration::from_secs":
            a = T.peel(b["args"][0])
            return a.get("v") if a.get("k") == "Lit" else None
        if b.get("k") in ("Const",):
            v = ("const", b["def"])
            continue
        return None
    return None


_JOIN = {}


def _join_names(fx):
    """Short names of the helper(s) that join a spawned task (handle_task today), found by signature."""
    if id(fx) not in _JOIN:
        from .agent_common import join_helpers
        _JOIN.clear()
        _JOIN[id(fx)] = tuple(T.short(h, 2) for h in join_helpers(fx))
    return _JOIN[id(fx)]


def _joined_in(key):
    return any(n in key for v in _JOIN.values() for n in v)


def _about_job(key):
    return _joined_in(key) or "JoinHandle" in key or "spawn" in key or "Updater::run" in key


def job_result(p):
    for key, v in p.assume.items():
        if key.startswith("variant:") and _about_job(key) and v in ("Ok", "Err"):
            return v
    # `if let Err(e) = outcome { .. } else { .. }`: the else branch only knows what the outcome is not
    for key, v in p.assume.items():
        if key.startswith("notvariant:") and _about_job(key) and "→" not in key.split("(")[-1]:
            if set(v) == {"Err"}:
                return "Ok"
            if set(v) == {"Ok"}:
                return "Err"
    return None


def r1_equations(chk, fx, t, paths, outcomes):
    fn = "task::Loop::start"
    ticks = outcomes.get("tick", [])
    oks = [p for p in ticks if job_result(p) == "Ok"]
    errs = [p for p in ticks if job_result(p) == "Err"]
    chk.instance("C19/R1", "the timer outcome distinguishes a successful and a failed job (%d / %d paths)" % (len(oks), len(errs)), t["def"], loc_of(t.get("sp")),
                 holds=bool(oks) and bool(errs) and len(oks) + len(errs) == len(ticks), key="C19/R1 %s unexpected-arm" % fn)
    # the loop-carried delay = what is handed to reset_after: the pre-iteration value of a variable, or of a field of a variable
    # (a small back-off type with methods: the interpreter runs them inline and writes their stores back to the variable)
    delay_exprs = set()
    after_ok = True
    for p in errs:
        ra = p.calls("Interval::reset_after")
        if len(ra) != 1:
            after_ok = False
            continue
        d = ra[0][2][1] if len(ra[0][2]) > 1 else None
        if d is not None and d[0] == "sym" and d[1].startswith("loop:"):
            delay_exprs.add((d[1][5:], None))
        elif d is not None and d[0] == "field" and d[1][0] == "sym" and d[1][1].startswith("loop:"):
            delay_exprs.add((d[1][1][5:], d[2]))
        else:
            after_ok = False
    chk.instance("C19/R1", "job Err: interval.reset_after(<the loop-carried delay>) — exactly once", t["def"], loc_of(t.get("sp")),
                 holds=after_ok and len(delay_exprs) == 1, key="C19/R1 %s err-arm-reset_after" % fn)
    chk.instance("C19/R1", "job Err: the delay uses the pre-update back-off (the value the variable had when the iteration began)", t["def"], loc_of(t.get("sp")),
                 holds=after_ok and len(delay_exprs) == 1, key="C19/R1 %s err-arm-order" % fn,
                 detail=None if after_ok else "reset_after is given something else than the variable's value from before the update")
    var, fld = next(iter(delay_exprs)) if len(delay_exprs) == 1 else (None, None)
    pre = (("sym", "loop:%s" % var) if fld is None else ("field", ("sym", "loop:%s" % var), fld)) if var else None

    def delay_of(state):
        """The delay held by an abstract state of the variable."""
        if state is None or fld is None:
            return state
        return A.Interp(fx).project(state, fld)

    def new_state(p):
        asg = p.assigns(var) if var else []
        return asg[-1][2] if asg else None
    # initial value: what the first iteration would hand to reset_after when the loop state is *not* abstracted — a constant of 60 s
    init = None
    it0 = A.Interp(fx, crates=(AGENT,), max_paths=4000, no_inline=("Updater::<T>::run",) + _join_names(fx), havoc_loops=False)
    it0.model_iterators = False
    for p in classify(it0.explore(t["def"])).get("tick", []):
        ra = p.calls("Interval::reset_after")
        if job_result(p) == "Err" and len(ra) == 1 and len(ra[0][2]) > 1:
            init = ra[0][2][1]
    if not (isinstance(init, tuple) and init[0] == "const"):
        init = None
    secs0 = const_secs(fx, init)
    chk.instance("C19/R1", "initial back-off is a constant (%s)" % (A.vstr(init) if init else None), t["def"], loc_of(t.get("sp")), holds=init is not None,
                 key="C19/R1 %s initial-backoff" % fn)
    chk.instance("C19/R1", "that constant = Duration::from_secs(60)  (got %s s)" % secs0, init[1] if init else t["def"], None, holds=secs0 == 60,
                 key="C19/R1 MIN_BACKOFF-value")
    il = fx.thir_body(AGENT + "::task::Updater::<T>::init_loop")
    r = A.Interp(fx, crates=(AGENT,)).explore(AGENT + "::task::Updater::<T>::init_loop", args=[("sym", "SELF"), ("sym", "FREQ")])
    per = A.fields_of(r[0].ret).get("period") if len(r) == 1 else None
    itf = fx.fn_item(AGENT + "::task::Updater::<T>::init_loop")
    ok = per is not None and A.vstr(per) == "Duration::from_secs(«FREQ»)" and "NonZero<u64>" in itf["inputs"][1]
    chk.instance("C19/R1", "period = Duration::from_secs(frequency), frequency: NonZeroU64 (%s)" % (A.vstr(per) if per else None), il["def"], loc_of(il.get("sp")),
                 holds=ok, key="C19/R1 period-definition")
    # job Ok
    ok_reset = all(len(p.calls("Interval::reset")) >= 1 and not p.calls("Interval::reset_after") for p in oks)
    chk.instance("C19/R1", "job Ok: interval.reset() (normal period restored)", t["def"], loc_of(t.get("sp")), holds=bool(oks) and ok_reset,
                 key="C19/R1 %s ok-arm-reset" % fn)
    ok_set = bool(oks) and var is not None
    for p in oks:
        st = new_state(p)
        ok_set = ok_set and st is not None and delay_of(st) == init
    chk.instance("C19/R1", "job Ok: back-off = the initial constant again", t["def"], loc_of(t.get("sp")), holds=ok_set, key="C19/R1 %s ok-arm-backoff" % fn)
    # job Err update
    upd_ok, detail = bool(errs) and var is not None, None
    for p in errs:
        st = new_state(p)
        if st is None:
            upd_ok, detail = False, "the back-off is not updated"
            continue
        v = delay_of(st)
        detail = A.vstr(v)
        upd_ok = upd_ok and is_capped_growth(v, pre, var, it0_cap(fx, t, var))
    chk.instance("C19/R1", "job Err: back-off = min(self.period, previous * k), k >= 2 (grows, capped by the period): %s" % detail, t["def"], loc_of(t.get("sp")),
                 holds=upd_ok, key="C19/R1 %s err-arm-update" % fn, detail=detail)
    stray = [p for p in paths if var and p.assigns(var) and p not in oks and p not in errs]
    chk.instance("C19/R1", "the back-off is assigned only when a job has finished", t["def"], None, holds=var is not None and not stray,
                 key="C19/R1 %s stray-backoff-assignment" % fn)


def it0_cap(fx, t, var):
    """Fields of the back-off variable that hold `self.period` when the loop is entered (a cap kept inside a back-off type) and that no
    path of the loop changes."""
    it0 = A.Interp(fx, crates=(AGENT,), max_paths=4000, no_inline=("Updater::<T>::run",) + _join_names(fx), havoc_loops=False)
    it0.model_iterators = False
    caps = None
    for p in it0.explore(t["def"]):
        st = (p.env or {}).get(var)
        if st is None or st[0] not in ("adt", "upd"):
            continue
        cur = set()
        base = st
        while base[0] == "upd":
            base = base[1]
        if base[0] == "adt":
            for f, v in base[3]:
                if v[0] == "field" and v[2] == "period" and "self" in A.vstr(v[1]) and A.Interp(fx).project(st, f) == v:
                    cur.add(f)
        caps = cur if caps is None else (caps & cur)
    return caps or set()


def is_capped_growth(v, pre, var, cap_fields=()):
    """min(cap, previous * k) with k >= 2, in either argument order (cmp::min / Ord::min); cap = self.period, or a field of the
    back-off variable that holds self.period throughout; previous = the delay before the update."""
    if not (v[0] == "term" and T.short(v[1], 2) in ("cmp::min", "Ord::min") and len(v[2]) == 2):
        return False
    a, b = v[2]
    for cap, grow in ((a, b), (b, a)):
        is_cap = (cap[0] == "field" and cap[2] == "period" and "self" in A.vstr(cap[1])) or \
                 (cap[0] == "field" and cap[1] == ("sym", "loop:%s" % var) and cap[2] in cap_fields)
        if is_cap:
            k, base = None, None
            if grow[0] == "term" and T.short(grow[1], 2) == "Mul::mul" and len(grow[2]) == 2:
                base, k = grow[2]
                if base[0] == "lit":
                    base, k = k, base
            elif grow[0] == "bin" and grow[1] == "Mul":
                base, k = grow[2], grow[3]
                if base[0] == "lit":
                    base, k = k, base
            if base == pre and k is not None and k[0] == "lit" and isinstance(k[1], int) and k[1] >= 2:
                return True
    return False


def r2_reset(chk, t, outcomes):
    ticks = outcomes.get("tick", [])
    bad = [p for p in ticks if not (p.calls("Interval::reset") or p.calls("Interval::reset_after") or p.calls("Interval::reset_at"))]
    chk.instance("C19/R2", "every path from job completion to the next interval.tick() resets the timer (%d timer-outcome paths)" % len(ticks), t["def"],
                 loc_of(t.get("sp")), holds=bool(ticks) and not bad, key="C19/R2 task::Loop::start tick-without-reset",
                 detail="with the default burst behaviour a long job would otherwise be followed by an immediate run")
    # a run that panics is a failed run, not the end of the daemon: the job runs in a task of its own and what is awaited is
    # handle_task(JoinHandle) — which maps a JoinError (panic) to Err (C04/R5 decides that function)
    iso = bool(ticks)
    for p in ticks:
        sp = p.calls("tokio::spawn") + p.calls("task::spawn")
        spawned_run = any("Updater::run" in A.vstr(a) or "run(" in A.vstr(a) for c in sp for a in c[2])
        joined = any(k.startswith(("variant:", "notvariant:")) and _joined_in(k) and ("spawn" in k) for k in p.assume)
        iso = iso and spawned_run and joined
    chk.instance("C19/R2", "the job runs in a spawned task joined through handle_task: a panicking run counts as a failed run", t["def"], loc_of(t.get("sp")),
                 holds=iso, key="C19/R2 task::Loop::start job-not-isolated-from-panic",
                 detail=None if iso else "awaited in the select loop's own task, a panic in the run unwinds through Loop::start: no retry, no signal handling")
    one = all(len(p.calls("tokio::spawn")) + len(p.calls("task::spawn")) == 1 for p in ticks)
    chk.instance("C19/R2", "at most one job is in flight (the timer outcome spawns one job and awaits it before going round)", t["def"], loc_of(t.get("sp")),
                 holds=bool(ticks) and one and all(p.end == "iter-end" for p in ticks), key="C19/R2 task::Loop::start job-not-awaited")


def r3_outcomes(chk, fx, t, paths, outcomes):
    fn = "task::Loop::start"
    # registrations: each SignalKind registered once, before the loop, and a failure fails start()
    for kind in SIG_KINDS:
        fail = [p for p in paths if any(k.startswith("variant:unix::signal(SignalKind::%s())" % kind) and v == "Err" for k, v in p.assume.items())]
        reg = [p for p in paths if any(k.startswith("variant:unix::signal(SignalKind::%s())" % kind) and v == "Ok" for k, v in p.assume.items())]
        ok = bool(fail) and bool(reg) and all(p.end == "return" and A.is_res(p.ret) and p.ret[2] == "Err" and not p.calls("Interval::tick") for p in fail)
        chk.instance("C19/R3", "handler for SignalKind::%s() registered before the loop and `?`-checked" % kind, t["def"], loc_of(t.get("sp")), holds=ok,
                     key="C19/R3 %s signal-registration %s" % (fn, kind))
    for kind in ("interrupt", "terminate"):
        ps = outcomes.get("signal:" + kind, [])
        ok = bool(ps) and all(p.end in ("fallthrough", "return") and A.vstr(p.ret) == "Ok(())" for p in ps)
        chk.instance("C19/R3", "SIG%s outcome leaves the loop with Ok(())" % ("INT" if kind == "interrupt" else "TERM"), t["def"], loc_of(t.get("sp")), holds=ok,
                     key="C19/R3 %s %s-arm-exit" % (fn, kind))
    ps = outcomes.get("signal:hangup", [])
    ok = bool(ps) and all(p.end == "iter-end" and len(p.calls("Interval::reset_immediately")) == 1 for p in ps)
    chk.instance("C19/R3", "SIGHUP outcome calls interval.reset_immediately() and keeps looping", t["def"], loc_of(t.get("sp")), holds=ok,
                 key="C19/R3 %s hangup-arm" % fn)
    ps = outcomes.get("tick", [])
    ok = bool(ps) and all(p.calls("Updater::run") or any(e[0] == "enter" and e[1].endswith("::run") for e in p.trace) for p in ps)
    chk.instance("C19/R3", "timer outcome runs one updater job and awaits it", t["def"], loc_of(t.get("sp")), holds=ok, key="C19/R3 %s tick-arm" % fn)
    want = {"signal:interrupt", "signal:terminate", "signal:hangup", "tick"}
    chk.instance("C19/R3", "select! waits on SIGINT, SIGTERM, SIGHUP and the timer (%s)" % sorted(outcomes), t["def"], None,
                 holds=want <= set(outcomes) and not [k for k in outcomes if k.startswith("?") or k == "signal:?"], key="C19/R3 %s select-sources" % fn)
    # no precondition disables a branch: in the macro expansion a precondition shows as a condition that is not the literal `true`
    body = T.user_body(t)
    dis = []
    for s in T.walk(body):
        if s.get("k") == "If" and (s.get("sp") or {}).get("m", "").endswith("select"):
            c = T.expr_str(s["cond"]).replace(" ", "")
            if "disabled" in T.expr_str(s.get("then")).replace(" ", "") and c not in ("Not(true)", "false", "!true"):
                dis.append(c)
    chk.instance("C19/R3", "no select! branch has a disabling precondition", t["def"], None, holds=not dis, key="C19/R3 %s branch-precondition" % fn)


def r4_frequency(chk, fx):
    fr = "<" + AGENT + "::cli::Frequency as std::convert::From<u64>>::from"
    t = fx.thir_body(fr)
    paths = A.Interp(fx, crates=(AGENT,)).explore(fr)
    ok = len(paths) == 2
    for p in paths:
        tv = [(k, v) for k, v in p.assume.items() if k.startswith("variant:TryInto::try_into(«param:freq»)") or k.startswith("variant:TryFrom::try_from(«param:freq»)")]
        if len(tv) != 1:
            ok = False
            continue
        if tv[0][1] == "Ok":
            ok = ok and p.ret[0] == "adt" and p.ret[2] == "Daemon" and "→Ok.0" in A.vstr(p.ret)
        else:
            ok = ok and p.ret[0] == "adt" and p.ret[2] == "OneShot"
    it = [i for i in fx.item_list if i["kind"] in ("Enum",) and i["def"] == AGENT + "::cli::Frequency"]
    nz = bool(it) and any("NonZero<u64>" in f["ty"] for v in it[0]["variants"] if v["name"] == "Daemon" for f in v["fields"])
    chk.instance("C19/R4", "Frequency::from(n): NonZeroU64::try_from(n) Ok(f) => Daemon(f), Err (n = 0) => OneShot", t["def"], loc_of(t.get("sp")),
                 holds=ok and nz, key="C19/R4 Frequency::from", detail="; ".join(A.vstr(p.ret) for p in paths))
    mn = AGENT + "::cli::main::{closure#0}"
    m = fx.thir_body(mn)
    FREQ = AGENT + "::cli::Frequency"

    for variant in ("OneShot", "Daemon"):
        def hook(fn, args, node, interp, variant=variant):
            s2 = T.short(fn, 2)
            if s2 in ("Parser::parse", "Cli::parse"):
                return None
            return None
        itp = A.Interp(fx, hook=hook, crates=(AGENT,), max_paths=3000,
                       no_inline=("Updater::<T>::run", "Loop::<T>::start", "LoggingOpts", "tracing", "Local::new", "Remote::new", "Updater::<T>::new"))
        itp.model_iterators = False
        try:
            paths = itp.explore(mn)
        except A.Undecided as ex:
            chk.instance("C19/R4", "main could not be explored", mn, None, holds=False, key="C19/R4 main undecided", detail=str(ex))
            return
        sel = [p for p in paths if any(k.startswith("variant:") and k.endswith(".frequency") and v == variant for k, v in p.assume.items())
               or any(k.startswith("variant:") and "frequency" in k and v == variant for k, v in p.assume.items())]
        targets = {"local": [], "remote": []}
        for p in sel:
            which = "remote" if any(e[0] in ("call", "enter") and "Remote" in e[1] for e in p.trace) else "local"
            targets[which].append(p)
        for which, ps in sorted(targets.items()):
            if variant == "OneShot":
                ok = bool(ps) and all(p.calls("Updater::run") and not p.calls("Loop::start") and not p.calls("Updater::init_loop") for p in ps)
                what = "runs the updater once"
            else:
                ok = bool(ps)
                for p in ps:
                    st = p.calls("Loop::start")
                    okp = len(st) == 1 and not p.calls("Updater::run")
                    if okp:
                        lp = st[0][2][0]
                        okp = A.mentions(lp, lambda x: x[0] == "payload" and x[2] == "Daemon") or "Daemon" in A.vstr(lp)
                    ok = ok and okp
                what = "runs init_loop(f).start() with the Daemon's own f"
            chk.instance("C19/R4", "main (%s target): Frequency::%s %s (%d paths)" % (which, variant, what, len(ps)), mn, loc_of(m.get("sp")), holds=ok,
                         key="C19/R4 main dispatch Frequency::%s" % variant)
