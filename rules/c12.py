"""C12 — Session establishment negotiates a version both peers can actually speak (structural part)."""
from vlib import facts as F, thir as T, xmlgrammar as X
from vlib.report import loc_of

EXPLANATION = (
    "C12/R1: every base version the client advertises (THIR of ClientHello::default's CAPABILITIES) other than :base:1.0 requires that "
    "the framing path depends on the negotiated version — some function of the session/message/transport modules must read "
    "Context::protocol_version or match on Base; otherwise the client advertises a version whose mandatory framing (RFC 6242 §4.1: "
    "chunked framing once both peers advertise :base:1.1) it cannot speak. C12/R2 (TABLE): highest_common_version = "
    "intersection -> keep Capability::Base -> collect into BTreeSet -> last() -> ok_or_else(VersionNegotiation); Base derives Ord "
    "with variants declared in ascending version order. C12/R3: SessionId wraps NonZeroU32 and is built only by SessionId::new "
    "(NonZeroU32::new..ok_or) and FromStr (parse::<NonZeroU32>); the hello reader rejects missing / duplicate session-id or "
    "capabilities. C12/R4 (ORIGIN/OKDOM): Context::new in Session::new receives server_hello.session_id(), the negotiated version, "
    "client_hello.capabilities(), server_hello.capabilities() in that order, and Ok(Session) is reached only through the success "
    "edges of the joined hello exchange and of the negotiation. C12/R5: the future sending the client hello and the future receiving the server hello are polled by one and the same suspension point (joined), so neither order of the simultaneous exchange can block the other. Not decided: 'iff well-formed' in full (C13/C14); try_join!'s polling fairness (trusted)."
)


def run(ctx):
    chk, fx = ctx.chk, ctx.facts
    chk.explanation = EXPLANATION
    chk.assumptions += ["RFC 6242 §4.1: if both peers advertise :base:1.1 chunked framing is mandatory after the hello exchange",
                        "BTreeSet::last() returns the greatest element"]
    r1_advertised(chk, fx)
    r2_highest(chk, fx)
    r3_session_id(chk, fx)
    r4_context(chk, fx)
    r5_simultaneous(chk, fx)


def r1_advertised(chk, fx):
    t = fx.thir_body("<netconf::message::hello::ClientHello as std::default::Default>::default")
    txt = X.ntext(T.user_body(t))
    consts = [n for n in fx.thir if n.startswith(t["def"] + "::") and "closure" not in n]
    adv = []
    for n in [t["def"]] + consts:
        for a in T.find(T.norm(fx.thir[n]["body"]), "Adt"):
            if a["adt"].endswith("capabilities::Base"):
                adv.append(a["variant"])
    if not adv:
        raise F.AnchorLost("ClientHello::default: advertised base versions not found")
    chk.extra["advertised_base_versions"] = adv
    # who consults the negotiated version?
    readers = []
    for name, b in fx.mir.items():
        if b.crate != "netconf" or name.startswith("netconf::session::Context::protocol_version"):
            continue
        for c in b.calls():
            if c.is_fn("Context::protocol_version"):
                readers.append(name)
        for bl in b.blocks:
            for s in bl["stmts"]:
                if s["k"] == "assign" and s["rv"]["k"] == "discr" and s["rv"].get("enum") == "netconf::capabilities::Base" \
                        and not name.startswith(("netconf::capabilities::", "<netconf::capabilities::")):
                    readers.append(name)
                if s["k"] == "assign":
                    for pl in ([s["rv"]["pl"]] if s["rv"]["k"] in ("ref", "discr") else []) + [o["pl"] for o in b.rv_operands(s["rv"])[0] if o.get("c") in ("copy", "move")]:
                        if ".protocol_version" in (pl.get("p") or []) and not name.startswith(("netconf::session::Context::", "<netconf::session::Context as")):
                            readers.append(name)
    chk.extra["negotiated_version_readers"] = sorted(set(readers))
    for v in adv:
        if v == "V1_0":
            chk.instance("C12/R1", "client advertises :base:1.0 (end-of-message framing, implemented)", t["def"], loc_of(t.get("sp")), holds=True)
        else:
            chk.instance("C12/R1", "client advertises %s: the framing path must depend on the negotiated version" % v, t["def"],
                         loc_of(t.get("sp")), holds=bool(readers), key="C12/R1 advertises %s without version-dependent framing" % v,
                         detail="nothing reads Context::protocol_version / matches on Base outside capabilities.rs: against a server that also advertises this version the session is 'established' but neither side can parse the other's messages")
    chk.instance("C12/R1", ":base:1.0 is advertised (a common version exists with every conforming server)", t["def"], loc_of(t.get("sp")),
                 holds="V1_0" in adv, key="C12/R1 base-1.0-not-advertised")
    # the only framing implemented: MARKER-based
    chk.instance("C12/R1", "Session::new builds its hello with ClientHello::default()", "netconf::session::Session::new", None,
                 holds="client_hello=Default::default()" in X.ntext(T.user_body(fx.thir_body("netconf::session::Session::<T>::new::{closure#0}::{closure#0}"))),
                 key="C12/R1 Session::new hello-origin")


def r2_highest(chk, fx):
    name = "netconf::capabilities::Capabilities::highest_common_version"
    bodies = [fx.thir[n] for n in sorted(fx.thir) if n == name or n.startswith(name + "::{closure")]
    main = None
    for t in bodies:
        s = X.ntext(T.user_body(t))
        if "HashSet::intersection(" in s:
            main = (t, s)
    if main is None:
        raise F.AnchorLost("highest_common_version: intersection not found")
    t, s = main
    want = "Result::copied(Option::ok_or_else(BTreeSet::last(Iterator::collect(Iterator::filter_map(HashSet::intersection(self.inner,other.inner),"
    alt = want.replace("self.inner,other.inner", "other.inner,self.inner")
    chk.instance("C12/R2", "highest_common_version = intersection.filter_map(Base).collect::<BTreeSet>().last().ok_or_else(..).copied()",
                 t["def"], loc_of(t.get("sp")), holds=s.startswith(want) or s.startswith(alt) or s.startswith("{" + want), key="C12/R2 highest_common_version chain",
                 detail=s[:200])
    col = [c for c in T.calls(T.user_body(t), "Iterator::collect")]
    ok = bool(col) and any("BTreeSet<netconf::capabilities::Base>" in g for g in col[0].get("gargs", []))
    chk.instance("C12/R2", "the common versions are collected into an ordered BTreeSet<Base>", t["def"], loc_of(t.get("sp")), holds=ok,
                 key="C12/R2 highest_common_version collection-type")
    txt = " ".join(X.ntext(T.user_body(b)) for b in bodies)
    chk.instance("C12/R2", "only Capability::Base(v) entries are kept, as v", t["def"], None,
                 holds="ifletCapability::Base(base)=capability{Option::Some(base)}else{Option::None}" in txt, key="C12/R2 filter-closure")
    chk.instance("C12/R2", "no common version => Error::VersionNegotiation", t["def"], None, holds="Error::VersionNegotiation" in txt,
                 key="C12/R2 no-common-version-error")
    # Base: derived Ord, ascending declaration order
    base = [i for i in fx.item_list if i["kind"] == "Enum" and i["def"] == "netconf::capabilities::Base"]
    if not base:
        raise F.AnchorLost("enum Base")
    order = [v["name"] for v in base[0]["variants"]]
    chk.instance("C12/R2", "Base variants are declared in ascending version order %s" % order, base[0]["def"], loc_of(base[0].get("sp")),
                 holds=order == sorted(order, key=lambda v: [int(x) for x in v[1:].split("_")]), key="C12/R2 Base variant-order")
    ords = [i for i in fx.item_list if i["kind"] == "Impl" and i.get("self_adt") == "netconf::capabilities::Base" and i.get("trait") in ("std::cmp::Ord", "std::cmp::PartialOrd")]
    chk.instance("C12/R2", "Base's Ord / PartialOrd are derived (declaration order)", base[0]["def"], None,
                 holds=len(ords) == 2 and all(i.get("derived") for i in ords), key="C12/R2 Base ord-derived")


def r3_session_id(chk, fx):
    sid = [i for i in fx.item_list if i["kind"] == "Struct" and i["def"] == "netconf::session::SessionId"]
    if not sid:
        raise F.AnchorLost("SessionId")
    f = sid[0]["variants"][0]["fields"]
    chk.instance("C12/R3", "SessionId wraps NonZeroU32 (private field)", sid[0]["def"], loc_of(sid[0].get("sp")),
                 holds=len(f) == 1 and "NonZero<u32>" in f[0]["ty"] and "Restricted" in f[0]["vis"], key="C12/R3 SessionId representation")
    n = 0
    for name, b in fx.mir.items():
        if b.crate != "netconf":
            continue
        for (bi, si, s) in b.aggs_of("session::SessionId"):
            n += 1
            ok = name.startswith("netconf::session::SessionId::new") or name.startswith("<netconf::session::SessionId as std::str::FromStr>::from_str") \
                or "as std::clone::Clone>::clone" in name
            chk.instance("C12/R3", "SessionId constructed only by new / from_str", name, loc_of(s.get("sp")), holds=ok,
                         key="C12/R3 SessionId built-in %s" % T.strip_generics(name))
    # tuple-struct constructor used as a function (`.map(Self)`)
    for name, b in fx.mir.items():
        if b.crate == "netconf":
            for c in b.calls():
                for a in c.args:
                    if a.get("c") == "const" and (a.get("def") or "").endswith("session::SessionId") and not name.startswith("netconf::session::SessionId::new"):
                        chk.instance("C12/R3", "SessionId constructor passed as a function outside SessionId::new", name, c.loc(), holds=False,
                                     key="C12/R3 SessionId ctor-fn-in %s" % T.strip_generics(name))
    t = fx.thir_body("netconf::session::SessionId::new")
    s = X.ntext(T.user_body(t))
    chk.instance("C12/R3", "SessionId::new = NonZeroU32::new(n).ok_or(InvalidSessionId).map(Self)", t["def"], loc_of(t.get("sp")),
                 holds=s.strip("{}").startswith("Result::map(Option::ok_or(NonZero::new(n),Error::InvalidSessionId"), key="C12/R3 SessionId::new form", detail=s[:160])
    t = fx.thir_body("<netconf::session::SessionId as std::str::FromStr>::from_str")
    s = X.ntext(T.user_body(t))
    chk.instance("C12/R3", "SessionId::from_str parses a NonZeroU32 and maps the error", t["def"], loc_of(t.get("sp")),
                 holds=s.strip("{}") in ("Result::Ok(SessionId(Result::map_err(str::parse(s),Read::SessionIdParse)?))",
                                         "Result::Ok(SessionId(Result::map_err(str::parse(s),ReadError::SessionIdParse)?))"),
                 key="C12/R3 SessionId::from_str form", detail=s[:160])
    # hello reader: duplicates / missing rejected
    t = fx.thir_body("<netconf::message::hello::ServerHello as netconf::message::ReadXml>::read_xml")
    body = T.user_body(t)
    ms = [m for m in T.find(body, "Match") if "read_resolved_event" in T.expr_str(m["scrut"])]
    if not ms:
        raise F.AnchorLost("ServerHello reader loop")
    for el, var in (("capabilities", "capabilities"), ("session-id", "session_id")):
        arms = [a for a in ms[0]["arms"] if a.get("guard") is not None and ('b"%s"' % el) in X.ntext(a["guard"])]
        ok = len(arms) == 1 and ("Option::is_none(%s)" % var) in X.ntext(arms[0]["guard"])
        chk.instance("C12/R3", "a second <%s> is not accepted (is_none guard)" % el, t["def"], loc_of(arms[0].get("sp")) if arms else None, holds=ok,
                     key="C12/R3 ServerHello duplicate-%s" % el)
    # the is_none guard rejects a repeat only because the repeat then falls through to the error catch-all
    from . import readers as R
    loops = [lp for lp in R.reader_loops(fx) if lp.fn == t["def"]]
    chk.floor("C12/R3 ServerHello reader loops", len(loops), 1)
    for lp in loops:
        len_ = R.lenient_arms(lp)
        rep = R.repeated_names(lp)
        ca = [a for a in lp.arms if a.catch_all]
        ok = not len_ and not rep and len(ca) == 1 and "returnResult::Err(" in ca[0].body_text()
        chk.instance("C12/R3", "%s: a repeated or unknown element reaches the error catch-all (no skipping arm, one arm per element)" % lp.label(), t["def"],
                     loc_of((len_ or rep or [lp])[0].sp), holds=ok, key="C12/R3 %s lenient-arm" % lp.label(),
                     detail=("arm %s accepts content it does not name: a second <session-id>/<capabilities> fails its is_none guard and is "
                             "swallowed here" % (len_ or rep)[0].describe()) if (len_ or rep) else None)
    s = X.ntext(body)
    for el in ("capabilities", "session-id"):
        chk.instance("C12/R3", "missing <%s> is an error" % el, t["def"], None,
                     holds=('Read::missing_element("hello","%s")' % el) in s or ('ReadError::missing_element("hello","%s")' % el) in s or
                     ('missing_element("hello","%s")' % el) in " ".join(X.ntext(T.user_body(tt)) for n2, tt in fx.thir.items() if n2.startswith(t["def"] + "::{closure")),
                     key="C12/R3 ServerHello missing-%s" % el)


def r4_context(chk, fx):
    t = fx.thir_body("netconf::session::Session::<T>::new::{closure#0}::{closure#0}")
    s = X.ntext(T.user_body(t))
    must = [
        ("session_id=ServerHello::session_id(server_hello)", "session-id is the hello's"),
        ("server_capabilities=ServerHello::capabilities(server_hello)", "server capabilities are the hello's"),
        ("client_capabilities=ClientHello::capabilities(client_hello)", "client capabilities are those sent"),
        ("protocol_version=Capabilities::highest_common_version(client_capabilities,server_capabilities)?", "version is the negotiated one, `?`-checked"),
        ("context=Context::new(session_id,protocol_version,client_capabilities,server_capabilities)", "Context::new argument order"),
    ]
    for frag, what in must:
        chk.instance("C12/R4", "Session::new: %s" % what, t["def"], loc_of(t.get("sp")), holds=frag in s, key="C12/R4 Session::new %s" % what)
    cn = fx.body("netconf::session::Context::new")
    aggs = cn.aggs_of("session::Context")
    ok = False
    if len(aggs) == 1:
        rv = aggs[0][2]["rv"]
        args = []
        for f in rv["fields"]:
            o = cn.backward_origins(F.op_base(f), through_call=lambda c: False)
            a = [x["l"] for x in o if x["k"] == "arg"]
            args.append(a[0] if len(a) == 1 else None)
        ok = rv["fnames"] == ["session_id", "protocol_version", "client_capabilities", "server_capabilities"] and args == [1, 2, 3, 4]
    chk.instance("C12/R4", "Context::new stores its arguments in the fields of the same name", cn.name, None, holds=ok, key="C12/R4 Context::new fields")
    # OKDOM: Ok(Session) only after hello exchange and negotiation succeeded
    b = fx.user_coroutine("netconf::session::Session::<T>::new")
    send = b.calls_to("ClientMsg::send", user_only=True)
    recv = b.calls_to("ServerMsg::recv", user_only=True)
    hcv = b.calls_to("Capabilities::highest_common_version", user_only=True)
    if len(send) != 1 or len(recv) != 1 or len(hcv) != 1:
        raise F.AnchorLost("Session::new: send/recv/highest_common_version call sites")
    pt = tuple(F.PASS_THROUGH) + ("maybe_done", "poll_fn")
    oks = b.ok_aggs()
    for nm, c in (("hello send", send[0]), ("hello receive", recv[0]), ("version negotiation", hcv[0])):
        e = b.ok_edge_of(c, pass_through=pt)
        ok = e is not None and all(b.edge_dominates(b._switch_block_of(e[0]), e[1], bi) for (bi, si, s2) in oks) and bool(oks)
        chk.instance("C12/R4", "Ok(Session) only through the success edge of the %s" % nm, b.name, c.loc(), holds=ok,
                     key="C12/R4 Session::new Ok-not-okdom-by %s" % nm)
    # accessors report the stored values
    for acc in ("session_id", "protocol_version", "client_capabilities", "server_capabilities"):
        tb = fx.thir_body("netconf::session::Context::" + acc)
        s2 = X.ntext(T.user_body(tb)).strip("{}")
        chk.instance("C12/R4", "Context::%s() returns self.%s" % (acc, acc), tb["def"], loc_of(tb.get("sp")), holds=s2 == "self." + acc,
                     key="C12/R4 Context accessor %s" % acc)


def r5_simultaneous(chk, fx):
    """The hello exchange is *simultaneous* (RFC 6241 §8.1: both peers send their hello on connecting, neither waits for the
    other).  Structural necessary condition: the future that sends the client hello and the future that receives the server
    hello are driven by one and the same suspension point — if the send is awaited to completion before the receive is first
    polled, a peer that writes its own hello first over a transport with a small window deadlocks against us."""
    b = fx.user_coroutine("netconf::session::Session::<T>::new")
    send = b.calls_to("ClientMsg::send", user_only=True)
    recv = b.calls_to("ServerMsg::recv", user_only=True)
    if len(send) != 1 or len(recv) != 1:
        raise F.AnchorLost("Session::new: hello send/recv call sites")
    aps = b.await_points()

    def awaited_at(call):
        taint = b.forward_taint({call.dest["l"]})
        out = set()
        for ap in aps:
            p = ap["poll"]
            if p is not None and F.op_base(p.args[0]) in taint:
                out.add(ap["yield"])
        return out

    a_s, a_r = awaited_at(send[0]), awaited_at(recv[0])
    ok = bool(a_s) and a_s == a_r
    chk.instance("C12/R5", "hello send and hello receive are driven by the same suspension point(s) (send awaited at bb%s, receive at bb%s)" % (
        sorted(a_s), sorted(a_r)), b.name, send[0].loc(), holds=ok, key="C12/R5 Session::new hello-exchange-not-joined",
        detail=None if ok else "the client hello is sent to completion before the server hello is first polled (or vice versa): "
        "with a peer that also writes first over a small transport window both sides block in write")
    # and no suspension point separates the creation of the two futures
    between = [ap["yield"] for ap in aps if (b.dominates(send[0].bb, ap["yield"]) and b.dominates(ap["yield"], recv[0].bb))
               or (b.dominates(recv[0].bb, ap["yield"]) and b.dominates(ap["yield"], send[0].bb))]
    chk.instance("C12/R5", "no await separates creating the send future and the receive future", b.name, recv[0].loc(), holds=not between,
                 key="C12/R5 Session::new await-between-send-and-recv")
