"""C12 — Session establishment negotiates a version both peers can actually speak (structural part)."""
import re
from vlib import facts as F, thir as T, xmlgrammar as X, absint as A
from vlib.report import loc_of

EXPLANATION = (
    "[Method] R2-R4: Decided by abstract interpretation of the THIR of highest_common_version, SessionId::new/from_str, ServerHello::read_xml and Session::new (vlib/absint.py: local functions and closures inlined, Option/Result combinators and `?` interpreted, undecided branches fork the path): the verdict does not depend on how the source spells the logic. "
    "C12/R1: every base version the client advertises (THIR of ClientHello::default's CAPABILITIES) other than :base:1.0 requires that "
    "the framing path depends on the negotiated version — some function of the session/message/transport modules must read "
    "Context::protocol_version or match on Base; otherwise the client advertises a version whose mandatory framing (RFC 6242 §4.1: "
    "chunked framing once both peers advertise :base:1.1) it cannot speak. C12/R2 (TABLE): highest_common_version = "
    "intersection -> keep Capability::Base -> collect into BTreeSet -> last() -> ok_or_else(VersionNegotiation); Base derives Ord "
    "with variants declared in ascending version order. C12/R3: SessionId wraps NonZeroU32 and is built only by SessionId::new "
    "(NonZeroU32::new..ok_or) and FromStr (parse::<NonZeroU32>); the hello reader rejects missing / duplicate session-id or "
    "capabilities. C12/R4 (ORIGIN/OKDOM): Context::new in Session::new receives server_hello.session_id(), the negotiated version, "
    "client_hello.capabilities(), server_hello.capabilities() in that order, and Ok(Session) is reached only through the success "
    "edges of the joined hello exchange and of the negotiation. C12/R5: the future sending the client hello and the future receiving the server hello are polled by one and the same suspension point (joined), so neither order of the simultaneous exchange can block the other. Not decided: 'iff well-formed' in full (C13/C14); try_join!'s polling fairness (trusted)."
)


def run(ctx):
    chk, fx = ctx.chk, ctx.facts
    chk.explanation = EXPLANATION
    chk.assumptions += ["RFC 6242 §4.1: if both peers advertise :base:1.1 chunked framing is mandatory after the hello exchange",
                        "BTreeSet::last() returns the greatest element"]
    r1_advertised(chk, fx)
    r2_highest(chk, fx)
    r3_session_id(chk, fx)
    r4_context(chk, fx)
    r5_simultaneous(chk, fx)
    r6_whole_message(chk, fx)
    r7_hello_text_trimmed(chk, fx)


def r1_advertised(chk, fx):
    t = fx.thir_body("<netconf::message::hello::ClientHello as std::default::Default>::default")
    txt = X.ntext(T.user_body(t))
    consts = [n for n in fx.thir if n.startswith(t["def"] + "::") and "closure" not in n]
    adv = []
    for n in [t["def"]] + consts:
        for a in T.find(T.norm(fx.thir[n]["body"]), "Adt"):
            if a["adt"].endswith("capabilities::Base"):
                adv.append(a["variant"])
    if not adv:
        raise F.AnchorLost("ClientHello::default: advertised base versions not found")
    chk.extra["advertised_base_versions"] = adv
    # who consults the negotiated version?
    readers = []
    for name, b in fx.mir.items():
        if b.crate != "netconf" or name.startswith("netconf::session::Context::protocol_version"):
            continue
        for c in b.calls():
            if c.is_fn("Context::protocol_version"):
                readers.append(name)
        for bl in b.blocks:
            for s in bl["stmts"]:
                if s["k"] == "assign" and s["rv"]["k"] == "discr" and s["rv"].get("enum") == "netconf::capabilities::Base" \
                        and not name.startswith(("netconf::capabilities::", "<netconf::capabilities::")):
                    readers.append(name)
                if s["k"] == "assign":
                    for pl in ([s["rv"]["pl"]] if s["rv"]["k"] in ("ref", "discr") else []) + [o["pl"] for o in b.rv_operands(s["rv"])[0] if o.get("c") in ("copy", "move")]:
                        if ".protocol_version" in (pl.get("p") or []) and not name.startswith(("netconf::session::Context::", "<netconf::session::Context as")):
                            readers.append(name)
    chk.extra["negotiated_version_readers"] = sorted(set(readers))
    for v in adv:
        if v == "V1_0":
            chk.instance("C12/R1", "client advertises :base:1.0 (end-of-message framing, implemented)", t["def"], loc_of(t.get("sp")), holds=True)
        else:
            chk.instance("C12/R1", "client advertises %s: the framing path must depend on the negotiated version" % v, t["def"],
                         loc_of(t.get("sp")), holds=bool(readers), key="C12/R1 advertises %s without version-dependent framing" % v,
                         detail="nothing reads Context::protocol_version / matches on Base outside capabilities.rs: against a server that also advertises this version the session is 'established' but neither side can parse the other's messages")
    chk.instance("C12/R1", ":base:1.0 is advertised (a common version exists with every conforming server)", t["def"], loc_of(t.get("sp")),
                 holds="V1_0" in adv, key="C12/R1 base-1.0-not-advertised")
    # the only framing implemented: MARKER-based


AGGREGATORS = {
    # canonical texts (first-argument chains) that yield the greatest element of an iterator of Base values
    ("BTreeSet::last", "Iterator::collect"): "collect into an ordered set, take last()",
    ("Iterator::max",): "Iterator::max",
    ("Iterator::last", "Iterator::sorted"): "sort, take last",
}


def r2_highest(chk, fx):
    """highest_common_version by abstract interpretation: Some(v) => Ok(v) with v = the maximum (derived Ord) of the Base values in the
    intersection of both capability sets; nothing in common => Err(VersionNegotiation)."""
    name = "netconf::capabilities::Capabilities::highest_common_version"
    if name not in fx.thir:
        raise F.AnchorLost(name)
    t = fx.thir[name]
    chk.analysed(name)
    it = A.Interp(fx, crates=("netconf",))
    it.model_iterators = False
    paths = it.explore(name)
    oks = [p for p in paths if A.is_res(p.ret) and p.ret[2] == "Ok"]
    errs = [p for p in paths if A.is_res(p.ret) and p.ret[2] == "Err"]
    good, detail = bool(oks) and bool(errs) and len(oks) + len(errs) == len(paths), None
    filt_ok = True
    for p in oks:
        v = A.payload0(p.ret)
        ch, root = call_chain(v)
        agg = None
        for k in AGGREGATORS:
            if tuple(ch[:len(k)]) == k:
                agg = k
        rest = ch[len(agg):] if agg else ch
        inter = [x for x in A.walk_value(v) if x[0] == "term" and T.short(x[1], 2) == "HashSet::intersection"]
        roots = sorted(A.vstr(a) for x in inter for a in x[2])
        both = len(inter) == 1 and any("self" in r for r in roots) and any("other" in r for r in roots) and all(r.endswith(".inner") for r in roots)
        if agg is None or rest[:2] != ["Iterator::filter_map", "HashSet::intersection"] or not both:
            good, detail = False, " <- ".join(ch) + " over " + ",".join(roots)
        # the filter keeps exactly the Base entries, as their version
        fm = [x for x in A.walk_value(v) if x[0] == "term" and T.short(x[1], 2) == "Iterator::filter_map"]
        for x in fm:
            clo = x[2][1]
            sub = A.Interp(fx, crates=("netconf",))
            sub.trace, sub.assume, sub._script, sub._pos, sub._taken, sub._alts, sub._sym, sub._occ = [], {}, [], 0, [], [], 0, {}
            CAP = "netconf::capabilities::Capability"
            r1 = sub.apply(clo, [("adt", CAP, "Base", (("0", ("sym", "V")),))], {"sp": None}, 0)
            r2 = sub.apply(clo, [("adt", CAP, "Candidate", ())], {"sp": None}, 0)
            if not (r1 == A.some(("sym", "V")) and r2 == A.NONE and not sub._alts):
                filt_ok = False
    chk.instance("C12/R2", "highest_common_version = greatest Base of (client ∩ server), by %s" % sorted(AGGREGATORS.values()), name, loc_of(t.get("sp")),
                 holds=good, key="C12/R2 highest_common_version chain", detail=detail)
    chk.instance("C12/R2", "the common versions are ordered by Base's derived Ord (collected into a BTreeSet / max())", name, loc_of(t.get("sp")), holds=good,
                 key="C12/R2 highest_common_version collection-type")
    chk.instance("C12/R2", "only Capability::Base(v) entries are kept, as v", name, None, holds=filt_ok and bool(oks), key="C12/R2 filter-closure")
    chk.instance("C12/R2", "no common version => Error::VersionNegotiation", name, None,
                 holds=bool(errs) and all("VersionNegotiation" in A.vstr(p.ret) for p in errs), key="C12/R2 no-common-version-error")
    # Base: derived Ord, ascending declaration order
    base = [i for i in fx.item_list if i["kind"] == "Enum" and i["def"] == "netconf::capabilities::Base"]
    if not base:
        raise F.AnchorLost("enum Base")
    order = [v["name"] for v in base[0]["variants"]]
    chk.instance("C12/R2", "Base variants are declared in ascending version order %s" % order, base[0]["def"], loc_of(base[0].get("sp")),
                 holds=order == sorted(order, key=lambda v: [int(x) for x in v[1:].split("_")]), key="C12/R2 Base variant-order")
    ords = [i for i in fx.item_list if i["kind"] == "Impl" and i.get("self_adt") == "netconf::capabilities::Base" and i.get("trait") in ("std::cmp::Ord", "std::cmp::PartialOrd")]
    chk.instance("C12/R2", "Base's Ord / PartialOrd are derived (declaration order)", base[0]["def"], None,
                 holds=len(ords) == 2 and all(i.get("derived") for i in ords), key="C12/R2 Base ord-derived")


def r3_session_id(chk, fx):
    sid = [i for i in fx.item_list if i["kind"] == "Struct" and i["def"] == "netconf::session::SessionId"]
    if not sid:
        raise F.AnchorLost("SessionId")
    f = sid[0]["variants"][0]["fields"]
    chk.instance("C12/R3", "SessionId wraps NonZeroU32 (private field)", sid[0]["def"], loc_of(sid[0].get("sp")),
                 holds=len(f) == 1 and "NonZero<u32>" in f[0]["ty"] and "Restricted" in f[0]["vis"], key="C12/R3 SessionId representation")
    n = 0
    for name, b in fx.mir.items():
        if b.crate != "netconf":
            continue
        for (bi, si, s) in b.aggs_of("session::SessionId"):
            n += 1
            ok = name.startswith("netconf::session::SessionId::new") or name.startswith("<netconf::session::SessionId as std::str::FromStr>::from_str") \
                or "as std::clone::Clone>::clone" in name
            chk.instance("C12/R3", "SessionId constructed only by new / from_str", name, loc_of(s.get("sp")), holds=ok,
                         key="C12/R3 SessionId built-in %s" % T.strip_generics(name))
    # SessionId::new / from_str by abstract interpretation
    nw = "netconf::session::SessionId::new"
    paths = [p for p in A.Interp(fx, crates=("netconf",)).explore(nw) if p.end != "abort"]
    # whatever the parameter is called and however the conversion is spelled (NonZeroU32::new(n).ok_or(..), NonZeroU32::try_from(n),
    # a match): Ok carries the payload of a successful NonZero conversion of the parameter, everything else is Err(InvalidSessionId)
    oks = [p for p in paths if A.is_res(p.ret) and p.ret[2] == "Ok"]
    errs = [p for p in paths if A.is_res(p.ret) and p.ret[2] == "Err"]
    ok = bool(oks) and bool(errs) and len(oks) + len(errs) == len(paths)
    for p in oks:
        v = A.vstr(p.ret)
        conv = [k for k, w in p.assume.items() if k.startswith(("variant:NonZero::new(«param:", "variant:TryFrom::try_from(«param:", "variant:TryInto::try_into(«param:"))
                and w in ("Some", "Ok")]
        ok = ok and v.startswith("Ok(SessionId(") and len(conv) == 1 and (conv[0][8:] + "→" + p.assume[conv[0]] + ".0") in v
    for p in errs:
        ok = ok and "InvalidSessionId" in A.vstr(p.ret)
    chk.instance("C12/R3", "SessionId::new(n): NonZeroU32::new(n) = Some(x) => Ok(SessionId(x)); None (n = 0) => Err(InvalidSessionId)", nw, None, holds=ok,
                 key="C12/R3 SessionId::new form", detail="; ".join(A.vstr(p.ret)[:80] for p in paths))
    fs = "<netconf::session::SessionId as std::str::FromStr>::from_str"
    paths = A.Interp(fx, crates=("netconf",)).explore(fs)
    ok = len(paths) == 2
    for p in paths:
        z = [k for k, v in p.assume.items() if k.startswith("variant:str::parse(«param:s»)")]
        if len(z) != 1:
            ok = False
            continue
        if p.assume[z[0]] == "Ok":
            ok = ok and A.vstr(p.ret) == "Ok(SessionId(str::parse(«param:s»)→Ok.0))"
        else:
            ok = ok and A.is_res(p.ret) and p.ret[2] == "Err" and "SessionIdParse" in A.vstr(p.ret)
    chk.instance("C12/R3", "SessionId::from_str parses the whole text as NonZeroU32 and maps the error", fs, None, holds=ok,
                 key="C12/R3 SessionId::from_str form", detail="; ".join(A.vstr(p.ret)[:80] for p in paths))
    # hello reader: duplicates / unknown content / missing elements are errors — over the explored paths of the reader
    rn = "<netconf::message::hello::ServerHello as netconf::message::ReadXml>::read_xml"
    t = fx.thir_body(rn)
    chk.analysed(rn)
    paths = A.Interp(fx, crates=("netconf",), max_paths=6000, no_inline=("Capabilities as netconf::message::ReadXml>::read_xml",)).explore(rn)
    chk.floor("C12/R3 ServerHello reader paths", len(paths), 8)
    from .c16 import holds_true, ret_is_err
    # the slots of the reader: the loop-carried variables an element iteration assigns (capabilities, session_id — whatever they are called)
    slots = sorted({a[1] for p in paths if p.end == "iter-end" for a in p.assigns()})
    chk.floor("C12/R3 ServerHello slots", len(slots), 2)
    for var in slots:
        el = var.replace("_", "-")
        # a second <el> is an error: the arm that fills the slot runs only while the slot is empty (whatever the order of the guard's
        # conjuncts), and no other arm accepts an element silently (below) — so the repeat falls through to the arm that fails
        fills = [p for p in paths if any(a[1] == var for a in p.assigns())]
        guarded = [p for p in fills if p.assume.get("variant:«loop:%s»" % var) == "None" or "Some" in (p.assume.get("notvariant:«loop:%s»" % var) or ())]
        chk.instance("C12/R3", "a second <%s> is an error: the slot is filled only while it is empty (%d filling paths)" % (el, len(fills)), rn, loc_of(t.get("sp")),
                     holds=bool(fills) and len(guarded) == len(fills), key="C12/R3 ServerHello duplicate-%s" % el)
        # .. and the once-only guard is only as good as what the arm leaves behind: an accepted element fills its slot with Some(..) on
        # every path that goes on reading (a slot left empty — `slot = parse_optional(..)?` — lets the next such element in as "the first")
        took = [p for p in fills if p.end == "iter-end"]
        loose = [A.vstr(a[2])[:80] for p in took for a in p.assigns() if a[1] == var and not (A.is_opt(a[2]) and a[2][2] == "Some")]
        chk.instance("C12/R3", "an accepted <%s> fills its slot (%d paths)" % (el, len(took)), rn, loc_of(t.get("sp")), holds=bool(took) and not loose,
                     key="C12/R3 ServerHello accepted-%s-may-leave-slot-empty" % el,
                     detail=None if not loose else "the slot is given %s: when that is None the once-only guard does not see the element, and a second one is accepted" % loose[0])
    ev = [p for p in paths if p.calls("read_resolved_event")]
    quiet = [p for p in ev if p.end == "iter-end" and not p.assigns()]
    bad = [p for p in quiet if not any(v == "Comment" for k, v in p.assume.items() if k.startswith("variant:"))]
    chk.instance("C12/R3", "<hello>: a repeated or unknown element is an error — only comments are skipped (%d skipping paths)" % len(quiet), rn, loc_of(t.get("sp")),
                 holds=bool(quiet) and not bad, key="C12/R3 <hello::ServerHello>::read_xml lenient-arm",
                 detail=None if not bad else "an iteration of the reader loop accepts content without naming it: a second <session-id>/<capabilities> is swallowed there")
    # paths that end the function (after the loop, or out of it: `break Ok(Self{..})` in the arm of the closing tag)
    post = [p for p in paths if p.end in ("return", "fallthrough")]
    for var in slots:
        el = var.replace("_", "-")
        miss = [p for p in post if any(k.startswith("variant:«loop:%s" % var) and v == "None" for k, v in p.assume.items())
                or any(k.startswith("notvariant:«loop:%s" % var) for k in p.assume)]
        chk.instance("C12/R3", "missing <%s> is an error" % el, rn, None, holds=bool(miss) and all(ret_is_err(p) for p in miss),
                     key="C12/R3 ServerHello missing-%s" % el)


def call_chain(v):
    from .c16 import call_chain as cc
    return cc(v)


def r4_context(chk, fx):
    """What the session reports is what the hello carried: abstract interpretation of Session::new (helpers inlined)."""
    un = "netconf::session::Session::<T>::new::{closure#0}::{closure#0}"
    t = fx.thir_body(un)
    it = A.Interp(fx, crates=("netconf",), max_paths=2000)
    it.model_iterators = False
    paths = it.explore(un)
    oks = [p for p in paths if A.is_res(p.ret) and p.ret[2] == "Ok"]
    chk.floor("C12/R4 Session::new Ok paths", len(oks), 1)
    good = {"sid": True, "scap": True, "ccap": True, "ver": True, "same": True, "hello": True}
    for p in oks:
        sess = A.payload0(p.ret)
        ctx = A.fields_of(sess).get("context")
        f = A.fields_of(ctx) if ctx is not None else {}
        sid, ver, cc, sc = f.get("session_id"), f.get("protocol_version"), f.get("client_capabilities"), f.get("server_capabilities")
        if None in (sid, ver, cc, sc):
            good = {k: False for k in good}
            continue
        # the server hello: the value both session_id and server capabilities are fields of
        hs = sid[1] if sid[0] == "field" and sid[2] == "session_id" else None
        hc = sc[1] if sc[0] == "field" and sc[2] == "capabilities" else None
        good["sid"] &= hs is not None and "await" in A.vstr(hs)
        good["scap"] &= hc is not None and "await" in A.vstr(hc)
        good["same"] &= hs is not None and hs == hc
        good["ccap"] &= cc[0] == "field" and cc[2] == "capabilities" and "Default::default()" in A.vstr(cc[1])
        inter = [x for x in A.walk_value(ver) if x[0] == "term" and T.short(x[1], 2) == "HashSet::intersection"]
        args = [A.vstr(a) for x in inter for a in x[2]]
        good["ver"] &= len(inter) == 1 and any(a == A.vstr(cc) + ".inner" for a in args) and any(a == A.vstr(sc) + ".inner" for a in args)
        sends = [c for c in p.trace if c[0] in ("call", "enter") and T.short(c[1], 2) == "ClientMsg::send"]
        good["hello"] &= bool(sends) and all("Default::default()" in A.vstr(c[2][0]) for c in sends)
    what = {"sid": ("session-id is the hello's", "Session::new session-id is the hello's"),
            "scap": ("server capabilities are the hello's", "Session::new server capabilities are the hello's"),
            "same": ("session-id and server capabilities come from one and the same received hello", "Session::new hello identity"),
            "ccap": ("client capabilities are those sent", "Session::new client capabilities are those sent"),
            "ver": ("version is negotiated between exactly these two capability sets", "Session::new version is the negotiated one, `?`-checked"),
            "hello": ("the hello sent is the one whose capabilities are reported (ClientHello::default())", "Session::new hello-origin")}
    for k, (txt, key) in what.items():
        chk.instance("C12/R4" if k != "hello" else "C12/R1", "Session::new: %s" % txt, un, loc_of(t.get("sp")), holds=good[k],
                     key=("C12/R4 %s" % key) if k != "hello" else "C12/R1 Session::new hello-origin")
    # a failed negotiation fails session establishment
    neg_fail = [p for p in paths if any(("BTreeSet::last" in k or "Iterator::max" in k) and v == "None" for k, v in p.assume.items())]
    chk.instance("C12/R4", "no common version => Session::new fails (%d paths)" % len(neg_fail), un, None, holds=bool(neg_fail) and all(
        A.is_res(p.ret) and p.ret[2] == "Err" for p in neg_fail), key="C12/R4 Session::new Ok-not-okdom-by version negotiation")
    cn = fx.thir.get("netconf::session::Context::new")
    if cn is not None:
        r = A.Interp(fx, crates=("netconf",)).explore("netconf::session::Context::new", args=[("sym", "A"), ("sym", "B"), ("sym", "C"), ("sym", "D")])
        f = A.fields_of(r[0].ret) if len(r) == 1 else {}
        ok = f == {"session_id": ("sym", "A"), "protocol_version": ("sym", "B"), "client_capabilities": ("sym", "C"), "server_capabilities": ("sym", "D")}
        chk.instance("C12/R4", "Context::new stores its arguments in the fields of the same name", "netconf::session::Context::new", None, holds=ok,
                     key="C12/R4 Context::new fields")
    # Ok(Session) only after both halves of the hello exchange succeeded — on explored paths, whatever joins the two futures:
    # try_join! (its Ok means every future's Ok), join! followed by a look at each component, or two plain awaits
    def hook(fn, args, node, interp):
        s2 = T.short(fn, 2)
        if s2 == "ClientMsg::send":
            return ("term", "async-ready", (("sym", "SENT"),))
        if s2 == "ServerMsg::recv":
            return ("term", "async-ready", (("sym", "RECEIVED"),))
        if s2 in ("poll_fn::poll_fn", "future::poll_fn") or fn.endswith("::poll_fn"):
            interp.trace.append(("joined", ((node.get("sp") or {}).get("m") or "").split("::")[-1]))
        return None
    it2 = A.Interp(fx, hook=hook, crates=("netconf",), max_paths=2000)
    it2.model_iterators = False
    paths2 = [p for p in it2.explore(un) if p.end != "abort"]
    n_ok = 0
    for p in paths2:
        if not (A.is_res(p.ret) and p.ret[2] == "Ok"):
            continue
        n_ok += 1
        # order of the joined futures = order in which they were wrapped for the join
        order = []
        for e in p.trace:
            if e[0] == "call" and T.short(e[1], 2).endswith("maybe_done") and e[2]:
                w = "SENT" if "«SENT»" in A.vstr(e[2][0]) else "RECEIVED" if "«RECEIVED»" in A.vstr(e[2][0]) else "?"
                order.append(w)
        macro = [e[1] for e in p.trace if e[0] == "joined"]
        succeeded = set()
        for k, v in p.assume.items():
            if not k.startswith("variant:") or v != "Ok":
                continue
            key = k[8:]
            if key.endswith("async-ready(«SENT»).await"):
                succeeded.add("SENT")
            elif key.endswith("async-ready(«RECEIVED»).await"):
                succeeded.add("RECEIVED")
            elif "poll_fn" in key and key.endswith(").await") and macro[:1] == ["try_join"]:
                succeeded |= set(order)          # try_join!: Ok((..)) only if every future returned Ok
            elif "poll_fn" in key and macro[:1] == ["join"]:
                m = re.search(r"\)\.await\.(\d+)$", key)
                if m and int(m.group(1)) < len(order):
                    succeeded.add(order[int(m.group(1))])
        for what, nm in (("SENT", "hello send"), ("RECEIVED", "hello receive")):
            chk.instance("C12/R4", "Ok(Session) only on a path on which the %s succeeded" % nm, un, loc_of(t.get("sp")), holds=what in succeeded,
                         key="C12/R4 Session::new Ok-not-okdom-by %s" % nm,
                         detail=None if what in succeeded else "futures joined: %s by %s; succeeded on this path: %s" % (order, macro, sorted(succeeded)))
    chk.floor("C12/R4 Session::new Ok paths (hello exchange)", n_ok, 1)
    # accessors report the stored values
    for acc in ("session_id", "protocol_version", "client_capabilities", "server_capabilities"):
        tb = fx.thir_body("netconf::session::Context::" + acc)
        s2 = X.ntext(T.user_body(tb)).strip("{}")
        chk.instance("C12/R4", "Context::%s() returns self.%s" % (acc, acc), tb["def"], loc_of(tb.get("sp")), holds=s2 == "self." + acc,
                     key="C12/R4 Context accessor %s" % acc)


def r5_simultaneous(chk, fx):
    """The hello exchange is *simultaneous* (RFC 6241 §8.1: both peers send their hello on connecting, neither waits for the
    other).  Structural necessary condition: the future that sends the client hello and the future that receives the server
    hello are driven by one and the same suspension point — if the send is awaited to completion before the receive is first
    polled, a peer that writes its own hello first over a transport with a small window deadlocks against us."""
    b = fx.user_coroutine("netconf::session::Session::<T>::new")
    if not (b.calls_to("ClientMsg::send", user_only=True) and b.calls_to("ServerMsg::recv", user_only=True)):
        # the exchange may live in an async helper Session::new awaits (`exchange_hellos`): the rule reads the body that creates both futures
        for c in b.calls():
            tgt = None if c.macro else (c.rdef if (c.rdef or "").startswith("netconf::session::") else c.defn if (c.defn or "").startswith("netconf::session::") else None)
            if tgt is None or "::{closure" in tgt:
                continue
            try:
                hb = fx.user_coroutine(tgt)
            except F.AnchorLost:
                continue
            if hb.calls_to("ClientMsg::send", user_only=True) and hb.calls_to("ServerMsg::recv", user_only=True):
                b = hb
                break
    chk.analysed(b.name)
    send = b.calls_to("ClientMsg::send", user_only=True)
    recv = b.calls_to("ServerMsg::recv", user_only=True)
    if len(send) != 1 or len(recv) != 1:
        raise F.AnchorLost("Session::new: hello send/recv call sites")
    aps = b.await_points()

    def awaited_at(call):
        taint = b.forward_taint({call.dest["l"]})
        out = set()
        for ap in aps:
            p = ap["poll"]
            if p is not None and F.op_base(p.args[0]) in taint:
                out.add(ap["yield"])
        return out

    a_s, a_r = awaited_at(send[0]), awaited_at(recv[0])
    ok = bool(a_s) and a_s == a_r
    chk.instance("C12/R5", "hello send and hello receive are driven by the same suspension point(s) (send awaited at bb%s, receive at bb%s)" % (
        sorted(a_s), sorted(a_r)), b.name, send[0].loc(), holds=ok, key="C12/R5 Session::new hello-exchange-not-joined",
        detail=None if ok else "the client hello is sent to completion before the server hello is first polled (or vice versa): "
        "with a peer that also writes first over a small transport window both sides block in write")
    # and no suspension point separates the creation of the two futures
    between = [ap["yield"] for ap in aps if (b.dominates(send[0].bb, ap["yield"]) and b.dominates(ap["yield"], recv[0].bb))
               or (b.dominates(recv[0].bb, ap["yield"]) and b.dominates(ap["yield"], send[0].bb))]
    chk.instance("C12/R5", "no await separates creating the send future and the receive future", b.name, recv[0].loc(), holds=not between,
                 key="C12/R5 Session::new await-between-send-and-recv")


# ---------------------------------------------------------------------------------------------
def whole_message_rule(chk, fx, rule, name, label):
    """The message is accepted only when the document-level loop has read it to its end (Eof, or the end-of-message marker as text):
    whatever follows the root element — a second <capabilities>, a stray <session-id>, another message — must reach the arm that
    rejects it.  Decided on every explored path that can return Ok: the last document-level event it assumed."""
    from vlib import absint as A
    t = fx.thir_body(name)
    chk.analysed(name)
    n = 0
    paths_all = A.Interp(fx, crates=("netconf",), max_paths=3000).explore(name)
    for p in paths_all:
        if p.end not in ("return", "fallthrough"):
            continue
        if A.is_res(p.ret) and p.ret[2] == "Err":
            continue
        n += 1
        ev = [v for k, v in p.assume.items() if k.startswith("variant:") and "read_resolved_event" in k and k.endswith("→Ok.0.1") and isinstance(v, str)]
        marker = any(v is True and "MARKER" in k for k, v in p.assume.items())
        ok = bool(ev) and (ev[-1] == "Eof" or (ev[-1] == "Text" and marker))
        chk.instance(rule, "%s: Ok only after the whole message was read (last event: %s)" % (label, (ev or ["none"])[-1]), name,
                     loc_of(t.get("sp")), holds=ok, key="%s %s accepts-without-reading-to-the-end (%s)" % (rule, label, (ev or ["none"])[-1]),
                     detail=None if ok else "content after the root element is never looked at: a message with a trailer is accepted")
    chk.floor("%s Ok paths of %s" % (rule, label), n, 1)
    # .. and the root element is taken once: the iteration that stores the parsed root must have found the slot empty, or a
    # second root in the same message replaces the first (two <hello>s: the session-id reported is the second one's)
    m = 0
    for p in paths_all:
        if p.end != "iter-end":
            continue
        st = [e for e in p.assigns() if any(x[0] == "term" and T.short(x[1], 2) in ("ReadXml::read_xml",) for x in A.walk_value(e[2]))
              or "read_xml(" in A.vstr(e[2])]
        if not st:
            continue
        m += 1
        var = st[0][1]
        empty = p.assume.get("variant:«loop:%s»" % var) == "None" or any(
            v is True and ("is_none(«loop:%s»" % var) in k for k, v in p.assume.items())
        chk.instance(rule, "%s: the parsed root element is stored only into an empty slot (`%s`)" % (label, var), name, loc_of(st[0][3]), holds=empty,
                     key="%s %s root-element-accepted-twice" % (rule, label),
                     detail=None if empty else "a second root element in the same message silently replaces the first")
    if m == 0:
        chk.instance(rule, "%s: the root element is not stored across iterations (it ends the loop), so none can replace another" % label, name, None, holds=True)


def r6_whole_message(chk, fx):
    whole_message_rule(chk, fx, "C12/R6", "netconf::message::ServerMsg::from_xml", "ServerMsg::from_xml")


def r7_hello_text_trimmed(chk, fx):
    """'.. if and only if the server's hello is well-formed ..': a hello whose <capability> URIs or <session-id> are surrounded by
    white space (pretty-printed element content) is well-formed; refusing it is a failed establishment.  Same decision as C13/R5 (text
    obtained with read_text reaches parse / FromStr only through trim), for the readers of the hello."""
    from . import readers as R
    n = 0
    for r in R.text_uses(fx):
        if not any(x in r["fn"] for x in ("::hello::", "::capabilities::")):
            continue
        n += 1
        fn = R.short_fn(r["fn"])
        bad = sorted({s[0] for s in r["untrimmed"]})
        chk.instance("C12/R7", "%s: element text is trimmed before it is parsed" % fn, r["fn"], r["call"].loc(), holds=not bad,
                     key="C12/R7 %s untrimmed-text -> %s" % (fn, ",".join(bad)),
                     detail=None if not bad else "a hello with white space around the value is refused although it is well-formed")
    chk.floor("C12/R7 text reads in the hello readers", n, 2)
