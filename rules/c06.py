"""C06 — Message boundaries do not depend on how the byte stream is segmented.

ORIGIN (symbolic evaluation of the search window / split position), MUSTPASS (re-search before waiting),
persistence of buffers, sender delimiter placement.  Decides the framing loops' dataflow facts on every path;
does not decide concrete chunkings or the TLS/SSH record layers.
"""
import os
from vlib import facts as F, thir as T
from vlib.report import loc_of
from . import transport_common as TC

EXPLANATION = (
    "C06/R1 (ORIGIN): for the TLS and local-CLI receivers the start X of the slice `&buf[X..]` handed to Finder::find is, at "
    "every definition, 0 or buf.len() minus at least MARKER.len()-1 (symbolically evaluated), so a delimiter cut by a read "
    "boundary stays inside the search window; for the SSH pump the whole buffer is searched. C06/R2: the split_to argument is "
    "X + index + MARKER.len() with the same X and the find result. C06/R3 (MUSTPASS): every path from entry / from a split_to "
    "to the next input wait passes a find on the receive buffer (the pump re-searches until no marker is left). C06/R4: read "
    "buffers are rooted in the handle / outside the pump loop, so bytes after a delimiter survive to the next call. C06/R5: "
    "to_xml appends MARKER exactly once after the document on every path to Ok, send() sends exactly to_xml()'s bytes, and no "
    "ClientMsg impl overrides either. MARKER is the 6-byte ']]>]]>'."
)


def run(ctx):
    chk, fx = ctx.chk, ctx.facts
    chk.explanation = EXPLANATION
    chk.assumptions += [
        "memchr::memmem::Finder::find returns the first occurrence in the haystack",
        "BytesMut::split_to(n) removes exactly the first n bytes and keeps the rest",
        "TLS record / SSH packet layers deliver the byte stream unchanged and in order",
    ]
    mlen, mbytes = TC.marker_len(fx)
    chk.instance("C06/R2", "MARKER is the 6-byte end-of-message delimiter ']]>]]>'", TC.MARKER_CONST, None,
                 holds=(mbytes == "]]>]]>" and mlen == 6), key="C06/R2 MARKER-value")
    recv = TC.stream_receivers(fx)
    for kind, b in sorted(recv.items()):
        stream_receiver_paths(chk, fx, kind, b, mlen)
    pump_paths(chk, fx, TC.ssh_pump(fx), mlen)
    sender(chk, fx)


REVERSE = ("memmem::FinderRev::<'n>::rfind", "memmem::rfind", "memmem::rfind_iter", "memmem::FinderRev::<'n>::rfind_iter", "str::<impl str>::rfind",
           "Iterator::rposition", "memchr::memrchr", "slice::<impl [T]>::rsplit", "slice::<impl [T]>::rsplitn", "str::<impl str>::rsplit_once")


def _last_occurrence_search(chk, fx, fn, b):
    """A message ends at the *first* delimiter in the buffer.  A receiver that looks for the last one (reverse search) hands several buffered messages on as one, or misses a delimiter followed by the next message's bytes."""
    bodies = [b]
    for c in b.calls():
        hb = None if c.macro else (fx.mir.get(c.rdef) or fx.mir.get(c.defn))
        if hb is not None and hb.crate == "netconf" and hb is not b and "::transport::" in hb.name:
            bodies.append(hb)
    rev = [(x, c) for x in bodies for c in x.calls_to(*REVERSE, user_only=True)]
    for (x, c) in rev:
        chk.instance("C06/R2", "%s: the message boundary is the first delimiter in the buffer" % fn, x.name, c.loc(), holds=False,
                     key="C06/R2 %s last-occurrence-search" % fn,
                     detail="%s looks for the last occurrence: with two messages buffered the split is after the second one" % c.name())
    return bool(rev)


def render(e):
    if not isinstance(e, tuple):
        return str(e)
    k = e[0]
    if k == "const":
        return str(e[1])
    if k == "buflen":
        return "buf.len()"
    if k == "index":
        return "index"
    if k == "marker":
        return "MARKER"
    if k == "var":
        return "_%d" % e[1]
    if k in ("add", "sub", "satsub"):
        op = {"add": "+", "sub": "-", "satsub": "-sat"}[k]
        return "(%s %s %s)" % (render(e[1]), op, render(e[2]))
    return k


def pump_paths(chk, fx, b, mlen):
    """The SSH pump decided on its explored paths (helpers — sync or async — inlined, every loop one iteration with its carried
    variables symbolic).  R1: each search looks at the whole input buffer.  R2: the split position is index + MARKER.len().
    R3: appended data is searched before the pump waits again; after a message was split off the buffer is searched again before the
    pump waits (the loop the split sits in starts with the search); each split message is sent to the receiver.  R4: data is appended
    to, searched in and split off one buffer that is not created inside the pump loop."""
    from vlib import absint as A
    _FX[0] = fx
    fn = "transport::ssh pump"
    chk.analysed(b.name)
    if _last_occurrence_search(chk, fx, fn, b):
        return
    n = [0]

    def hook(f, args, node, interp):
        s2 = T.short(f, 2)
        if s2 in ("Finder::find", "memmem::find", "FinderRev::rfind") and len(args) >= 2:
            n[0] += 1
            interp.trace.append(("find", args[1], n[0], node.get("sp")))
            return ("sym", "FOUND%d" % n[0])
        if s2 == "BytesMut::split_to" and len(args) == 2:
            interp.trace.append(("split", args[0], args[1], node.get("sp")))
            return ("sym", "MESSAGE")
        if s2 in ("BytesMut::extend_from_slice", "BufMut::put_slice", "BufMut::put", "Extend::extend") and args:
            interp.trace.append(("extend", args[0], node.get("sp")))
            return ("unit",)
        if s2 == "Sender::send" and "mpsc" in f and len(args) == 2:
            interp.trace.append(("send", args[1], node.get("sp")))
            return ("term", "async-ready", (("sym", "SENT"),))
        if s2 == "Channel::wait":
            interp.trace.append(("wait", node.get("sp")))
            return ("term", "async-ready", (("sym", "WAIT"),))
        if s2 in ("BytesMut::new", "BytesMut::with_capacity"):
            interp.trace.append(("newbuf", node.get("sp")))
        if s2 in DISCARDING and args:
            interp.trace.append(("discard", args[0], s2, node.get("sp")))
        return None
    paths = [p for p in A.Interp(fx, hook=hook, crates=("netconf",), max_paths=6000, havoc_loops=True).explore(b.name) if p.end != "abort"]
    EV = ("find", "split", "extend", "send", "wait", "loop-enter", "iter-end", "loop-exit", "discard")
    finds = [(p, e) for p in paths for e in p.trace if e[0] == "find"]
    splits = [(p, e) for p in paths for e in p.trace if e[0] == "split"]
    exts = [(p, e) for p in paths for e in p.trace if e[0] == "extend"]
    waits = [(p, e) for p in paths for e in p.trace if e[0] == "wait"]
    chk.floor("C06 ssh pump find/split/wait/extend sites (explored paths)", min(len(finds), len(splits), len(waits), len(exts)), 1)
    chk.call_sites += len(finds) + len(splits) + len(exts)

    def window(h):
        if h[0] == "term" and T.short(h[1], 2) in ("Index::index",) and len(h[2]) == 2:
            r = h[2][1]
            if r[0] == "adt" and r[2] in ("RangeFrom",):
                return dict(r[3]).get("start")
            if r[0] == "adt" and r[2] in ("RangeFull",):
                return A.lit(0)
            return None
        if h[0] == "term" and h[2] and T.short(h[1], 2) in ("Deref::deref", "AsRef::as_ref", "Borrow::borrow"):
            return window(h[2][0])
        return A.lit(0)

    def sp_key(sp):
        return ((sp or {}).get("f"), (sp or {}).get("l"), (sp or {}).get("c"))
    # which loops start with a search: over all paths, the first of find / wait / extend after entering the loop is a find
    first_in_loop = {}
    for p in paths:
        ev = [e for e in p.trace if e[0] in EV]
        for i, e in enumerate(ev):
            if e[0] != "loop-enter":
                continue
            nxt = [x[0] for x in ev[i + 1:] if x[0] in ("find", "wait", "extend")][:1]
            if nxt:
                first_in_loop.setdefault(sp_key(e[1]), set()).add(nxt[0])

    def researched(p, e):
        """Walking on from event e: is the buffer searched before the pump waits for more input?"""
        ev = [x for x in p.trace if x[0] in EV]
        for x in ev[ev.index(e) + 1:]:
            if x[0] == "find":
                return True
            if x[0] == "wait":
                return False
            if x[0] == "iter-end":
                return first_in_loop.get(sp_key(x[2])) == {"find"}
        return p.end in ("return", "fallthrough")      # the pump ends (error exit)
    seen = set()
    for (p, e) in finds:
        st = window(e[1])
        w = _win(st, mlen) if st is not None else None
        k = sp_key(e[3])
        if k in seen:
            continue
        seen.add(k)
        chk.instance("C06/R1", "ssh pump: the whole input buffer is searched (explored paths)", b.name, loc_of(e[3]), holds=w == ("const", 0),
                     key="C06/R1 %s partial-search" % fn, detail=None if w == ("const", 0) else A.vstr(e[1])[:80])
    for (p, e) in splits:
        prior = [x for x in p.trace[:p.trace.index(e)] if x[0] == "find"]
        ok, detail = False, "no search before the split"
        if prior:
            f = prior[-1]
            want = {"«FOUND%d»→Some.0" % f[2]: 1, "": mlen}
            got = _lin(e[2], mlen)
            ok = got == want and _win(window(f[1]) or ("?",), mlen) == ("const", 0)
            detail = "split at %s" % A.vstr(e[2])[:80]
        chk.instance("C06/R2", "ssh pump: split position = index + MARKER.len() (explored paths)", b.name, loc_of(e[3]), holds=ok, key="C06/R2 %s split-position" % fn,
                     detail=detail)
        good = researched(p, e)
        chk.instance("C06/R3", "ssh pump: after splitting off a message the buffer is searched again before waiting for more input (explored paths)",
                     b.name, loc_of(e[3]), holds=good, key="C06/R3 %s wait-without-research" % fn,
                     detail=None if good else "a second message that arrived in the same packet would stay buffered until further traffic")
        ev = [x for x in p.trace if x[0] in EV]
        after = ev[ev.index(e) + 1:]
        upto = next((i for i, x in enumerate(after) if x[0] in ("iter-end", "find", "wait")), len(after))
        fwd = [x for x in after[:upto] if x[0] == "send" and A.mentions(x[1], lambda y: y == ("sym", "MESSAGE"))]
        chk.instance("C06/R3", "ssh pump: each split message is enqueued for the receiver (explored paths)", b.name, loc_of(e[3]), holds=bool(fwd),
                     key="C06/R3 %s message-not-forwarded" % fn)
    for (p, e) in exts:
        good = researched(p, e)
        chk.instance("C06/R3", "ssh pump: appended data is searched before waiting again (explored paths)", b.name, loc_of(e[2]), holds=good,
                     key="C06/R3 %s data-not-searched" % fn)
    roots = {_buffer_root(e[1])[0] for (_, e) in exts + splits + finds}
    chk.instance("C06/R4", "ssh pump: data is appended to, searched in and split off one buffer (%s)" % sorted(roots), b.name, None, holds=len(roots) == 1,
                 key="C06/R4 %s several-buffers" % fn)
    seen_fns = set()
    for p in paths:
        for e in p.trace:
            if e[0] != "call" or not any(_mentions_root(a, roots) for a in e[2]):
                continue
            f = T.short(T.strip_generics(e[1]), 2)
            if f in BUFFER_OK or f.startswith("num::") or f in seen_fns:
                continue
            seen_fns.add(f)
            chk.instance("C06/R6", "ssh pump: the input buffer is only appended to, searched for the delimiter and split (%s looks at its content)" % f, b.name,
                         loc_of(e[3]), holds=False, key="C06/R6 %s inspects-buffer-content %s" % (fn, f),
                         detail="its outcome depends on where the transport cut the stream into packets")
    fresh = []
    for p in paths:
        depth = 0
        for e in p.trace:
            if e[0] == "loop-enter":
                depth += 1
            elif e[0] == "newbuf" and depth > 0:
                fresh.append(e)
    chk.instance("C06/R4", "ssh pump: the input buffer is created outside the pump loop (explored paths)", b.name, loc_of(fresh[0][1]) if fresh else None, holds=not fresh,
                 key="C06/R4 %s buffer-recreated-in-loop" % fn)
    if not any(e[0] == "newbuf" for p in paths for e in p.trace):
        raise F.AnchorLost("ssh pump: creation of the input buffer not found")
    discards = [(p, e) for p in paths for e in p.trace if e[0] == "discard" and _buffer_root(e[1])[0] in roots]
    for (p, e) in discards[:3]:
        chk.instance("C06/R4", "ssh pump: the input buffer is shortened only by split_to(end of message)", b.name, loc_of(e[3]), holds=False,
                     key="C06/R4 %s buffer-discarded-by %s" % (fn, e[2]), detail="bytes after the delimiter (the next message, or its head) are lost")


def sender(chk, fx):
    b = fx.body("netconf::message::ClientMsg::to_xml")
    chk.analysed(b.name)
    exts = [c for c in b.calls_to("Vec::<T, A>::extend_from_slice", user_only=True)]
    mk = []
    for c in exts:
        o = b.backward_origins(F.op_base(c.args[1]))
        if TC.mentions_marker(o):
            mk.append(c)
    chk.instance("C06/R5", "to_xml appends MARKER exactly once", b.name, mk[0].loc() if mk else None, holds=len(mk) == 1,
                 key="C06/R5 to_xml marker-count %d" % len(mk))
    if len(mk) == 1:
        m = mk[0]
        loops = [b.natural_loop(h) for h in b.loop_heads()]
        chk.instance("C06/R5", "MARKER append is not inside a loop", b.name, m.loc(), holds=not any(m.bb in lp for lp in loops),
                     key="C06/R5 to_xml marker-in-loop")
        w = b.calls_to("WriteXml::write_xml", user_only=True)
        if not w:
            raise F.AnchorLost("to_xml does not call write_xml")
        ok = b.ok_dominates(w[0], m.bb)
        chk.instance("C06/R5", "MARKER is appended after the document was written successfully", b.name, m.loc(), holds=ok,
                     key="C06/R5 to_xml marker-before-document")
        for (bi, si, s) in b.ok_aggs():
            chk.instance("C06/R5", "Ok(..) of to_xml is dominated by the MARKER append", b.name, loc_of(s.get("sp")),
                         holds=b.dominates(m.bb, bi), key="C06/R5 to_xml Ok-without-marker")
        # nothing else is written to the buffer after the marker
        after = b.reachable_from_succs(m.bb)
        late = [c for c in b.calls() if c.bb in after and not c.macro and c.is_fn("extend_from_slice", "Vec::<T, A>::push", "Write::write_all", "WriteXml::write_xml")]
        chk.instance("C06/R5", "nothing is written after the MARKER", b.name, m.loc(), holds=not late,
                     key="C06/R5 to_xml write-after-marker")
    # send() sends exactly to_xml()'s bytes
    sb = fx.user_coroutine("netconf::message::ClientMsg::send")
    chk.analysed(sb.name)
    tx = sb.calls_to("ClientMsg::to_xml", user_only=True)
    sd = sb.calls_to("SendHandle::send", user_only=True)
    if len(tx) != 1 or len(sd) != 1:
        raise F.AnchorLost("ClientMsg::send: expected one to_xml and one send call")
    t = sb.forward_taint([tx[0].dest["l"]], through_call=lambda c: c.is_fn("Try::branch", "Into::into", "From::from"))
    ok = F.op_base(sd[0].args[1]) in t and sb.ok_dominates(tx[0], sd[0].bb)
    chk.instance("C06/R5", "send() transmits exactly the bytes produced by to_xml()", sb.name, sd[0].loc(), holds=ok,
                 key="C06/R5 send payload-origin")
    # no impl overrides the provided methods
    n = 0
    for it in fx.item_list:
        if it["kind"] == "Impl" and it.get("trait") == "netconf::message::ClientMsg":
            n += 1
            over = [a for a in it.get("assoc", []) if a.endswith("::to_xml") or a.endswith("::send")]
            chk.instance("C06/R5", "impl ClientMsg for %s does not override to_xml/send" % it["self"], it["qdef"],
                         loc_of(it.get("sp")), holds=not over, key="C06/R5 ClientMsg-override %s" % T.strip_generics(it["self"]))
    chk.floor("C06/R5 ClientMsg impls", n, 2)


# ---------------------------------------------------------------------------------------------
# stream receivers (TLS, local CLI) decided on explored paths: one loop iteration per path, the offset that is carried round the loop
# abstract, helpers and closures run inline.  What a path did is read off its trace: which haystack was searched, where the buffer
# was split, what the offset was set to, and in which order relative to the read.
# ---------------------------------------------------------------------------------------------
_FX = [None]
DISCARDING = ("BytesMut::clear", "BytesMut::truncate", "BytesMut::split", "BytesMut::split_off", "Buf::advance", "BytesMut::advance", "BytesMut::resize",
              "Vec::clear", "Vec::truncate", "Vec::drain", "BytesMut::set_len")


def _lin(v, mlen):
    """Linear form of an offset expression: {term text: coefficient}, constants under ''.  MARKER.len() is the constant mlen; a named
    constant stands for its initialiser."""
    from vlib import absint as A
    out = {}

    def add(k, n):
        out[k] = out.get(k, 0) + n
        if out[k] == 0:
            del out[k]

    def go(x, sign):
        if x[0] == "bin" and x[1] in ("Add", "Sub"):
            go(x[2], sign)
            go(x[3], sign if x[1] == "Add" else -sign)
        elif x[0] == "term" and T.short(x[1], 2) in ("Add::add", "Sub::sub") and len(x[2]) == 2:
            go(x[2][0], sign)
            go(x[2][1], sign if T.short(x[1], 2) == "Add::add" else -sign)
        elif x[0] == "lit" and isinstance(x[1], int):
            add("", sign * x[1])
        elif x[0] == "const" and len(x) == 2 and _FX[0] is not None and x[1] in _FX[0].thir and "MARKER" != x[1].rsplit("::", 1)[-1]:
            ps = [p for p in A.Interp(_FX[0], crates=("netconf",)).explore(x[1]) if p.ret is not None]
            if len(ps) == 1:
                go(ps[0].ret, sign)
            else:
                add(A.vstr(x), sign)
        elif A.vstr(x) in ("slice::len(message::MARKER)", "slice::len(MARKER)") or (x[0] == "term" and T.short(x[1], 2) == "slice::len" and "MARKER" in A.vstr(x)):
            add("", sign * mlen)
        else:
            add(A.vstr(x), sign)
    go(v, 1)
    return out


def _buffer_root(v):
    """(root text, is-a-field-of-the-handle) of a buffer expression, through index / deref / as_ref wrappers."""
    from vlib import absint as A
    for _ in range(8):
        if v[0] == "term" and v[2] and T.short(v[1], 2) in ("Index::index", "Deref::deref", "AsRef::as_ref", "DerefMut::deref_mut", "Borrow::borrow", "BytesMut::as_ref",
                                                            "IndexMut::index_mut"):
            v = v[2][0]
        else:
            break
    txt = A.vstr(v)
    return txt, (v[0] == "field" and "self" in A.vstr(v[1]))


BUFFER_OK = {"BytesMut::len", "BytesMut::freeze", "BytesMut::split_to", "Index::index", "Deref::deref", "AsRef::as_ref", "Borrow::borrow", "BytesMut::reserve",
             "BytesMut::capacity", "BytesMut::is_empty", "BytesMut::extend_from_slice", "AsyncReadExt::read_buf", "AsyncReadExt::read", "Finder::find", "memmem::find",
             "DerefMut::deref_mut", "IndexMut::index_mut", "slice::len", "BufMut::remaining_mut", "Bytes::len"}


def _mentions_root(v, roots):
    from vlib import absint as A
    return any(A.vstr(x) in roots for x in A.walk_value(v))


def _win(v, mlen):
    """Normal form of a window-start expression over naturals: ("const", n) | ("var", X, k) = X ∸ k for a loop-carried X |
    ("len", buffer root, k) = buffer.len() ∸ k | None.  (a ∸ j) ∸ k = a ∸ (j + k) holds for saturating subtraction."""
    from vlib import absint as A
    if v == A.lit(0) or (v[0] == "lit" and isinstance(v[1], int)):
        return ("const", v[1])
    if v[0] == "sym" and v[1].startswith("loop:"):
        return ("var", v[1][5:], 0)
    if v[0] == "term" and T.short(v[1], 2) in ("BytesMut::len", "Vec::len", "slice::len") and v[2] and "MARKER" not in A.vstr(v):
        return ("len", _buffer_root(v[2][0])[0], 0)
    if v[0] == "term" and T.short(v[1], 2) in ("num::saturating_sub", "usize::saturating_sub") and len(v[2]) == 2:
        kk = _lin(v[2][1], mlen)
        if not set(kk) <= {""} or kk.get("", 0) < 0:
            return None
        k = kk.get("", 0)
        a = _win(v[2][0], mlen)
        if a is None:
            return None
        if a[0] == "const":
            return ("const", max(a[1] - k, 0))
        return (a[0], a[1], a[2] + k)
    return None


def stream_receiver_paths(chk, fx, kind, b, mlen):
    from vlib import absint as A
    _FX[0] = fx
    chk.analysed(b.name)
    fn = "transport::%s::Receiver::recv" % kind
    if _last_occurrence_search(chk, fx, fn, b):
        return

    def explore(havoc):
        n = [0]

        def hook(f, args, node, interp):
            s2 = T.short(f, 2)
            if s2 in ("Finder::find", "memmem::find", "FinderRev::rfind") and len(args) >= 2:
                n[0] += 1
                interp.trace.append(("find", args[1], n[0], node.get("sp")))
                return ("sym", "FOUND%d" % n[0])
            if s2 == "BytesMut::split_to" and len(args) == 2:
                interp.trace.append(("split", args[0], args[1], node.get("sp")))
                return ("sym", "MESSAGE")
            if s2 in ("AsyncReadExt::read_buf", "AsyncReadExt::read") and len(args) >= 2:
                interp.trace.append(("readsrc", args[0], node.get("sp")))
                interp.trace.append(("read", args[1], node.get("sp")))
                return ("term", "async-ready", (("sym", "READ"),))
            if s2 in DISCARDING and args:
                interp.trace.append(("discard", args[0], s2, node.get("sp")))
            return None
        it = A.Interp(fx, hook=hook, crates=("netconf",), max_paths=3000, havoc_loops=havoc)
        return [p for p in it.explore(b.name) if p.end != "abort"]
    paths = explore(True)
    finds = [(p, e) for p in paths for e in p.trace if e[0] == "find"]
    splits = [(p, e) for p in paths for e in p.trace if e[0] == "split"]
    reads = [(p, e) for p in paths for e in p.trace if e[0] == "read"]
    # bytes leave the receive buffer only as the message that is split off: anything else that shortens it (clear, truncate, advance,
    # split_off ..) throws away what followed the delimiter in the same read
    discards = [(p, e) for p in paths for e in p.trace if e[0] == "discard" and _buffer_root(e[1])[1]]
    for (p, e) in discards[:4]:
        chk.instance("C06/R4", "%s: the receive buffer is shortened only by split_to(end of message)" % kind, b.name, loc_of(e[3]), holds=False,
                     key="C06/R4 %s buffer-discarded-by %s" % (fn, e[2]), detail="bytes after the delimiter (the next message, or its head) are lost")
    if discards and not splits:
        return
    # R4 first (it needs no split site): bytes are read into, and searched in, a buffer that is a field of the handle — a buffer moved
    # into the call (mem::take, a local) dies with an abandoned recv future, and the head of the message with it
    for (p, e) in reads[:1] + finds[:1]:
        root, in_handle = _buffer_root(e[1])
        what = {"read": "read_buf destination", "find": "searched buffer"}[e[0]]
        key = {"read": "read-buffer-not-in-handle", "find": "searched-buffer-not-in-handle"}[e[0]]
        chk.instance("C06/R4", "%s: %s is a field of the handle (survives the call): %s" % (kind, what, root[:60]), b.name, loc_of(e[-1]), holds=in_handle,
                     key="C06/R4 %s %s" % (fn, key))
    # .. and read *from* the handle's own reader: an adaptor created for the call (a BufReader around it, "to save syscalls") reads ahead
    # into its own buffer, and what it holds when recv returns is gone
    srcs = [e for p in paths for e in p.trace if e[0] == "readsrc"][:1]
    for e in srcs:
        root, in_handle = _buffer_root(e[1])
        chk.instance("C06/R4", "%s: bytes are read from the handle's own reader (%s)" % (kind, root[:60]), b.name, loc_of(e[2]), holds=in_handle and "(" not in root,
                     key="C06/R4 %s read-through-a-per-call-adaptor" % fn,
                     detail=None if in_handle and "(" not in root else "the reader is built for this call: bytes it has read ahead are dropped with it")
    chk.floor("C06 %s find/read/split sites" % kind, min(len(finds), len(reads), len(splits)), 1)
    chk.call_sites += len(finds) + len(reads) + len(splits)

    def window(h):
        """Start of the searched window: lit 0 for the whole buffer, else the start of the range it is sliced with."""
        if h[0] == "term" and T.short(h[1], 2) in ("Index::index",) and len(h[2]) == 2:
            r = h[2][1]
            if r[0] == "adt" and r[2] in ("RangeFrom",):
                return dict(r[3]).get("start")
            return None
        if h[0] == "term" and h[2] and T.short(h[1], 2) in ("Deref::deref", "AsRef::as_ref", "Borrow::borrow"):
            return window(h[2][0])
        return A.lit(0)
    # R4: the buffers persist across calls
    for (p, e) in splits[:1]:
        root, in_handle = _buffer_root(e[1])
        what = {"read": "read_buf destination", "split": "split_to receiver", "find": "searched buffer"}[e[0]]
        key = {"read": "read-buffer-not-in-handle", "split": "split-buffer-not-in-handle", "find": "searched-buffer-not-in-handle"}[e[0]]
        chk.instance("C06/R4", "%s: %s is a field of the handle (survives the call): %s" % (kind, what, root), b.name, loc_of(e[-1]), holds=in_handle,
                     key="C06/R4 %s %s" % (fn, key))
    roots = {_buffer_root(e[1])[0] for (_, e) in reads + splits + finds}
    chk.instance("C06/R4", "%s: bytes are read into, searched in and split off one buffer (%s)" % (kind, sorted(roots)), b.name, None, holds=len(roots) == 1,
                 key="C06/R4 %s several-buffers" % fn)
    # R6: where a message ends is decided by the delimiter alone — nothing in the receiver looks at the *content* of what a single read
    # delivered (per-chunk validation, decoding, counting): how the stream is cut into reads is arbitrary (a multi-byte character, a
    # delimiter, an element can straddle two of them)
    seen_fns = set()
    for p in paths:
        for e in p.trace:
            if e[0] != "call" or not any(_mentions_root(a, roots) for a in e[2]):
                continue
            f = T.short(T.strip_generics(e[1]), 2)
            if f in BUFFER_OK or f.startswith("num::") or f in seen_fns:
                continue
            seen_fns.add(f)
            chk.instance("C06/R6", "%s: the receive buffer is only appended to, searched for the delimiter and split (%s looks at its content)" % (kind, f), b.name,
                         loc_of(e[3]), holds=False, key="C06/R6 %s inspects-buffer-content %s" % (fn, f),
                         detail="its outcome depends on where the transport cut the stream into reads")
    chk.instance("C06/R6", "%s: no other use of the buffered bytes" % kind, b.name, None, holds=True)
    # R2: split position = window start + index of the find + MARKER.len()
    for (p, e) in splits:
        prior = [x for x in p.trace[:p.trace.index(e)] if x[0] == "find"]
        ok, detail = False, "no search before the split"
        if prior:
            f = prior[-1]
            st = window(f[1])
            want = _lin(st, mlen) if st is not None else None
            if want is not None:
                want = dict(want)
                want["«FOUND%d»→Some.0" % f[2]] = want.get("«FOUND%d»→Some.0" % f[2], 0) + 1
                want[""] = want.get("", 0) + mlen
                got = _lin(e[2], mlen)
                ok = got == want
                detail = "split at %s; searched from %s" % (A.vstr(e[2])[:80], A.vstr(st)[:40])
        chk.instance("C06/R2", "%s: split position = start + index + MARKER.len()" % kind, b.name, loc_of(e[3]), holds=ok, key="C06/R2 %s split-position" % fn,
                     detail=detail)
    # R1: the window start is 0 when recv is entered and, when carried round the loop, buf.len() minus at least MARKER.len()-1,
    # computed before the read
    carried = {}
    for (p, e) in finds:
        st = window(e[1])
        if st is None:
            chk.instance("C06/R1", "%s: haystack of find has an unrecognised form" % kind, b.name, loc_of(e[3]), holds=False, key="C06/R1 %s unrecognised-haystack" % fn,
                         detail=A.vstr(e[1])[:100])
            continue
        w = _win(st, mlen)
        if w == ("const", 0):
            chk.instance("C06/R1", "%s: whole receive buffer searched" % kind, b.name, loc_of(e[3]), holds=True)
            continue
        if w is not None and w[0] == "var":
            # start = X ∸ k with X carried round the loop: what X is given decides (below)
            carried[w[1]] = min(w[2], carried.get(w[1], w[2]))
            continue
        in_self = st[0] == "field" and "self" in A.vstr(st[1])
        chk.instance("C06/R1", "%s: search window starts at a per-call offset (not at %s)" % (kind, A.vstr(st)[:50]), b.name, loc_of(e[3]), holds=False,
                     key="C06/R1 %s search-window-start %s" % (fn, "kept-in-the-handle" if in_self else A.vstr(st)[:40]),
                     detail="an offset that outlives the call points past bytes the next call has not searched" if in_self else None)
    for var, k1 in sorted(carried.items()):
        first = [_win(window(e[1]), mlen) if window(e[1]) is not None else None for p in explore(False) for e in p.trace if e[0] == "find"][:1]
        chk.instance("C06/R1", "%s: the search offset `%s` is 0 when recv is entered" % (kind, var), b.name, None, holds=first == [("const", 0)],
                     key="C06/R1 %s search-window-start initial" % fn, detail=str(first[0])[:60] if first and first[0] is not None else None)
        for p in paths:
            asg = [a for a in p.assigns(var)]
            rd = [e for e in p.trace if e[0] == "read"]
            for a in asg:
                v = a[2]
                good, why = False, A.vstr(v)[:80]
                w = _win(v, mlen)
                if w is not None and w[0] == "const" and w[1] - k1 <= 0:
                    good = True
                elif w is not None and w[0] == "len":
                    # the window starts at buf.len() ∸ (what is taken off here + what the search site takes off)
                    good = w[1] in roots and w[2] + k1 >= mlen - 1
                    why = "buf.len() - %s" % (w[2] + k1)
                chk.instance("C06/R1", "%s: search window start %s keeps a split delimiter visible" % (kind, why), b.name, loc_of(a[3]), holds=good,
                             key="C06/R1 %s search-window-start %s" % (fn, why))
                # computed from the length before the read
                if rd:
                    ai, ri = p.trace.index(("assign", a[1], a[2], a[3])), p.trace.index(rd[0])
                    # the offset may be *stored* after the read as long as the length it is derived from was taken before it
                    lens = [i for i, x in enumerate(p.trace[:ai]) if x[0] == "call" and T.short(x[1], 2) in ("BytesMut::len", "Vec::len") and x[2] and _buffer_root(x[2][0])[0] in roots]
                    before = ai < ri or (bool(lens) and lens[-1] < ri)
                    chk.instance("C06/R1", "%s: the offset is taken before the read (from the length already searched)" % kind, b.name, loc_of(a[3]), holds=before,
                                 key="C06/R1 %s search-window-start after-read" % fn)
            if rd and p.end == "iter-end" and not asg:
                chk.instance("C06/R1", "%s: the search offset is updated before more input is awaited" % kind, b.name, loc_of(rd[0][2]), holds=False,
                             key="C06/R1 %s search-window-start not-updated" % fn)
    # R3: a search precedes every read, and a read is followed by a search before the next read
    for p in paths:
        evs = [e for e in p.trace if e[0] in ("find", "read")]
        for i, e in enumerate(evs):
            if e[0] != "read":
                continue
            searched_before = any(x[0] == "find" for x in evs[:i])
            chk.instance("C06/R3", "%s: the buffer is searched before waiting for more input" % kind, b.name, loc_of(e[2]), holds=searched_before,
                         key="C06/R3 %s read-without-search" % fn)
            prev_reads = [j for j, x in enumerate(evs[:i]) if x[0] == "read"]
            if prev_reads:
                between = any(x[0] == "find" for x in evs[prev_reads[-1] + 1:i])
                chk.instance("C06/R3", "%s: after a read the buffer is searched again before the next read" % kind, b.name, loc_of(e[2]), holds=between,
                             key="C06/R3 %s reread-without-search" % fn)
