"""C15 — One unevaluable policy does not prevent the others from being updated (structural clauses).

Isolation structure of the evaluation (no early exit, errors converted per candidate) and reachability of explicit
"not implemented" panics from the per-candidate evaluation — in the workspace's resolvers and, through the MIR that the
locked dependency `rpsl` ships for its generic `Evaluate` impls, in the dependency.
"""
import re
from vlib import facts as F, thir as T
from vlib.report import loc_of
from . import c03

AGENT = c03.AGENT

EXPLANATION = (
    "[Method] R1/R3/R4 by abstract interpretation (Policies::evaluate in iterator or loop form: no early exit; with_connection restores the connection on every path; compare yields nothing and does not panic for a failed evaluation); R2 from MIR incl. dependency MIR. "
    "C15/R1: Policies<Candidate>::evaluate evaluates each candidate inside Iterator::map/collect with no early exit, and "
    "Candidate::evaluate returns a plain Evaluated, converting the evaluator's Err with .ok(): an evaluation that *returns* an error "
    "affects only its own entry. C15/R2 (PANIC): no explicit panic (unimplemented!/todo!/panic!/unreachable!/unwrap/expect) in any "
    "Resolver / Evaluator method of RpslEvaluator; and, from the optimized MIR that rpsl's generic impls of expr::eval::Evaluate carry "
    "in crate metadata (full build of bgpfu-lib), every explicit panic site in those impls is listed — each is reached by "
    "syntactically valid RPSL and, not being enclosed by a catch_unwind inside the per-candidate call, unwinds through the evaluation "
    "task: handle_task turns it into Err, try_join! fails and the whole run aborts. C15/R3 (context): the evaluation task's failure "
    "aborts run (C04/R1) — and a failed evaluation leaves the shared evaluator usable: with_connection puts the connection back on every path (same extraction as C17/R1), so the candidates evaluated after an unevaluable one are not failed by it. C15/R4: compare() yields nothing — and does not panic — for a policy whose evaluation failed, whether or not it is installed. Not decided: which expressions an IRR can answer; panics other than explicit markers in dependencies."
)

PANIC_MACROS = ("unimplemented", "todo", "panic", "unreachable", "assert", "assert_eq", "assert_ne")


def lock_version(crate):
    import os
    from vlib import gen
    txt = open(os.path.join(gen.REPO, "Cargo.lock")).read()
    m = re.search(r'name = "%s"\nversion = "([^"]+)"' % re.escape(crate), txt)
    return m.group(1) if m else "?"


def run(ctx):
    chk, fx = ctx.chk, ctx.facts
    chk.explanation = EXPLANATION
    chk.assumptions += [
        "every Resolver impl of RpslEvaluator and every rpsl Evaluate impl for a filter-expression node is reachable from some syntactically valid mp-filter expression",
        "a panic in block_in_place unwinds through the spawned task; JoinError => handle_task Err => try_join! fails (C04/R5)",
    ]
    # R1 (shared with C03/R2)
    c03.r2_eval(_Rename(chk, "C03/R2", "C15/R1"), fx)
    t = fx.thir_body(c03.EVAL_POL)
    from vlib import absint as A

    def hook(fn, args, node, interp):
        if fn.endswith("Evaluate::evaluate") or fn == c03.eval_cand(fx):
            return ("term", "EVAL", (args[0],))
        return None
    paths = A.Interp(fx, hook=hook, crates=(AGENT,)).explore(c03.EVAL_POL)
    early = [p for p in paths if p.early_loop_exit() or p.end == "abort" or (A.is_res(p.ret) if p.ret is not None else False)]
    # iterator-chain form: the per-candidate closure must not be able to stop the iteration (no try_* / map_while / take_while adaptor: C03/R2's DROPPING list)
    chk.instance("C15/R1", "no early exit (`?`, return, break) while iterating over the candidates (%d paths explored)" % len(paths), t["def"], loc_of(t.get("sp")),
                 holds=bool(paths) and not early, key="C15/R1 Policies::evaluate early-exit")
    r2_workspace(chk, fx)
    r2_agent_side(chk, fx)
    r2_unwinding_reaches_the_catch(chk, fx)
    r2_dependency(ctx, chk, fx)
    r3_evaluator_survives(ctx, chk, fx)
    r4_compare_tolerates_failure(chk, fx)
    r5_statement_readers_consume(chk, fx)
    r6_pipeline_buffer(chk, fx)


def r3_evaluator_survives(ctx, chk, fx):
    """All candidates of a run share one RpslEvaluator (one IRR connection).  An evaluation that fails must leave it usable —
    otherwise every policy evaluated *after* an unevaluable one fails too (Error::AcquireConnection).  Same extraction as C17/R1."""
    from . import c17

    class _Ctx:
        pass
    sub = _Ctx()
    sub.chk, sub.facts = _OnlyRule(_Rename(chk, "C17/R1", "C15/R3"), "C15/R3"), fx
    c17.run(sub)
    # .. and nothing else one evaluation leaves in the evaluator may make a later one fail: no field of the evaluator other than the
    # connection slot is written during an evaluation (C17/R3's decision: counters, budgets, caches that a failed run does not reset)
    c17.r3_stateless(_Rename(chk, "C17/R3", "C15/R3:state"), fx)


class _OnlyRule:
    """Forward only the instances of one (renamed) rule; drop the rest of the borrowed module's bookkeeping."""
    def __init__(self, chk, rule):
        object.__setattr__(self, "_c", chk)
        object.__setattr__(self, "_r", rule)

    def instance(self, rule, what, fn, loc=None, holds=True, key=None, detail=None):
        if rule.replace("C17/R1", "C15/R3") != self._r:
            return holds
        return self._c.instance(rule, what, fn, loc, holds, key, detail)

    def floor(self, *a, **k):
        return None

    def analysed(self, *a):
        return self._c.analysed(*a)

    def __getattr__(self, k):
        if k in ("assumptions",):
            return []
        if k == "extra":
            return {}
        return getattr(self._c, k)

    def __setattr__(self, k, v):
        pass


def r4_compare_tolerates_failure(chk, fx):
    """A policy whose evaluation failed (ranges = None) reaches compare() together with all the others.  Whatever is or is not
    installed for it, compare must neither emit anything for it nor panic: a panic here aborts the run after evaluation, so no
    policy at all is loaded."""
    from . import agent_common as AC
    n, t, m, scr, rows = AC.decision_table(fx)
    chk.analysed(n)
    k = 0
    for (e, i, arm, kind) in rows:
        if e != "present/ranges=None":
            continue
        k += 1
        chk.instance("C15/R4", "compare(evaluation failed, installed %s) => %s (must be: nothing, no panic)" % (i, kind), n,
                     loc_of(arm.get("sp")) if arm else None, holds=kind == "none", key="C15/R4 compare (ranges=None,%s)=>%s" % (i, kind),
                     detail=None if kind == "none" else "an unevaluable policy makes compare %s: every other policy of the run is lost with it" % kind)
    chk.floor("C15/R4 compare rows for a failed evaluation", k, 2)
    # no other panic-capable construct in compare's closure(s)
    for n2, b in sorted(fx.mir.items()):
        if not (n2 == AC.find_compare(fx) or n2.startswith(AC.find_compare(fx) + "::{closure")):
            continue
        for c in b.calls():
            if (not c.macro) and c.is_fn("Option::<T>::unwrap", "Option::<T>::expect", "Result::<T, E>::unwrap", "Result::<T, E>::expect", "Index::index"):
                chk.instance("C15/R4", "%s in compare" % T.short(c.name(), 2), n2, c.loc(), holds=False,
                             key="C15/R4 compare panic-capable %s" % T.short(c.name(), 2))


class _Rename:
    """Record another property's rule instances under this property's rule id."""
    def __init__(self, chk, old, new):
        self.chk, self.old, self.new = chk, old, new

    def __getattr__(self, k):
        return getattr(self.chk, k)

    def __setattr__(self, k, v):
        if k in ("chk", "old", "new"):
            object.__setattr__(self, k, v)
        else:
            setattr(self.chk, k, v)

    def instance(self, rule, what, fn, loc=None, holds=True, key=None, detail=None):
        rule = rule.replace(self.old, self.new)
        if key:
            key = key.replace(self.old, self.new)
        return self.chk.instance(rule, what, fn, loc, holds, key, detail)


_CONTAINED = {}


def contained(fx):
    """Is the per-candidate evaluation enclosed by catch_unwind?  On every explored path of Candidate::evaluate the call of the RPSL
    evaluator lies inside the closure handed to std::panic::catch_unwind (directly or in a helper), and the panicked outcome is
    handled (it does not resume the unwind)."""
    if id(fx) in _CONTAINED:
        return _CONTAINED[id(fx)]
    from vlib import absint as A
    EC = c03.eval_cand(fx)

    def hook(fn, args, node, interp):
        if fn.endswith("RpslEvaluator::evaluate"):
            interp.trace.append(("evaluator",))
            return ("sym", "EVALUATED")
        if T.short(fn, 2) in ("panic::resume_unwind",):
            interp.trace.append(("resumed",))
        return None
    paths = A.Interp(fx, hook=hook, crates=(AGENT, "bgpfu")).explore(EC)
    n = 0
    ok = bool(paths)
    for p in paths:
        depth = 0
        for e in p.trace:
            if e[0] == "catch-enter":
                depth += 1
            elif e[0] == "catch-exit":
                depth -= 1
            elif e[0] == "evaluator":
                n += 1
                ok = ok and depth > 0
            elif e[0] == "resumed":
                ok = False
        if p.end == "abort" and any(e[0] == "unwind" for e in p.trace):
            ok = False
    _CONTAINED.clear()
    _CONTAINED[id(fx)] = ok and n > 0
    return _CONTAINED[id(fx)]


def r2_workspace(chk, fx):
    n = 0
    bodies = [(n2, b) for n2, b in sorted(fx.mir.items()) if b.crate == "bgpfu" and (
        n2.startswith("<bgpfu::query::RpslEvaluator as rpsl::expr::eval::Resolver<") or
        n2.startswith("<bgpfu::query::RpslEvaluator as rpsl::expr::eval::Evaluator<") or
        n2.startswith("bgpfu::query::RpslEvaluator::"))]
    chk.floor("C15/R2 evaluator bodies", len(bodies), 10)
    cu = contained(fx)
    # what runs while the connection is out of the evaluator: the closures the resolvers hand to with_connection, the Evaluator callbacks
    # rpsl invokes from collect_result(s) (sink_error ..), and the library functions those call
    inside_set = {n2 for n2, _ in bodies if ("::{closure#" in n2 and n2.startswith("<bgpfu::query::RpslEvaluator as rpsl::expr::eval::Resolver<"))
                  or n2.startswith("<bgpfu::query::RpslEvaluator as rpsl::expr::eval::Evaluator<")}
    work = list(inside_set)
    lib = {n2: b for n2, b in fx.mir.items() if b.crate == "bgpfu" and "::tests::" not in n2}
    while work:
        n2 = work.pop()
        for c in lib[n2].calls():
            tgt = None if c.macro else (c.rdef if c.rdef in lib else c.defn if c.defn in lib else None)
            for t2 in ([tgt] if tgt else []) + [x for x in lib if tgt and x.startswith(tgt + "::{closure")]:
                if t2 not in inside_set and "with_connection" not in t2:
                    inside_set.add(t2)
                    work.append(t2)
    extra = [(n2, lib[n2]) for n2 in sorted(inside_set) if n2 not in dict(bodies)]
    for n2, b in bodies + extra:
        chk.analysed(n2)
        for c in b.calls():
            mac = (c.macro or "").split("::")[-1]
            explicit = c.is_fn("core::panicking::panic", "core::panicking::panic_fmt", "core::panicking::panic_explicit",
                               "core::panicking::unreachable_display", "std::rt::begin_panic") and mac in PANIC_MACROS
            unwrap = (not c.macro) and c.is_fn("Option::<T>::unwrap", "Option::<T>::expect", "Result::<T, E>::unwrap", "Result::<T, E>::expect")
            # std functions documented to panic on some input (String::truncate at a byte offset ..): only where a panic costs the connection
            risky = (not c.macro) and n2 in inside_set and T.short(T.strip_generics(c.name()), 2) in PANICKY_STD and not unwrap
            if explicit or unwrap or risky:
                n += 1
                what = "%s!()" % mac if explicit else T.short(T.strip_generics(c.name()), 2)
                # catch_unwind in Candidate::evaluate contains a panic — unless it strikes while the connection is out of the evaluator
                # (inside the closure given to with_connection): the unwind skips the hand-back, and every later policy of the run
                # fails with AcquireConnection
                inside = n2 in inside_set
                chk.instance("C15/R2", "%s in %s is reachable from the per-candidate evaluation%s" % (what, T.short(T.strip_generics(n2), 3),
                                                                                                      " (while the connection is taken out of the evaluator)" if inside else ""),
                             n2, c.loc(), holds=cu and not inside, key="C15/R2 %s %s" % (T.strip_generics(n2), what),
                             detail="valid RPSL reaching it panics; the panic aborts the whole run, not just this policy" if not cu else
                             "caught by catch_unwind, but the connection is not handed back: the remaining policies cannot be evaluated")
    chk.instance("C15/R2", "no explicit panic / unwrap in RpslEvaluator's resolver and evaluator methods (%d bodies)" % len(bodies),
                 "bgpfu::query", None, holds=True)


def r2_unwinding_reaches_the_catch(chk, fx):
    """catch_unwind contains a panic only if the panic *unwinds*.  Two things in the agent's own hands can take that away: a panic hook
    (it runs before unwinding starts) that ends the process, and a build profile with `panic = "abort"`."""
    import os
    from vlib import gen
    n_hooks = 0
    for name, b in sorted(fx.mir.items()):
        if b.crate not in (AGENT, "bgpfu") or "::tests::" in name:
            continue
        for c in b.calls():
            if c.macro or not c.is_fn("std::panic::set_hook", "panic::set_hook"):
                continue
            n_hooks += 1
            # the hook: closures defined in this body (and what they call in the workspace)
            ends = []
            work = [n2 for n2 in fx.mir if n2.startswith(name.split("::{closure")[0] + "::{closure")] + [name]
            seen = set()
            while work:
                n2 = work.pop()
                if n2 in seen or n2 not in fx.mir:
                    continue
                seen.add(n2)
                for x in fx.mir[n2].calls():
                    if x.is_fn("std::process::exit", "process::exit", "std::process::abort", "process::abort", "intrinsics::abort", "libc::_exit", "libc::abort"):
                        ends.append((n2, x))
                    tgt = None if x.macro else (x.rdef if x.rdef in fx.mir else x.defn if x.defn in fx.mir else None)
                    if tgt and fx.mir[tgt].crate in (AGENT, "bgpfu"):
                        work.append(tgt)
            chk.instance("C15/R2", "the panic hook installed in %s lets the panic unwind (it does not end the process)" % T.short(T.strip_generics(name), 2), name, c.loc(),
                         holds=not ends, key="C15/R2 panic-hook-ends-the-process %s" % T.strip_generics(name.split("::{closure")[0]),
                         detail=None if not ends else "%s is called from the hook: the process is gone before catch_unwind in Candidate::evaluate sees the panic" % T.short(ends[0][1].name(), 2))
    aborts = []
    for root, dirs, files in os.walk(gen.REPO):
        dirs[:] = [d for d in dirs if d not in ("target", ".git")]
        for f in files:
            if f == "Cargo.toml" or (f == "config.toml" and root.endswith(".cargo")):
                txt = open(os.path.join(root, f)).read()
                if re.search(r'^\s*panic\s*=\s*"abort"', txt, flags=re.M):
                    aborts.append(os.path.relpath(os.path.join(root, f), gen.REPO))
    chk.instance("C15/R2", "no build profile of the workspace sets panic = \"abort\" (%d panic hooks examined)" % n_hooks, "Cargo.toml", aborts[0] if aborts else None,
                 holds=not aborts, key="C15/R2 profile-panic-abort")


IRRC_DEFAULT_CAPACITY = {"0.1.0": 1 << 20}


def r6_pipeline_buffer(chk, fx):
    """irrc reads each response into the pipeline's fixed buffer and needs a whole status line (an `F <message>` error line can be long)
    to fit: with a line longer than the buffer its read loop makes no progress, and the evaluation never returns — no error, no panic,
    nothing catch_unwind or the error handling could contain; the one evaluation task hangs and no policy is updated.  The library's
    default capacity (1 MiB) is what the resolvers are specified against; a pipeline created with less narrows the responses the
    evaluator survives.  Every `Connection::pipeline_with_capacity(c)` in the evaluator: c is a constant not below the default."""
    ver = lock_version("irrc")
    default = IRRC_DEFAULT_CAPACITY.get(ver)
    n = 0
    for name, b in sorted(fx.mir.items()):
        if b.crate != "bgpfu" or "::tests::" in name:
            continue
        for c in b.calls():
            if c.macro or not c.is_fn("irrc::Connection::pipeline_with_capacity", "Connection::pipeline_with_capacity"):
                continue
            n += 1
            if default is None:
                raise F.AnchorLost("irrc %s: default pipeline capacity not audited" % ver)
            a = c.args[1] if len(c.args) > 1 else {}
            val = a.get("i") if a.get("c") == "const" else None
            ok = isinstance(val, int) and val >= default
            chk.instance("C15/R6", "pipeline buffer of %s bytes is not below irrc's default (%d)" % (val if val is not None else "a computed number of", default), name, c.loc(),
                         holds=ok, key="C15/R6 pipeline-capacity-below-default %s" % T.strip_generics(name.split("::{closure")[0]),
                         detail=None if ok else "an IRR response line longer than the buffer makes irrc's read loop spin: the evaluation never returns")
    chk.instance("C15/R6", "pipelines of the evaluator use the library's default buffer (%d explicit capacities)" % n, "bgpfu::query", None, holds=True)


PANICKY_STD = (
    "String::truncate", "String::remove", "String::insert", "String::insert_str", "String::split_off", "String::drain", "String::replace_range",
    "str::split_at", "str::split_at_mut", "Vec::remove", "Vec::swap_remove", "Vec::insert", "Vec::split_off", "Vec::drain", "Vec::swap",
    "slice::split_at", "slice::copy_from_slice", "slice::swap", "slice::chunks", "slice::windows", "slice::chunks_exact", "VecDeque::swap",
    "Option::unwrap", "Option::expect", "Result::unwrap", "Result::expect", "Result::unwrap_err", "Result::expect_err",
    "RefCell::borrow", "RefCell::borrow_mut", "Index::index", "IndexMut::index_mut", "Iterator::step_by", "char::from_digit", "Duration::from_secs_f64",
    "Duration::from_secs_f32", "Instant::duration_since", "Layout::array", "thread::spawn", "Handle::current", "Handle::block_on", "Runtime::block_on")


def r2_agent_side(chk, fx):
    """What the agent itself does around one candidate's evaluation — logging the error, partitioning the result — is not inside the
    catch_unwind that contains the evaluator: a panic there (a `truncate` on a byte offset, an index, an unwrap) unwinds out of the
    iteration over the candidates and fails the run.  Over the agent's bodies reachable from Policies<Candidate>::evaluate, except
    those only reached through the closure handed to catch_unwind: no call of a std function documented to panic on some input, no
    explicit panic, no compiler-inserted check (index bound, arithmetic overflow, division)."""
    roots = [c03.EVAL_POL]
    seen, guarded = set(), set()
    work = list(roots)
    by_root = {}
    for n, b in fx.mir.items():
        if b.crate == AGENT:
            by_root.setdefault(n.split("::{closure")[0], []).append(n)
    # closures handed to catch_unwind (and what only they call) are contained
    def closure_args_of_catch(b):
        out = set()
        for c in b.calls_to("std::panic::catch_unwind", "panic::catch_unwind"):
            for a in c.args:
                l = F.op_base(a)
                if l is None:
                    continue
                for o in b.backward_origins(l, through_call=lambda x: x.is_fn("AssertUnwindSafe") or True, all_args=True):
                    if o["k"] == "agg" and (o["rv"].get("closure") or o["rv"].get("coroutine")):
                        out.add(o["rv"].get("closure") or o["rv"].get("coroutine"))
                    if o["k"] == "arg":
                        out.add(("param", o["l"]))
        return out
    n_sites = 0
    while work:
        fn = work.pop()
        if fn in seen:
            continue
        seen.add(fn)
        for n in by_root.get(fn, []) or ([fn] if fn in fx.mir else []):
            b = fx.mir[n]
            if n in guarded:
                continue
            contained_here = closure_args_of_catch(b)
            chk.analysed(n)
            for bi, bl in enumerate(b.blocks):
                if bl.get("cleanup"):
                    continue
                t = bl["term"]
                # arithmetic-overflow checks exist in debug builds only (the shipped profile wraps): not a panic site of the agent
                if t["k"] == "assert" and not (t.get("sp") or {}).get("m") and not str(t.get("msg", "")).startswith("Overflow"):
                    n_sites += 1
                    chk.instance("C15/R2", "compiler-inserted check (%s) in %s, outside catch_unwind" % (t.get("msg"), T.short(T.strip_generics(n), 3)), n, loc_of(t.get("sp")),
                                 holds=False, key="C15/R2 agent-side %s %s" % (T.strip_generics(n.split("::{closure")[0]), t.get("msg")),
                                 detail="a failing check panics; outside catch_unwind the panic ends the whole evaluation task")
            for c in b.calls():
                mac = (c.macro or "").split("::")[-1]
                if c.macro and mac not in PANIC_MACROS:
                    continue
                explicit = bool(c.macro) and c.is_fn("core::panicking::panic", "core::panicking::panic_fmt", "core::panicking::panic_explicit",
                                                      "core::panicking::unreachable_display", "std::rt::begin_panic")
                short = T.short(T.strip_generics(c.name()), 2)
                if explicit or (not c.macro and short in PANICKY_STD):
                    n_sites += 1
                    what = "%s!()" % mac if explicit else short
                    chk.instance("C15/R2", "%s in %s runs outside catch_unwind" % (what, T.short(T.strip_generics(n), 3)), n, c.loc(), holds=False,
                                 key="C15/R2 agent-side %s %s" % (T.strip_generics(n.split("::{closure")[0]), what),
                                 detail="panics for some inputs (see its documentation); outside catch_unwind the panic ends the whole evaluation task, not this policy's evaluation")
                tgt = None if c.macro else (c.rdef if (c.rdef or "").split("::{closure")[0] in by_root else c.defn if (c.defn or "").split("::{closure")[0] in by_root else None)
                if tgt is not None:
                    work.append(tgt.split("::{closure")[0])
            # closures of this body that are contained are skipped together with what only they reach (approximation: the closure body itself)
            for x in contained_here:
                if isinstance(x, str):
                    guarded.add(x)
    chk.instance("C15/R2", "the agent's own per-candidate code (%d bodies outside catch_unwind) has no panic site" % len([x for x in seen]), c03.EVAL_POL, None,
                 holds=True)
    chk.floor("C15/R2 agent-side bodies analysed", len(seen), 2)


def r2_dependency(ctx, chk, fx):
    try:
        lf = ctx.facts_for("lib-full")
    except Exception as e:  # build failure is "cannot decide", not a pass
        raise F.AnchorLost("lib-full facts unavailable: %s" % str(e)[:300])
    ep = lf.extern_panics.get("bgpfu")
    if not ep or not ep.get("analysed"):
        raise F.AnchorLost("no dependency MIR for rpsl Evaluate impls in lib-full facts")
    chk.extra["dependency_impls_analysed"] = ep["analysed"]
    chk.extra["dependency_impls_opaque"] = ep["opaque"]
    chk.floor("C15/R2 rpsl Evaluate impls with MIR", len([a for a in ep["analysed"] if "rpsl::expr::eval::Evaluate" in a]), 5)
    cu = contained(fx)
    ver = {k: lock_version(k) for k in ("rpsl", "irrc")}
    chk.extra["locked_versions"] = ver
    seen = {}
    for s in ep["sites"]:
        mac = ((s.get("sp") or {}).get("m") or "").split("::")[-1]
        if mac not in PANIC_MACROS and not s["panic_fn"].startswith("core::panicking::panic"):
            continue
        msg = re.sub(r"\s+", " ", s.get("snippet") or s.get("msg") or "")
        fn = T.strip_generics(s["fn"])
        key = "C15/R2 %s-%s %s %s" % (s["krate"], ver.get(s["krate"], "?"), fn, msg[:80])
        if key in seen:
            continue
        seen[key] = 1
        loc = "%s:%s" % ((s.get("sp") or {}).get("f", "?").split("/registry/src/")[-1].split("/", 1)[-1], (s.get("sp") or {}).get("l"))
        # irrc runs only while the connection is out of the evaluator (inside with_connection): a panic there is caught but loses the connection
        chk.instance("C15/R2", "dependency %s: %s in %s" % (s["krate"], msg[:90], T.short(fn, 3)), s["fn"], loc, holds=cu and s["krate"] != "irrc", key=key,
                     detail="reached by syntactically valid RPSL; not enclosed by catch_unwind inside the per-candidate evaluation" if not cu else
                     "caught by catch_unwind, but it strikes inside with_connection: the connection is not handed back")
    for a in ep["analysed"]:
        if "rpsl::expr::eval::Evaluate" in a and not any(s["fn"] == a for s in ep["sites"]):
            chk.instance("C15/R2", "no explicit panic in %s" % T.short(T.strip_generics(a), 3), a, None, holds=True)


def r5_statement_readers_consume(chk, fx):
    """A policy-statement the agent decides to skip (not annotated, inactive, unevaluable by construction ..) must still be *read past*:
    the reader of one statement returns Ok only with its element consumed — by read_to_end(<its end tag>) or by leaving its element loop
    at its own End event.  An early `return Ok(None)` with the children unread leaves them to the enclosing loop, which rejects the
    whole reply: every other policy of the run is lost with the skipped one."""
    from vlib import absint as A
    targets = [n for n in sorted(fx.thir) if n.endswith("::read_xml") and "::policies::fetch::" in n and "::tests::" not in n and "Maybe<" in n]
    chk.floor("C15/R5 statement readers", len(targets), 2)
    for name in targets:
        chk.analysed(name)
        n_ok = 0
        try:
            start = "«param:%s»" % (fx.fn_item(name).get("params") or [None, "start"])[1]
        except (F.AnchorLost, IndexError):
            start = "«param:start»"
        for p in A.Interp(fx, crates=(AGENT,), max_paths=8000).explore(name):
            if p.end in ("iter-end", "abort") or not (A.is_res(p.ret) and p.ret[2] == "Ok"):
                continue
            n_ok += 1
            skipped = any(start in A.vstr(c[2][1]) for c in p.calls("read_to_end") if len(c[2]) > 1)
            at_end = any(v is True and "→End.0" in k and ("to_end(%s)" % start) in k for k, v in p.assume.items())
            ok = skipped or at_end
            chk.instance("C15/R5", "%s returns Ok only with its element consumed (%s)" % (AC_short(name), "read_to_end" if skipped else "left at its End event" if at_end else "children unread"),
                         name, loc_of(fx.thir[name].get("sp")), holds=ok, key="C15/R5 %s Ok-without-consuming-the-element" % AC_short(name),
                         detail=None if ok else "the statement's children are left for the enclosing loop: UnexpectedXmlEvent for the whole reply")
        chk.floor("C15/R5 Ok paths of %s" % AC_short(name), n_ok, 1)


def AC_short(name):
    from . import readers as R
    return R.short_fn(name)
