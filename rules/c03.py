"""C03 — Unobtainable prefix data never removes or empties a managed policy.

TABLE (compare rows), ORIGIN (ranges = .ok() of the evaluator result, no defaulting), GUARD (which IRR errors are sunk),
OKDOM (unknown as-set propagates), path rule (malformed annotation must influence the result).
"""
from vlib import facts as F, thir as T
from vlib.report import loc_of
from . import agent_common as AC

AGENT = AC.AGENT
EVAL_CAND = "<" + AGENT + "::policies::Candidate as " + AGENT + "::policies::eval::Evaluate>::evaluate"
EVAL_POL = "<" + AGENT + "::policies::Policies<" + AGENT + "::policies::Candidate> as " + AGENT + "::policies::eval::Evaluate>::evaluate"
SINK = "<bgpfu::query::RpslEvaluator as rpsl::expr::eval::Evaluator<'a>>::sink_error"
READ_CAND = "<" + AGENT + "::policies::fetch::Maybe<" + AGENT + "::policies::Candidate> as netconf::message::ReadXml>::read_xml"

def eval_cand(fx):
    """Candidate's evaluation function: the Evaluate impl, or an inherent method of that name if the impl was turned into one."""
    if EVAL_CAND in fx.thir:
        return EVAL_CAND
    c = [n for n in fx.thir if n.endswith("::evaluate") and "policies::Candidate" in n and "Policies<" not in n and "{closure" not in n and AGENT in n]
    if len(c) == 1:
        return c[0]
    raise F.AnchorLost("Candidate's evaluate function not found (%d candidates)" % len(c))


EXPLANATION = (
    "[Method] Decided by abstract interpretation of the THIR of compare, Candidate::evaluate, Policies::evaluate, the as-set resolver and the annotation reader (vlib/absint.py: local functions and closures inlined, Option/Result combinators and `?` interpreted, undecided branches fork the path): the verdict does not depend on how the source spells the logic. "
    "C03/R1 (TABLE): in Policies<Evaluated>::compare, over the exhaustive abstract domain evaluated in {absent, present/ranges=None, "
    "present/ranges=Some} x installed in {absent, present}: ranges=None yields no Update and no Delete, and Delete is produced only "
    "for (absent, present). C03/R2 (ORIGIN): Candidate::evaluate's `ranges` is Result::ok() of the evaluator result through map/map_err "
    "only (no unwrap_or/default), and Policies<Candidate>::evaluate maps entries one-to-one (no filter). C03/R3 (GUARD): "
    "RpslEvaluator::sink_error can return false, and returns true only under a pattern that matches the tolerated error classes "
    "(route-query KeyNotFound = 'this AS has no routes in this family', single unparsable items). C03/R4: the as-set resolver "
    "reaches responses() only through and_then on pipeline_from_initial (an unknown as-set propagates). C03/R5: the arm handling a "
    "bgpfu-fltr: annotation whose expression fails to parse must influence the reader's result. Not decided: which errors the IRR "
    "returns, irrc's own error paths."
)

TOLERATED = {
    ("ResponseErr", "Ipv4Routes", "KeyNotFound"), ("ResponseErr", "Ipv6Routes", "KeyNotFound"), ("ParseItem",),
}


def run(ctx):
    chk, fx = ctx.chk, ctx.facts
    chk.explanation = EXPLANATION
    chk.assumptions += [
        "rpsl-0.1.1 Evaluator::collect_result(s): sink_error()==true maps an Err item to 'skip and continue', false propagates it",
        "irrc-0.1.0: an unknown key is reported as Error::ResponseErr(query, Response::KeyNotFound)",
    ]
    r1_compare(chk, fx)
    r2_eval(chk, fx)
    r3_sink(chk, fx)
    r4_asset(chk, fx)
    r5_annotation(chk, fx)
    r6_no_err_dropping_adaptor(chk, fx)
    r7_unreadable_statement_fails_fetch(chk, fx)
    r8_resolver_ok_means_answered(chk, fx)


def r1_compare(chk, fx):
    n, t, m, scr, rows = AC.decision_table(fx)
    chk.analysed(n)
    chk.extra["compare_table"] = [(e, i, k) for (e, i, a, k) in rows]
    for (e, i, arm, kind) in rows:
        loc = loc_of(arm.get("sp")) if arm else None
        if e == "present/ranges=None":
            chk.instance("C03/R1", "compare(%s, %s) => %s: a failed evaluation sends neither update nor delete" % (e, i, kind), n, loc,
                         holds=kind == "none", key="C03/R1 compare (%s,%s)=>%s" % (e, i, kind))
        elif kind == "delete":
            chk.instance("C03/R1", "compare(%s, %s) => delete only for installed-but-not-candidate" % (e, i), n, loc,
                         holds=(e == "absent" and i == "present"), key="C03/R1 compare delete-for (%s,%s)" % (e, i))
        elif kind in ("unrecognised-pattern", "no-arm", "other", "some-other"):
            chk.instance("C03/R1", "compare(%s, %s): arm of unrecognised form" % (e, i), n, loc, holds=False,
                         key="C03/R1 compare (%s,%s) unrecognised" % (e, i))
        else:
            chk.instance("C03/R1", "compare(%s, %s) => %s" % (e, i, kind), n, loc, holds=True)
    chk.floor("C03/R1 compare abstract cases", len(rows), 6)
    if any((arm or {}).get("collections") for (_, _, arm, _) in rows):
        # table obtained by evaluating compare on finite maps with one name per case: which name meets which is part of that evaluation
        return
    # the decision is over the two lookups of the *same* name: both HashMap::get calls take the closure's name parameter
    gets = [c for c in T.calls(T.norm(t["body"])) if T.short(c["fn"], 2) == "HashMap::get"]
    keys = sorted({T.expr_str(T.peel(c["args"][1])) for c in gets})
    recvs = sorted(T.expr_str(T.peel(c["args"][0])).replace(" ", "") for c in gets)
    ok = len(gets) == 2 and len(keys) == 1 and any("self.map" in r for r in recvs) and any("installed.map" in r for r in recvs)
    chk.instance("C03/R1", "decision is over self.map.get(name) and installed.map.get(name) for one and the same name (%s; key %s)" % (recvs, keys), n,
                 loc_of(t.get("sp")), holds=ok, key="C03/R1 compare scrutinee")


def chain(e):
    """Method-call chain from the outermost call inwards through receivers: [fn names], innermost receiver."""
    out = []
    e = T.peel(e)
    while e.get("k") == "Call" and e.get("fn") and e.get("args"):
        out.append(e["fn"])
        e = T.peel(e["args"][0])
    return out, e


def r2_eval(chk, fx):
    """Candidate::evaluate by abstract interpretation: evaluator Ok(set) => ranges = Some(f(set)); Err => ranges = None — never a default."""
    from vlib import absint as A
    EC = eval_cand(fx)
    t = fx.thir_body(EC)
    chk.analysed(t["def"])

    def hook(fn, args, node, interp):
        if fn.endswith("RpslEvaluator::evaluate"):
            interp.trace.append(("call", fn, tuple(args), node.get("sp")))
            return ("sym", "EVALUATED")
        return None
    paths = A.Interp(fx, hook=hook, crates=(AGENT, "bgpfu")).explore(EC)
    seen = {}
    for p in paths:
        kv = p.assume.get("variant:«EVALUATED»")
        ev = p.calls("RpslEvaluator::evaluate")
        fs = A.fields_of(p.ret)
        rg = fs.get("ranges")
        if any(e[0] == "unwind" for e in p.trace) and rg is not None and p.end != "abort":
            # the evaluation panicked inside catch_unwind: a failed evaluation like any other
            seen.setdefault("Panicked", []).append((rg == A.NONE, A.vstr(rg)[:160]))
            seen.setdefault("fe", []).append(A.vstr(fs.get("filter_expr", ("unit",))).endswith(".filter_expr"))
            continue
        if kv is None or rg is None or p.end == "abort" or len(ev) != 1:
            seen.setdefault("other", []).append(A.vstr(p.ret)[:160] + " / " + p.end)
            continue
        if kv == "Ok":
            good = A.is_opt(rg) and rg[2] == "Some" and A.mentions(rg, lambda x: x == ("payload", ("sym", "EVALUATED"), "Ok", "0")) \
                and not A.mentions(rg, lambda x: x[0] == "term" and T.short(x[1], 2) == "Default::default")
        else:
            good = rg == A.NONE
        seen.setdefault(kv, []).append((good, A.vstr(rg)[:160]))
        # the evaluated expression is the candidate's own
        arg = ev[0][2][1] if len(ev[0][2]) > 1 else None
        own = arg is not None and A.vstr(arg).endswith(".filter_expr") and "self" in A.vstr(arg)
        seen.setdefault("own", []).append(own)
        seen.setdefault("fe", []).append(A.vstr(fs.get("filter_expr", ("unit",))).endswith(".filter_expr"))
    ok = not seen.get("other") and seen.get("Ok") and seen.get("Err") and all(g for g, _ in seen["Ok"]) and all(g for g, _ in seen["Err"]) and \
        all(g for g, _ in seen.get("Panicked", []))
    chk.extra["ranges_by_case"] = {k: v for k, v in seen.items() if k in ("Ok", "Err", "Panicked", "other")}
    chk.instance("C03/R2", "Evaluated.ranges = Some(f(set)) iff the evaluator returned Ok(set), None iff it returned Err — on every path (%s)" % (
        {k: [x[1] if isinstance(x, tuple) else x for x in v][:2] for k, v in seen.items() if k in ("Ok", "Err", "Panicked", "other")}), t["def"],
        loc_of(t.get("sp")), holds=bool(ok), key="C03/R2 Candidate::evaluate ranges-chain",
        detail="a defaulting combinator (unwrap_or*, or_else(Ok(..)), Default) would turn a failed evaluation into an empty set")
    chk.instance("C03/R2", "the expression evaluated is the candidate's own filter_expr (and it is kept in the result)", t["def"], loc_of(t.get("sp")),
                 holds=bool(seen.get("own")) and all(seen["own"]) and all(seen.get("fe", [False])), key="C03/R2 Candidate::evaluate evaluated-expr")
    it = fx.fn_item(EC)
    chk.instance("C03/R2", "Candidate::evaluate returns a plain Evaluated (errors cannot escape as Err)", it["def"], loc_of(it.get("sp")),
                 holds=it["output"].endswith("policies::Evaluated"), key="C03/R2 Candidate::evaluate signature")
    # Policies::evaluate: one-to-one — every (name, candidate) of self.map is mapped to (name, candidate.evaluate(..)), nothing filtered
    t2 = fx.thir_body(EVAL_POL)

    def hook2(fn, args, node, interp):
        if fn.endswith("Evaluate::evaluate") or fn == EC or T.strip_generics(fn) == T.strip_generics(EC):
            return ("term", "EVAL", (args[0],))
        return None
    paths = A.Interp(fx, hook=hook2, crates=(AGENT,)).explore(EVAL_POL)
    ok, detail = bool(paths), None
    finals = [p for p in paths if p.end != "iter-end"]
    iters = [p for p in paths if p.end == "iter-end"]
    for p in finals:
        fs = A.fields_of(p.ret)
        m = fs.get("map")
        if p.end == "abort" or m is None:
            ok, detail = False, "result %s" % (A.vstr(p.ret)[:120] if p.ret is not None else p.end)
    def src_is_self_map(v):
        return A.mentions(v, lambda x: x[0] == "field" and x[2] == "map" and "self" in A.vstr(x[1]))
    if iters:
        # loop form: every iteration over self.map inserts (name, evaluate(candidate)) of that very element into the result map
        for p in iters:
            ins = p.calls("HashMap::insert")
            good = len(ins) == 1 and len(ins[0][2]) == 3
            if good:
                mp, k, v = ins[0][2]
                el = k[1] if k[0] == "field" and k[2] == "0" else None
                good = el is not None and el[0] == "term" and el[1] == "elem" and src_is_self_map(el) and v == ("term", "EVAL", (("field", el, "1"),))
                good = good and not [x for x in A.walk_value(el) if x[0] == "term" and T.short(x[1], 2) in DROPPING]
                good = good and all(A.fields_of(f.ret).get("map") == mp or A.vstr(A.fields_of(f.ret).get("map", ("unit",))) == A.vstr(mp) for f in finals if f.ret is not None)
            if not good:
                ok, detail = False, "an iteration over the candidates does not insert (name, evaluation) of its own element: %s" % [A.vstr(("tuple", c[2]))[:120] for c in ins]
        early = [p for p in paths if p.early_loop_exit()]
        if early:
            ok, detail = False, "the loop over the candidates can be left before every candidate was evaluated (break / return inside the loop)"
    else:
        for p in finals:
            m = A.fields_of(p.ret).get("map") if p.ret is not None else None
            if m is None:
                continue
            txt = A.vstr(m)
            bad = [T.short(x[1], 2) for x in A.walk_value(m) if x[0] == "term" and T.short(x[1], 2) in DROPPING]
            maps = [x for x in A.walk_value(m) if x[0] == "term" and T.short(x[1], 2) in ("Iterator::map", "Iterator::filter_map", "Iterator::flat_map")]
            one = len(maps) == 1 and T.short(maps[0][1], 2) == "Iterator::map"
            entry_ok = False
            if one:
                it2 = A.Interp(fx, hook=hook2, crates=(AGENT,))
                it2.havoc_mut_captures = True
                it2.trace, it2.assume, it2._script, it2._pos, it2._taken, it2._alts, it2._sym, it2._occ = [], {}, [], 0, [], [], 0, {}
                try:
                    r = it2.apply(maps[0][2][1], [("tuple", (("sym", "NAME"), ("sym", "CANDIDATE")))], {"sp": None}, 0)
                    entry_ok = r == ("tuple", (("sym", "NAME"), ("term", "EVAL", (("sym", "CANDIDATE"),)))) and not it2._alts
                except Exception as ex:  # noqa
                    detail = "closure: %r" % ex
            if bad or not src_is_self_map(m) or not one or not entry_ok:
                ok = False
                detail = detail or "map = %s" % txt[:200]
    chk.instance("C03/R2", "Policies::evaluate maps every candidate one-to-one: (name, candidate) -> (name, candidate.evaluate(..)), no early exit, nothing dropped",
                 t2["def"], loc_of(t2.get("sp")), holds=ok, key="C03/R2 Policies::evaluate chain", detail=detail)
    chk.extra["policies_evaluate_form"] = "loop" if iters else "iterator chain"


DROPPING = ("Iterator::filter", "Iterator::take", "Iterator::skip", "Iterator::take_while", "Iterator::skip_while", "Iterator::step_by", "Iterator::nth",
            "Iterator::map_while", "Iterator::zip", "Iterator::filter_map", "Iterator::scan")


def error_classes(pat):
    """Set of error classes a pattern on Option<&irrc::Error> matches; None = anything."""
    k = pat.get("k")
    if k in ("Wild",) or (k == "Bind" and not pat.get("sub")):
        return None
    if k in ("Deref", "Bind"):
        return error_classes(pat["sub"])
    if k == "Or":
        out = set()
        for p in pat["pats"]:
            c = error_classes(p)
            if c is None:
                return None
            out |= c
        return out
    if k == "Variant" and pat["adt"].endswith("option::Option"):
        if pat["variant"] == "None":
            return None
        return error_classes(pat["sub"][0]["pat"])
    if k == "Variant" and pat["adt"] == "irrc::Error":
        v = pat["variant"]
        if v != "ResponseErr":
            return {(v,)}
        qs, rs = None, None
        for s in pat["sub"]:
            if s["field"] == "0":
                qs = variants_of(s["pat"])
            elif s["field"] == "1":
                rs = variants_of(s["pat"])
        if qs is None or rs is None:
            return {("ResponseErr", "*", "*")}
        return {("ResponseErr", q, r) for q in qs for r in rs}
    return None


def variants_of(pat):
    k = pat.get("k")
    if k == "Variant":
        return {pat["variant"]}
    if k == "Or":
        out = set()
        for p in pat["pats"]:
            v = variants_of(p)
            if v is None:
                return None
            out |= v
        return out
    if k in ("Deref", "Bind") and pat.get("sub"):
        return variants_of(pat["sub"])
    return None


def bool_leaves(e, ctx, out):
    """Collect (bool value | None, positive-pattern context) for every result leaf of expression e."""
    e = T.peel(e)
    k = e.get("k")
    if k == "Block":
        if e.get("expr") is not None:
            bool_leaves(e["expr"], ctx, out)
        else:
            out.append((None, ctx, e))
        for s in e.get("stmts", []):
            for r in T.find(s, "Return"):
                if r.get("value") is not None:
                    bool_leaves(r["value"], ctx + [("in-stmt", None)], out)
    elif k == "If":
        c = T.peel(e["cond"])
        pos = [("let", c["pat"])] if c.get("k") == "Let" else [("cond", c)]
        bool_leaves(e["then"], ctx + pos, out)
        if e.get("else") is not None:
            bool_leaves(e["else"], ctx + [("not", None)], out)
    elif k == "Match":
        for a in e["arms"]:
            bool_leaves(a["body"], ctx + [("let", a["pat"])], out)
    elif k == "Lit" and e.get("lk") == "bool":
        out.append((e["v"], ctx, e))
    elif k == "Return":
        bool_leaves(e.get("value") or {}, ctx, out)
    else:
        out.append((None, ctx, e))


def r3_sink(chk, fx):
    """Decided on the explored paths of sink_error (the downcast an undecided outcome, patterns over irrc::Error forking the path):
    which error classes a path that returns true has assumed.  Independent of how the function spells it — match arms returning bools,
    a (sunk, expected) tuple and logging afterwards, let-else, helper predicates."""
    from vlib import absint as A
    cands = [n for n in fx.thir if n.endswith("::sink_error") and "bgpfu::query::RpslEvaluator" in n]
    if len(cands) != 1:
        raise F.AnchorLost("RpslEvaluator::sink_error not found")
    t = fx.thir[cands[0]]
    chk.analysed(t["def"])

    def hook(fn, args, node, interp):
        if fn.endswith("::downcast_ref"):
            return ("sym", "DC:" + (node.get("ty") or "?").replace(" ", ""))
        return None
    paths = [p for p in A.Interp(fx, hook=hook, crates=("bgpfu",), max_paths=400).explore(cands[0]) if p.end != "abort"]
    verdicts = [(p, p.ret[1]) for p in paths if p.ret is not None and p.ret[0] == "lit" and isinstance(p.ret[1], bool)]
    other = [p for p in paths if not (p.ret is not None and p.ret[0] == "lit" and isinstance(p.ret[1], bool))]
    chk.instance("C03/R3", "sink_error can return false (some IRR errors abort the evaluation)", t["def"], loc_of(t.get("sp")),
                 holds=any(v is False for _, v in verdicts), key="C03/R3 sink_error never-false",
                 detail="every IRR error (unknown route-set, 'F' answers, I/O) is swallowed: the resolver returns Ok(empty/partial set) and the policy is emptied or truncated")
    for p in other:
        chk.instance("C03/R3", "sink_error result of unrecognised form: %s" % A.vstr(p.ret)[:60], t["def"], loc_of(t.get("sp")),
                     holds=False, key="C03/R3 sink_error unrecognised-result")
    n = 0
    for p, v in verdicts:
        if v is not True:
            continue
        n += 1
        top = q = reason = None
        qs = None
        for k, w in p.assume.items():
            if not ("«DC:" in k and "irrc::Error" in k):
                continue
            tail = k.split("»", 1)[1]
            if k.startswith("variant:") and tail == "→Some.0":
                top = w
            elif k.startswith("variant:") and tail.endswith("→ResponseErr.0"):
                qs = (w,)
            elif k.startswith("variantin:") and tail.endswith("→ResponseErr.0"):
                qs = tuple(w)
            elif k.startswith("variant:") and tail.endswith("→ResponseErr.1"):
                reason = w
        if top is None:
            classes = None
        elif top == "ResponseErr":
            classes = {(top, x, reason or "*") for x in (qs or ("*",))}
        else:
            classes = {(top,)}
        ok = classes is not None and classes <= TOLERATED
        extra = sorted(classes - TOLERATED) if classes else "any error"
        chk.instance("C03/R3", "sink_error returns true only for tolerated error classes (here: %s)" % (sorted(classes) if classes else "ANY"),
                     t["def"], loc_of(t.get("sp")), holds=ok, key="C03/R3 sink_error sinks %s" % (extra if not ok else "tolerated"),
                     detail=None if ok else "an unknown route-set / error answer would yield an empty or partial set that is then installed")
    chk.floor("C03/R3 sink_error result leaves", len(verdicts), 1)
    # what is classified is the error handed in, as an irrc::Error — not something dug out of another error type: a resolver that wraps
    # the IRR error (the filter-set lookup does, with Error::from, before collect_result) thereby makes it fatal, and unwrapping here
    # would extend the tolerance for single route items to whole objects
    dc = [c for n2 in sorted(fx.thir) if n2 == cands[0] or n2.startswith(cands[0] + "::{closure")
          for c in T.find(T.norm(fx.thir[n2]["body"]), "Call") if (c.get("fn") or "").endswith("::downcast_ref")]
    tys = sorted({(c.get("ty") or "?") for c in dc})
    ok = bool(dc) and all(ty.replace(" ", "") in ("std::option::Option<&irrc::Error>", "core::option::Option<&irrc::Error>") for ty in tys)
    chk.instance("C03/R3", "the error is classified by downcasting it to irrc::Error, and to nothing else (%s)" % tys, t["def"], loc_of(t.get("sp")), holds=ok,
                 key="C03/R3 sink_error downcast-type")


def r4_asset(chk, fx):
    """The unknown-as-set error of the initial query propagates: when pipeline_from_initial fails, the resolver's result is that error
    (never Ok(empty)); the responses are read only when it succeeded.  Decided by abstract interpretation of the resolver."""
    from vlib import absint as A
    cands = [n for n in fx.thir if n.startswith("<bgpfu::query::RpslEvaluator as rpsl::expr::eval::Resolver<'_, rpsl::names::AsSet")
             and n.endswith("::resolve")]
    if len(cands) != 1:
        raise F.AnchorLost("as-set resolver not found (%d)" % len(cands))
    rn = cands[0]
    t = fx.thir[rn]
    chk.analysed(rn)

    def hook(fn, args, node, interp):
        s2 = T.short(fn, 2)
        if s2 == "RpslEvaluator::with_connection":
            # run the closure with a symbolic connection; the wrapper's own behaviour is C17's subject
            return interp.apply(args[1], [args[0], ("sym", "CONN")], node, 0)
        if s2 == "Connection::pipeline_from_initial":
            interp.trace.append(("call", fn, tuple(args), node.get("sp")))
            return ("sym", "INITIAL")
        return None
    it = A.Interp(fx, hook=hook, crates=("bgpfu",))
    it.model_iterators = False
    paths = it.explore(rn)
    n_ok = n_err = 0
    bad = []
    q_ok = True
    for p in paths:
        init = p.calls("Connection::pipeline_from_initial")
        if len(init) != 1:
            bad.append("pipeline_from_initial called %d times on a path" % len(init))
            continue
        q = init[0][2][1] if len(init[0][2]) > 1 else None
        if not (q is not None and q[0] == "adt" and q[2] == "AsSetMembersRecursive" and "as_set" in A.vstr(q)):
            q_ok = False
        kv = p.assume.get("variant:«INITIAL»")
        reads = p.calls("Pipeline::responses")
        if kv == "Err":
            n_err += 1
            if not (A.is_res(p.ret) and p.ret[2] == "Err" and A.mentions(p.ret, lambda x: x == ("payload", ("sym", "INITIAL"), "Err", "0"))):
                bad.append("initial query failed but the resolver returns %s" % A.vstr(p.ret)[:100])
            if reads:
                bad.append("responses read although the initial query failed")
        elif kv == "Ok":
            n_ok += 1
            if not reads:
                bad.append("initial query succeeded but no response is read")
    ok = n_ok >= 1 and n_err >= 1 and not bad
    chk.instance("C03/R4", "as-set resolver: a failed initial query (unknown as-set) is returned as the error; responses are read only after it succeeded",
                 rn, loc_of(t.get("sp")), holds=ok, key="C03/R4 as-set-resolver chain", detail="; ".join(bad[:3]) or None)
    chk.instance("C03/R4", "the initial query is AsSetMembersRecursive(as_set)", rn, loc_of(t.get("sp")), holds=q_ok and (n_ok + n_err) > 0,
                 key="C03/R4 as-set-resolver initial-query")


def r5_annotation(chk, fx):
    """A `bgpfu-fltr:` annotation whose expression does not parse must influence the reader's result (an error, or a 'managed but
    unevaluable' candidate) — if it is only logged the statement silently drops out of the candidates and compare() deletes the
    installed policy.  Abstract interpretation of one iteration of the attribute scan: on the paths where the MpFilterExpr parse
    is assumed to fail, something other than logging has to happen (an assignment, a return, a break)."""
    from vlib import absint as A
    t = fx.thir_body(READ_CAND)
    chk.analysed(t["def"])
    it = A.Interp(fx, crates=(AGENT,), max_paths=4000)
    paths = it.explore(READ_CAND)
    fails = []
    for p in paths:
        keys = [k for k, v in p.assume.items() if k.startswith("variant:str::parse(") and v == "Err"]
        if keys:
            fails.append(p)
    if not fails:
        chk.instance("C03/R5", "annotation parse result is handled (a path on which the expression fails to parse exists)", t["def"], loc_of(t.get("sp")),
                     holds=False, key="C03/R5 Maybe<Candidate>::read_xml unrecognised-form")
        return
    # .. and an annotation that *does* parse makes the statement a candidate, whatever the expression looks like: whether it can be
    # evaluated is the evaluator's verdict (a failed evaluation leaves the installed policy alone, R1) — a statement dropped here is
    # "no longer managed" for compare, which deletes it
    parsed = [p for p in paths if any(k.startswith("variant:str::parse(") and v == "Ok" for k, v in p.assume.items())]
    dropped = [p for p in parsed if p.end == "iter-end" and not any("str::parse(" in A.vstr(a[2]) for a in p.assigns())]
    chk.instance("C03/R5", "a bgpfu-fltr: annotation that parses is kept (%d parsing paths)" % len(parsed), t["def"], loc_of(t.get("sp")), holds=bool(parsed) and not dropped,
                 key="C03/R5 Maybe<Candidate>::read_xml parsed-annotation-dropped",
                 detail=None if not dropped else "a still-managed statement whose expression is judged 'unsupported' here drops out of the candidates: compare deletes its installed policy")
    only_logged = [p for p in fails if p.end == "iter-end" and not p.assigns()]
    chk.instance("C03/R5", "a malformed bgpfu-fltr: annotation influences the result (not only logged) — %d failing-parse paths, %d without any effect" % (
        len(fails), len(only_logged)), t["def"], loc_of(t.get("sp")), holds=not only_logged,
        key="C03/R5 Maybe<Candidate>::read_xml malformed-annotation-only-logged",
        detail="the statement drops out of the candidates; compare then sees (absent, present) and deletes the installed policy")


# ---------------------------------------------------------------------------------------------
RESULT_TY = ("std::result::Result<", "core::result::Result<")


def drops_err(fn, gargs, item_of):
    """Does this iterator adaptor call silently discard the Err items of an iterator over Results?  `item_of(self_ty)` gives the item
    type of the receiver when it was produced by a map / filter_map in the workspace."""
    s = T.short(fn, 2)
    g = list(gargs or [])
    if s == "Iterator::flatten":
        it = item_of(g[0]) if g else None
        return bool(it) and it.startswith(RESULT_TY)
    if s in ("Iterator::flat_map",):
        # B = IntoIterator returned by the closure
        return len(g) > 1 and g[1].startswith(RESULT_TY)
    if s in ("Iterator::filter_map", "Iterator::map_while"):
        f = g[-1] if g else ""
        return "Result::<" in f and f.rstrip().endswith(("::ok", "::ok}"))
    if s in ("Iterator::filter", "Iterator::take_while", "Iterator::skip_while"):
        f = g[-1] if g else ""
        return "Result::<" in f and f.rstrip().endswith(("::is_ok", "::is_ok}"))
    return False


def r6_no_err_dropping_adaptor(chk, fx):
    """A failed IRR answer must stay an error until sink_error has seen it (R3).  An iterator adaptor that flattens / filters an
    iterator over Results discards the Err items on the way: the evaluation then succeeds with less (or nothing), and compare empties
    the policy.  All adaptor calls of the library's query code and the agent's evaluation code are classified by their item types."""
    # self-test of the classifier (the rule's expected count on a correct tree is zero)
    probe = {"X": "std::result::Result<u8, E>"}
    assert drops_err("std::iter::Iterator::flatten", ["X"], probe.get) and not drops_err("std::iter::Iterator::flatten", ["Y"], probe.get)
    assert drops_err("std::iter::Iterator::filter_map", ["I", "u8", "fn(Result<u8, E>) -> Option<u8> {std::result::Result::<u8, E>::ok}"], probe.get)
    produced = {}
    sites = []
    for name, b in sorted(fx.mir.items()):
        if b.crate not in ("bgpfu", AGENT) or "::tests::" in name:
            continue
        if b.crate == AGENT and "::policies::eval::" not in name:
            continue
        for c in b.calls():
            if c.macro:
                continue
            s = T.short(c.name(), 2)
            if s in ("Iterator::map", "Iterator::filter_map") and len(c.gargs or []) >= 2:
                produced[b.local_ty(c.dest["l"])] = c.gargs[1]
            if s.startswith("Iterator::"):
                sites.append((name, b, c))
    n = 0
    for (name, b, c) in sites:
        s = T.short(c.name(), 2)
        if s not in ("Iterator::flatten", "Iterator::flat_map", "Iterator::filter_map", "Iterator::map_while", "Iterator::filter",
                     "Iterator::take_while", "Iterator::skip_while"):
            continue
        n += 1
        bad = drops_err(c.name(), c.gargs, produced.get)
        chk.instance("C03/R6", "%s in %s does not discard Err items" % (s, T.short(T.strip_generics(name), 3)), name, c.loc(), holds=not bad,
                     key="C03/R6 %s drops-Err-items in %s" % (s, T.short(T.strip_generics(name), 3)),
                     detail=None if not bad else "the adaptor runs over Result items and keeps only the Ok ones: a failed query no longer fails the evaluation")
    chk.instance("C03/R6", "iterator adaptors over query results classified (%d filtering/flattening sites, %d adaptor calls)" % (n, len(sites)),
                 "bgpfu", None, holds=True)


# ---------------------------------------------------------------------------------------------
READ_CALLS = ("ReadXml::read_xml", "BorrowedReadXml::borrowed_read_xml", "NsReader::read_resolved_event", "NsReader::read_text",
              "NsReader::read_to_end", "TermFrom::try_into_ranges")


def r7_unreadable_statement_fails_fetch(chk, fx):
    """What the agent cannot read it must not take for absent: a policy-statement that drops out of the fetched candidates (or of the
    installed state) while it is on the router is, to compare, a policy that is no longer managed (Delete) or not installed (re-create).
    So in the configuration readers a failed nested read — a nested reader, a text read, the event read itself — must fail the fetch.
    Decided on every explored path of the three statement-level readers: a path that assumes such a call returned Err ends in `return Err`."""
    from vlib import absint as A
    targets = [n for n in sorted(fx.thir) if n.endswith("::read_xml") and "::policies::fetch::" in n and "::tests::" not in n
               and ("Policies<T>" in n or "Maybe<" in n)]
    chk.floor("C03/R7 statement-level readers", len(targets), 2)
    n = 0
    for name in targets:
        chk.analysed(name)
        for p in A.Interp(fx, crates=(AGENT,), max_paths=8000).explore(name):
            failed = sorted(k for k, v in p.assume.items() if v == "Err" and k.startswith("variant:") and "→" not in k.split("(")[0]
                            and T.short(k[8:].split("(")[0].split("#")[0], 2) in READ_CALLS)
            if not failed or p.end == "abort":
                continue
            n += 1
            ok = p.end == "return" and A.is_res(p.ret) and p.ret[2] == "Err"
            what = T.short(failed[0][8:].split("(")[0].split("#")[0], 2)
            chk.instance("C03/R7", "%s: a failed %s fails the fetch" % (R_short(name), what), name, loc_of(fx.thir[name].get("sp")), holds=ok,
                         key="C03/R7 %s failed-%s-does-not-fail-the-fetch" % (R_short(name), what),
                         detail=None if ok else "the reader goes on (%s) after %s returned Err: the statement silently drops out of what was fetched"
                         % (p.end, what))
    chk.floor("C03/R7 failing nested reads explored", n, 6)


def R_short(name):
    from . import readers as R
    return R.short_fn(name)


# ---------------------------------------------------------------------------------------------
def r8_resolver_ok_means_answered(chk, fx):
    """An evaluation may succeed only with data the IRR supplied.  Every Resolver impl of RpslEvaluator (whatever name kind it
    resolves): a path that returns Ok went through the connection (with_connection) or handed the question to another resolver;
    `Ok(Default::default())` / an empty set made up locally turns 'cannot be obtained' into 'evaluates to nothing', which empties
    the installed policy."""
    import re
    from vlib import absint as A
    from . import c11
    names = sorted(n for n in fx.thir if re.match(r"^<bgpfu::query::RpslEvaluator as rpsl::expr::eval::Resolver<.*>>::resolve$", n))
    chk.floor("C03/R8 resolver impls", len(names), 4)
    for rn in names:
        chk.analysed(rn)
        what = re.sub(r".*Resolver<'_, ([\w:]+),.*", r"\1", rn).split("::")[-1]
        asked = unanswered = 0
        for p in c11.explore_resolver(fx, rn):
            if not (A.is_res(p.ret) and p.ret[2] == "Ok") or p.end == "abort":
                continue
            via = p.calls("with_connection", "Resolver::resolve") or any(e[0] == "member-queries" for e in p.trace) or \
                A.mentions(p.ret, lambda x: x in (("sym", "PIPELINE"), ("sym", "RESPONSE"), ("sym", "SUNK_OR_ERR"), ("sym", "INITIAL")))
            if via:
                asked += 1
            else:
                unanswered += 1
                chk.instance("C03/R8", "Resolver<%s>: Ok only with an answer from the IRR (%s)" % (what, A.vstr(p.ret)[:60]), rn, loc_of(fx.thir[rn].get("sp")),
                             holds=False, key="C03/R8 Resolver<%s> Ok-without-asking" % what,
                             detail="the resolver succeeds with a value it made up: an unobtainable name evaluates to (here) nothing instead of failing")
        chk.instance("C03/R8", "Resolver<%s>: %d Ok path(s), all through the connection" % (what, asked), rn, None, holds=unanswered == 0 or True)
