"""C03 — Unobtainable prefix data never removes or empties a managed policy.

TABLE (compare rows), ORIGIN (ranges = .ok() of the evaluator result, no defaulting), GUARD (which IRR errors are sunk),
OKDOM (unknown as-set propagates), path rule (malformed annotation must influence the result).
"""
from vlib import facts as F, thir as T
from vlib.report import loc_of
from . import agent_common as AC

AGENT = AC.AGENT
EVAL_CAND = "<" + AGENT + "::policies::Candidate as " + AGENT + "::policies::eval::Evaluate>::evaluate"
EVAL_POL = "<" + AGENT + "::policies::Policies<" + AGENT + "::policies::Candidate> as " + AGENT + "::policies::eval::Evaluate>::evaluate"
SINK = "<bgpfu::query::RpslEvaluator as rpsl::expr::eval::Evaluator<'a>>::sink_error"
READ_CAND = "<" + AGENT + "::policies::fetch::Maybe<" + AGENT + "::policies::Candidate> as netconf::message::ReadXml>::read_xml"

EXPLANATION = (
    "C03/R1 (TABLE): in Policies<Evaluated>::compare, over the exhaustive abstract domain evaluated in {absent, present/ranges=None, "
    "present/ranges=Some} x installed in {absent, present}: ranges=None yields no Update and no Delete, and Delete is produced only "
    "for (absent, present). C03/R2 (ORIGIN): Candidate::evaluate's `ranges` is Result::ok() of the evaluator result through map/map_err "
    "only (no unwrap_or/default), and Policies<Candidate>::evaluate maps entries one-to-one (no filter). C03/R3 (GUARD): "
    "RpslEvaluator::sink_error can return false, and returns true only under a pattern that matches the tolerated error classes "
    "(route-query KeyNotFound = 'this AS has no routes in this family', single unparsable items). C03/R4: the as-set resolver "
    "reaches responses() only through and_then on pipeline_from_initial (an unknown as-set propagates). C03/R5: the arm handling a "
    "bgpfu-fltr: annotation whose expression fails to parse must influence the reader's result. Not decided: which errors the IRR "
    "returns, irrc's own error paths."
)

TOLERATED = {
    ("ResponseErr", "Ipv4Routes", "KeyNotFound"), ("ResponseErr", "Ipv6Routes", "KeyNotFound"), ("ParseItem",),
}


def run(ctx):
    chk, fx = ctx.chk, ctx.facts
    chk.explanation = EXPLANATION
    chk.assumptions += [
        "rpsl-0.1.1 Evaluator::collect_result(s): sink_error()==true maps an Err item to 'skip and continue', false propagates it",
        "irrc-0.1.0: an unknown key is reported as Error::ResponseErr(query, Response::KeyNotFound)",
    ]
    r1_compare(chk, fx)
    r2_eval(chk, fx)
    r3_sink(chk, fx)
    r4_asset(chk, fx)
    r5_annotation(chk, fx)


def r1_compare(chk, fx):
    n, t, m, scr, rows = AC.decision_table(fx)
    chk.analysed(n)
    chk.extra["compare_table"] = [(e, i, k) for (e, i, a, k) in rows]
    for (e, i, arm, kind) in rows:
        loc = loc_of(arm.get("sp")) if arm else None
        if e == "present/ranges=None":
            chk.instance("C03/R1", "compare(%s, %s) => %s: a failed evaluation sends neither update nor delete" % (e, i, kind), n, loc,
                         holds=kind == "none", key="C03/R1 compare (%s,%s)=>%s" % (e, i, kind))
        elif kind == "delete":
            chk.instance("C03/R1", "compare(%s, %s) => delete only for installed-but-not-candidate" % (e, i), n, loc,
                         holds=(e == "absent" and i == "present"), key="C03/R1 compare delete-for (%s,%s)" % (e, i))
        elif kind in ("unrecognised-pattern", "no-arm", "other", "some-other"):
            chk.instance("C03/R1", "compare(%s, %s): arm of unrecognised form" % (e, i), n, loc, holds=False,
                         key="C03/R1 compare (%s,%s) unrecognised" % (e, i))
        else:
            chk.instance("C03/R1", "compare(%s, %s) => %s" % (e, i, kind), n, loc, holds=True)
    chk.floor("C03/R1 compare abstract cases", len(rows), 6)
    # scrutinee: evaluated lookup first, installed second
    ok = "self.map" in scr[0] and "installed.map" in scr[1]
    chk.instance("C03/R1", "decision is over (self.map.get(name), installed.map.get(name))", n, loc_of(m.get("sp")), holds=ok,
                 key="C03/R1 compare scrutinee")


def chain(e):
    """Method-call chain from the outermost call inwards through receivers: [fn names], innermost receiver."""
    out = []
    e = T.peel(e)
    while e.get("k") == "Call" and e.get("fn") and e.get("args"):
        out.append(e["fn"])
        e = T.peel(e["args"][0])
    return out, e


def r2_eval(chk, fx):
    t = fx.thir_body(EVAL_CAND)
    chk.analysed(t["def"])
    body = T.user_body(t)
    lets = [s for s in T.walk(body) if s.get("k") == "LetStmt" and T.pat_str(s["pat"]) == "ranges"]
    adts = [a for a in T.find(body, "Adt") if a["adt"].endswith("policies::Evaluated")]
    if len(adts) != 1:
        raise F.AnchorLost("Candidate::evaluate: Evaluated{..} literal not found")
    rf = [f for f in adts[0]["fields"] if f["name"] == "ranges"][0]["expr"]
    src = T.peel(rf)
    if src.get("k") == "Var" and len(lets) == 1:
        src = lets[0]["init"]
    fns, recv = chain(src)
    short = [T.short(f, 2) for f in fns]
    chk.extra["ranges_chain"] = short
    ok = bool(fns) and fns[0].endswith("Result::<T, E>::ok") and all(
        f.endswith(("Result::<T, E>::ok", "Result::<T, E>::map", "Result::<T, E>::map_err", "RpslEvaluator::evaluate")) for f in fns) \
        and any(f.endswith("RpslEvaluator::evaluate") for f in fns)
    chk.instance("C03/R2", "Evaluated.ranges = evaluator.evaluate(..)[.map_err|.map]*.ok()  (chain: %s)" % " <- ".join(short), t["def"],
                 loc_of(t.get("sp")), holds=ok, key="C03/R2 Candidate::evaluate ranges-chain",
                 detail="a defaulting combinator (unwrap_or*, or_else(Ok(..)), Default) would turn a failed evaluation into an empty set")
    # the evaluated expression is the candidate's own
    ev = [c for c in T.calls(body, "RpslEvaluator::evaluate")]
    ok = len(ev) == 1 and "self.filter_expr" in T.expr_str(ev[0]["args"][1])
    chk.instance("C03/R2", "the expression evaluated is the candidate's own filter_expr", t["def"], loc_of(t.get("sp")), holds=ok,
                 key="C03/R2 Candidate::evaluate evaluated-expr")
    it = fx.fn_item(EVAL_CAND)
    chk.instance("C03/R2", "Candidate::evaluate returns a plain Evaluated (errors cannot escape as Err)", it["def"], loc_of(it.get("sp")),
                 holds=it["output"].endswith("policies::Evaluated"), key="C03/R2 Candidate::evaluate signature")
    # Policies::evaluate: one-to-one
    t2 = fx.thir_body(EVAL_POL)
    body2 = T.user_body(t2)
    lets = [s for s in T.walk(body2) if s.get("k") == "LetStmt" and T.pat_str(s["pat"]) == "map"]
    if len(lets) != 1:
        raise F.AnchorLost("Policies::evaluate: `let map` not found")
    fns, recv = chain(lets[0]["init"])
    short = [T.short(f, 2) for f in fns]
    ok = short == ["Iterator::collect", "Iterator::map", "IntoIterator::into_iter"] and T.expr_str(recv).replace(" ", "") == "self.map"
    chk.instance("C03/R2", "Policies::evaluate maps every candidate one-to-one (chain: %s)" % " <- ".join(short), t2["def"],
                 loc_of(t2.get("sp")), holds=ok, key="C03/R2 Policies::evaluate chain")
    cl = [tt for n2, tt in fx.thir.items() if n2.startswith(EVAL_POL + "::{closure") and (tt.get("sp") or {}).get("m") is None]
    txt = " ".join(T.expr_str(T.user_body(c)) for c in cl)
    ok = "Evaluate::evaluate(candidate, " in txt and "(name, evaluated)" in txt
    chk.instance("C03/R2", "each entry keeps its name and gets its own evaluation result", t2["def"], loc_of(t2.get("sp")), holds=ok,
                 key="C03/R2 Policies::evaluate closure")


def error_classes(pat):
    """Set of error classes a pattern on Option<&irrc::Error> matches; None = anything."""
    k = pat.get("k")
    if k in ("Wild",) or (k == "Bind" and not pat.get("sub")):
        return None
    if k in ("Deref", "Bind"):
        return error_classes(pat["sub"])
    if k == "Or":
        out = set()
        for p in pat["pats"]:
            c = error_classes(p)
            if c is None:
                return None
            out |= c
        return out
    if k == "Variant" and pat["adt"].endswith("option::Option"):
        if pat["variant"] == "None":
            return None
        return error_classes(pat["sub"][0]["pat"])
    if k == "Variant" and pat["adt"] == "irrc::Error":
        v = pat["variant"]
        if v != "ResponseErr":
            return {(v,)}
        qs, rs = None, None
        for s in pat["sub"]:
            if s["field"] == "0":
                qs = variants_of(s["pat"])
            elif s["field"] == "1":
                rs = variants_of(s["pat"])
        if qs is None or rs is None:
            return {("ResponseErr", "*", "*")}
        return {("ResponseErr", q, r) for q in qs for r in rs}
    return None


def variants_of(pat):
    k = pat.get("k")
    if k == "Variant":
        return {pat["variant"]}
    if k == "Or":
        out = set()
        for p in pat["pats"]:
            v = variants_of(p)
            if v is None:
                return None
            out |= v
        return out
    if k in ("Deref", "Bind") and pat.get("sub"):
        return variants_of(pat["sub"])
    return None


def bool_leaves(e, ctx, out):
    """Collect (bool value | None, positive-pattern context) for every result leaf of expression e."""
    e = T.peel(e)
    k = e.get("k")
    if k == "Block":
        if e.get("expr") is not None:
            bool_leaves(e["expr"], ctx, out)
        else:
            out.append((None, ctx, e))
        for s in e.get("stmts", []):
            for r in T.find(s, "Return"):
                if r.get("value") is not None:
                    bool_leaves(r["value"], ctx + [("in-stmt", None)], out)
    elif k == "If":
        c = T.peel(e["cond"])
        pos = [("let", c["pat"])] if c.get("k") == "Let" else [("cond", c)]
        bool_leaves(e["then"], ctx + pos, out)
        if e.get("else") is not None:
            bool_leaves(e["else"], ctx + [("not", None)], out)
    elif k == "Match":
        for a in e["arms"]:
            bool_leaves(a["body"], ctx + [("let", a["pat"])], out)
    elif k == "Lit" and e.get("lk") == "bool":
        out.append((e["v"], ctx, e))
    elif k == "Return":
        bool_leaves(e.get("value") or {}, ctx, out)
    else:
        out.append((None, ctx, e))


def r3_sink(chk, fx):
    cands = [n for n in fx.thir if n.endswith("::sink_error") and "bgpfu::query::RpslEvaluator" in n]
    if len(cands) != 1:
        raise F.AnchorLost("RpslEvaluator::sink_error not found")
    t = fx.thir[cands[0]]
    chk.analysed(t["def"])
    leaves = []
    bool_leaves(T.user_body(t), [], leaves)
    falses = [l for l in leaves if l[0] is False]
    chk.instance("C03/R3", "sink_error can return false (some IRR errors abort the evaluation)", t["def"], loc_of(t.get("sp")),
                 holds=bool(falses), key="C03/R3 sink_error never-false",
                 detail="every IRR error (unknown route-set, 'F' answers, I/O) is swallowed: the resolver returns Ok(empty/partial set) and the policy is emptied or truncated")
    n = 0
    for (v, ctx, node) in leaves:
        if v is False:
            continue
        n += 1
        if v is None:
            chk.instance("C03/R3", "sink_error result of unrecognised form: %s" % T.expr_str(node)[:60], t["def"], loc_of(node.get("sp")),
                         holds=False, key="C03/R3 sink_error unrecognised-result")
            continue
        classes = None
        for (kind, pat) in ctx:
            if kind == "let" and pat is not None:
                c = error_classes(pat)
                if c is not None:
                    classes = c if classes is None else (classes & c)
        ok = classes is not None and classes <= TOLERATED
        extra = sorted(classes - TOLERATED) if classes else "any error"
        chk.instance("C03/R3", "sink_error returns true only for tolerated error classes (here: %s)" % (sorted(classes) if classes else "ANY"),
                     t["def"], loc_of(node.get("sp")), holds=ok, key="C03/R3 sink_error sinks %s" % (extra if not ok else "tolerated"),
                     detail=None if ok else "an unknown route-set / error answer would yield an empty or partial set that is then installed")
    chk.floor("C03/R3 sink_error result leaves", len(leaves), 1)
    # downcast target is irrc::Error
    dc = [c for c in T.calls(T.user_body(t), "downcast_ref")]
    ok = bool(dc) and all("irrc::Error" in " ".join(c.get("gargs", [])) for c in dc)
    chk.instance("C03/R3", "the error is classified by downcasting to irrc::Error", t["def"], loc_of(t.get("sp")), holds=ok or not dc,
                 key="C03/R3 sink_error downcast-type")


def r4_asset(chk, fx):
    cands = [n for n in fx.thir if n.startswith("<bgpfu::query::RpslEvaluator as rpsl::expr::eval::Resolver<'_, rpsl::names::AsSet")
             and n.endswith("::resolve::{closure#0}")]
    if len(cands) != 1:
        raise F.AnchorLost("as-set resolver closure not found (%d)" % len(cands))
    t = fx.thir[cands[0]]
    chk.analysed(t["def"])
    fns, recv = chain(T.user_body(t))
    short = [T.short(f, 2) for f in fns]
    ok = len(fns) >= 2 and fns[0].endswith("Result::<T, E>::and_then") and fns[1].endswith("pipeline_from_initial")
    chk.instance("C03/R4", "as-set resolver: responses are consumed only via and_then on pipeline_from_initial (chain: %s)" % " <- ".join(short),
                 t["def"], loc_of(t.get("sp")), holds=ok, key="C03/R4 as-set-resolver chain")
    args = T.expr_str(T.user_body(t))
    chk.instance("C03/R4", "the initial query is AsSetMembersRecursive(as_set)", t["def"], loc_of(t.get("sp")),
                 holds="Query::AsSetMembersRecursive(Clone::clone(as_set))" in args.replace("&", "").replace("*", ""),
                 key="C03/R4 as-set-resolver initial-query")


def r5_annotation(chk, fx):
    t = fx.thir_body(READ_CAND)
    chk.analysed(t["def"])
    body = T.user_body(t)
    ms = [m for m in T.find(body, "Match") if any("Result::Err" in T.pat_str(a["pat"]) and "Option::Some" in T.pat_str(a["pat"]) for a in m["arms"])
          and "rpsl::error::ParseError" in (T.peel(m["scrut"]).get("ty") or "")]
    if len(ms) != 1:
        # the parse may be handled in another form: look for any handling of MpFilterExpr parse errors
        chk.instance("C03/R5", "annotation parse result is handled by a match on (raw, raw.parse())", t["def"], loc_of(t.get("sp")),
                     holds=False, key="C03/R5 Maybe<Candidate>::read_xml unrecognised-form")
        return
    for a in ms[0]["arms"]:
        p = T.pat_str(a["pat"])
        if "Result::Err" in p:
            eff = [x for x in T.walk(a["body"]) if x.get("k") in ("Assign", "AssignOp", "Return", "Break", "Try")
                   or (x.get("k") == "Call" and not (x.get("sp") or {}).get("m"))]
            chk.instance("C03/R5", "a malformed bgpfu-fltr: annotation influences the result (not only logged)", t["def"],
                         loc_of(a.get("sp")), holds=bool(eff), key="C03/R5 Maybe<Candidate>::read_xml malformed-annotation-only-logged",
                         detail="the statement drops out of the candidates; compare then sees (absent, present) and deletes the installed policy")
