//! Positive controls for the analysis primitives: for each primitive one minimal *violating* function (`bad_*`) and one
//! conforming twin (`good_*`).  Analysed by the same driver on every run; every primitive must fire on the violating
//! control and stay silent on the twin, otherwise the check run is aborted (exit 2).
#![allow(dead_code, clippy::all)]

use std::future::Future;

pub struct E;
pub fn step1() -> Result<u32, E> { Ok(1) }
pub fn step2(_: u32) -> Result<(), E> { Ok(()) }
pub fn commit() -> Result<(), E> { Ok(()) }

// ---- OKDOM: `commit` only through the success edge of `step1()?` -------------------------------------------------
pub fn good_okdom() -> Result<(), E> {
    let v = step1()?;
    step2(v)?;
    commit()?;
    Ok(())
}
pub fn bad_okdom() -> Result<(), E> {
    let v = step1().unwrap_or(0);
    if let Err(_e) = step2(v) {
        // logged, not propagated
    }
    commit()?;
    Ok(())
}

// ---- GUARD: success value only on the `is_empty` true edge --------------------------------------------------------
pub struct Errors(Vec<u32>);
impl Errors {
    pub fn is_empty(&self) -> bool { self.0.is_empty() }
}
pub enum Reply { Ok, Errs(Errors) }
pub fn good_guard(errors: Errors, saw_ok: bool) -> Option<Reply> {
    if saw_ok && errors.is_empty() { Some(Reply::Ok) } else if !errors.is_empty() { Some(Reply::Errs(errors)) } else { None }
}
pub fn bad_guard(errors: Errors, saw_ok: bool) -> Option<Reply> {
    if saw_ok { Some(Reply::Ok) } else if !errors.is_empty() { Some(Reply::Errs(errors)) } else { None }
}

// ---- EXIT: a zero-length read must leave the loop -----------------------------------------------------------------
pub fn read(_buf: &mut Vec<u8>) -> Result<usize, E> { Ok(0) }
pub fn find(_buf: &[u8]) -> Option<usize> { None }
pub fn good_exit(buf: &mut Vec<u8>) -> Result<usize, E> {
    loop {
        if let Some(i) = find(buf) { break Ok(i); }
        let len = read(buf)?;
        if len == 0 { break Err(E); }
    }
}
pub fn bad_exit(buf: &mut Vec<u8>) -> Result<usize, E> {
    loop {
        if let Some(i) = find(buf) { break Ok(i); }
        let len = read(buf)?;
        let _ = len;
    }
}

// ---- LIVE / LOCK: values held across a suspension point ------------------------------------------------------------
pub struct Guard;
impl Drop for Guard { fn drop(&mut self) {} }
pub async fn lock() -> Guard { Guard }
pub async fn recv() -> Vec<u8> { Vec::new() }
pub fn store(_g: &mut Guard, _v: Vec<u8>) {}
pub async fn good_live() {
    let mut g = lock().await;
    let v = recv().await;
    store(&mut g, v);
}
pub async fn bad_live() {
    let v = recv().await;
    let mut g = lock().await; // `v` is live across this await
    store(&mut g, v);
}
pub async fn good_lock() {
    {
        let mut g = lock().await;
        store(&mut g, Vec::new());
    }
    let _ = recv().await;
}
pub async fn bad_lock() {
    let mut g = lock().await;
    let v = recv().await; // guard held across the read
    store(&mut g, v);
}

// ---- loop-exit dominance: Ok only after every element was checked ----------------------------------------------------
pub fn check(_x: u32) -> Result<(), E> { Ok(()) }
pub fn good_forall(xs: Vec<u32>) -> Result<(), E> {
    for x in xs { check(x)?; }
    Ok(())
}
pub fn bad_forall(xs: Vec<u32>) -> Result<(), E> {
    for x in xs {
        if check(x).is_err() { break; }
    }
    Ok(())
}

// ---- TABLE: match arm extraction ---------------------------------------------------------------------------------------
pub enum State { Pending, Ready(u32), Complete }
pub fn table(s: State) -> Result<Option<u32>, E> {
    match s {
        State::Pending => Ok(None),
        State::Ready(v) => Ok(Some(v)),
        State::Complete => Err(E),
    }
}

pub fn assert_send<F: Future + Send>(_f: F) {}
